package main

// Shared generators, read schedules and fault-injecting readers / writers.

import (
	"bufio"
	"bytes"
	"errors"
	"fmt"
	"io"
	"math"
	"math/rand/v2"
	"sort"
	"strconv"
	"strings"
)

// byteSet is a set of byte values.
type byteSet [256]bool

func setOf(s string) *byteSet {
	var b byteSet
	for i := 0; i < len(s); i++ {
		b[s[i]] = true
	}
	return &b
}

// randBytesExcl returns n random bytes avoiding the excluded set, with a bias
// towards "interesting" bytes (quotes, delimiters of other formats, high
// bytes, NUL).
func randBytesExcl(r *rand.Rand, n int, excl *byteSet) []byte {
	const hot = "\"'@+>#;:,()_ *\\%\x00\x7f\x80\xc8\xff\v\f=-./|`~!$&[]{}<?^"
	out := make([]byte, 0, n)
	mode := r.IntN(6)
	if mode == 5 {
		// Runs of bytes of ONE class — UTF-8 continuation bytes (0x80..0xBF: text that is NOT valid UTF-8,
		// which code that walks back to a rune start or decodes runes trips over), lead bytes of 2-, 3- and
		// 4-byte sequences, bytes that can never occur in UTF-8, control characters, digits, blanks — each
		// run 1 … 130 bytes long.
		classes := [][2]byte{{0x80, 0xBF}, {0x80, 0xBF}, {0xC2, 0xDF}, {0xE0, 0xEF}, {0xF0, 0xF4}, {0xF5, 0xFF}, {0xC0, 0xC1}, {0x00, 0x1F}, {'0', '9'}, {' ', ' '}, {'a', 'z'}, {0x7F, 0x9F}}
		for len(out) < n {
			cl := classes[r.IntN(len(classes))]
			for l := pick(r, []int{1, 2, 3, 4, 59, 60, 61, 62, 63, 64, 65, 130, 1 + r.IntN(40)}); l > 0 && len(out) < n; l-- {
				b := cl[0] + byte(r.IntN(int(cl[1]-cl[0])+1))
				if excl != nil && excl[b] {
					b = cl[1]
					if excl[b] {
						b = 'x'
					}
				}
				out = append(out, b)
			}
		}
		return out
	}
	if mode == 4 && n >= 2 {
		// Valid UTF-8 text with multi-byte runes, in particular the encodings of
		// small code points (code that converts bytes through runes or ranges
		// over strings confuses U+00xx with the byte xx) and of Unicode spaces.
		specials := []rune{0xFF, 0x80, 0x85, 0xA0, 0xC8, 0x100, 0x141, 0x7FF, 0x800, 0x2028, 0x3000, 0xFEFF, 0xFFFD, 0x10000, 0x10FFFF}
		for len(out) < n {
			var cp rune
			switch r.IntN(3) {
			case 0:
				cp = specials[r.IntN(len(specials))]
			case 1:
				cp = rune(0x80 + r.IntN(0x780))
			default:
				cp = rune(33 + r.IntN(94))
			}
			enc := []byte(string(cp))
			bad := len(out)+len(enc) > n
			for _, b := range enc {
				if excl != nil && excl[b] {
					bad = true
				}
			}
			if bad {
				b := byte(33 + r.IntN(94))
				if excl == nil || !excl[b] {
					out = append(out, b)
				}
				continue
			}
			out = append(out, enc...)
		}
		return out
	}
	for len(out) < n {
		var b byte
		switch {
		case mode == 0: // printable ASCII mostly
			b = byte(33 + r.IntN(94))
		case mode == 1 && r.IntN(3) == 0:
			b = hot[r.IntN(len(hot))]
		case mode == 2 && r.IntN(2) == 0:
			b = "ACGTNacgtn"[r.IntN(10)]
		default:
			b = byte(r.IntN(256))
		}
		if r.IntN(8) == 0 {
			b = hot[r.IntN(len(hot))]
		}
		if excl != nil && excl[b] {
			continue
		}
		out = append(out, b)
	}
	return out
}

// pick returns a random element.
func pick[T any](r *rand.Rand, xs []T) T { return xs[r.IntN(len(xs))] }

// hostileInts are integer values that stress formatting and parsing.
var hostileInts = []int{0, 1, -1, 2, 9, 10, 255, 256, 4095, math.MaxInt32, math.MaxInt32 + 1, math.MinInt32, math.MinInt32 - 1,
	math.MaxInt64, math.MinInt64, math.MaxInt64 - 1, math.MinInt64 + 1, 1000000007, -42}

// digitInt returns an integer with a given number of decimal digits (1..19,
// every count equally likely; leading digit random, so 10^k and 10^k−1-like
// values occur), or one next to a power of two or ten — where a hand-written
// integer formatter or parser (digit pairs from a table, "up to 9 digits fit a
// uint32", overflow checks) changes its path.
func digitInt(r *rand.Rand) int {
	var v uint64
	switch r.IntN(4) {
	case 0:
		v = uint64(1)<<uint(r.IntN(64)) + uint64(r.IntN(3)) - 1
	case 1:
		v = 1
		for d := r.IntN(19); d > 0; d-- {
			v *= 10
		}
		v += uint64(r.IntN(3)) - 1
	default:
		digits := 1 + r.IntN(19)
		v = uint64(1 + r.IntN(9))
		for d := 1; d < digits; d++ {
			nd := uint64(r.IntN(10))
			if r.IntN(4) == 0 {
				nd = pick(r, []uint64{0, 9})
			}
			v = v*10 + nd
		}
	}
	if v > math.MaxInt64 {
		v = math.MaxInt64 - uint64(r.IntN(3))
	}
	if r.IntN(2) == 0 {
		return -int(v)
	}
	return int(v)
}

func randInt(r *rand.Rand) int {
	switch r.IntN(5) {
	case 4:
		return digitInt(r)
	case 0:
		return pick(r, hostileInts)
	case 1:
		return r.IntN(1000) - 500
	case 2:
		return int(r.Uint64())
	default:
		return r.IntN(1 << 30)
	}
}

// hostileFloats stress float formatting and parsing.
var hostileFloats = []float64{0, 1, -1, 0.1, -0.1, 1e-320, 5e-324, math.MaxFloat64, -math.MaxFloat64, 1e21, 1e20, 1e-7, 1e-5,
	math.Inf(1), math.Inf(-1), math.NaN(), 1.0 / 3, 123456789.125, 3.1415, 1.07e-05, 100, 1e6, 2.5, math.SmallestNonzeroFloat64 * 3,
	float64(math.MaxInt64), 4.35, 0.30000000000000004,
	// whole numbers on and next to integer-type boundaries (a writer that prints whole numbers through an integer type)
	1 << 31, 1<<31 - 1, -(1 << 31), 1 << 32, 1 << 53, 1<<53 + 2, -(1 << 53), 0x1p63, -0x1p63, 0x1p63 + 2048, 0x1p63 - 1024, 0x1p64, -0x1p64, 1e15, 1e16, 1e18, 1e19, 1e22, -1e19, 123456789012345678}

// decimalFloat returns the float64 nearest to a decimal number with the given
// number of significant digits (1..17) and decimal exponent — the numbers people
// write, and the ones whose shortest text is short: a hand-written fast path of
// a number parser or formatter (exact powers of ten, a split multiplication, a
// digit-count threshold) is taken for exactly these and never for random bits.
func decimalFloat(r *rand.Rand, digits, exp int) float64 {
	mant := uint64(1 + r.IntN(9))
	for d := 1; d < digits; d++ {
		mant = mant*10 + uint64(r.IntN(10))
	}
	f, _ := strconv.ParseFloat(fmt.Sprintf("%de%d", mant, exp), 64)
	if math.IsInf(f, 0) { // beyond the range: the largest finite value
		f = math.MaxFloat64
	}
	if f != 0 && r.IntN(2) == 0 { // (never -0)
		f = -f
	}
	return f
}

func randFloat(r *rand.Rand, allowNonFinite bool) float64 {
	for {
		var f float64
		switch r.IntN(5) {
		case 4:
			f = decimalFloat(r, 1+r.IntN(17), r.IntN(640)-330)
		case 0:
			f = pick(r, hostileFloats)
		case 1:
			f = math.Float64frombits(r.Uint64())
		case 2:
			f = float64(r.IntN(2000)-1000) / 8
		default:
			f = r.NormFloat64() * math.Pow(10, float64(r.IntN(40)-20))
		}
		if !allowNonFinite && (math.IsNaN(f) || math.IsInf(f, 0)) {
			continue
		}
		return f
	}
}

// sameFloat compares floats with NaN == NaN and -0 == 0.
func sameFloat(a, b float64) bool {
	if math.IsNaN(a) || math.IsNaN(b) {
		return math.IsNaN(a) && math.IsNaN(b)
	}
	return a == b
}

// heldMarshalCheck calls MarshalText for every record FIRST, keeping the
// returned slices without copying them, and only then compares each held
// result with what Write produces for the same record: a MarshalText whose
// result is invalidated by a later call (a recycled buffer) is caught here.
// It returns the concatenated Write output.
func heldMarshalCheck(k *K, marshal []func() ([]byte, error), write []func(io.Writer) error) []byte {
	held := make([][]byte, len(marshal))
	for i, m := range marshal {
		txt, err := m()
		if err != nil {
			k.Failf("marshal-error", "MarshalText of record %d returned %v", i, err)
		}
		held[i] = txt
	}
	// A write that fails half-way, before the real ones: whatever it leaves
	// behind must not show up in later output.
	if len(write) > 0 && len(held[0]) > 1 {
		write[0](&limitWriter{k: len(held[0]) / 2})
	}
	var all bytes.Buffer
	for i, w := range write {
		var one bytes.Buffer
		if err := w(&one); err != nil {
			k.Failf("write-error", "Write of record %d returned %v", i, err)
		}
		if !bytes.Equal(one.Bytes(), held[i]) {
			j := 0
			for j < one.Len() && j < len(held[i]) && one.Bytes()[j] == held[i][j] {
				j++
			}
			k.Failf("write-vs-marshal", "record %d of %d: the bytes returned earlier by MarshalText (%d bytes, held while the other records were marshalled) differ from what Write produces (%d bytes); first difference at byte %d",
				i, len(write), len(held[i]), one.Len(), j)
		}
		all.Write(one.Bytes())
	}
	// The returned slices are the caller's: overwriting them must not affect
	// what MarshalText returns next.
	for i := range held {
		for j := range held[i] {
			held[i][j] = '#'
		}
	}
	if len(marshal) > 0 {
		again, err := marshal[0]()
		var one bytes.Buffer
		write[0](&one)
		if err != nil || !bytes.Equal(again, one.Bytes()) {
			k.Failf("marshal-after-scribble", "after the caller overwrote earlier MarshalText results, MarshalText of record 0 returns %.200q, Write produces %.200q", again, one.Bytes())
		}
	}
	k.Count("held_marshal_results", int64(len(held)))
	writerZoo(k, write, all.Bytes())
	return all.Bytes()
}

// arena lays several byte strings out in ONE backing buffer, adjacent to each
// other (optionally with one guard byte in between), and returns them as
// sub-slices whose capacity runs on into the following strings — the way
// callers pass windows of a genome, or fields carved out of one read buffer.
// A callee that appends to such an input, or scribbles past its length,
// damages its neighbours; check() compares the whole buffer with a snapshot.
type arenaT struct {
	buf, snap []byte
	parts     [][]byte
}

func newArena(r *rand.Rand, parts ...[]byte) *arenaT {
	a := &arenaT{}
	guard := r.IntN(2) == 0
	var offs [][2]int
	for _, p := range parts {
		if guard {
			a.buf = append(a.buf, '|')
		}
		offs = append(offs, [2]int{len(a.buf), len(a.buf) + len(p)})
		a.buf = append(a.buf, p...)
	}
	a.buf = append(a.buf, "|tail-of-the-arena|"...)
	a.buf = a.buf[:len(a.buf):len(a.buf)]
	for _, o := range offs {
		a.parts = append(a.parts, a.buf[o[0]:o[1]]) // cap runs to the end of the arena
	}
	a.snap = append([]byte{}, a.buf...)
	return a
}

// check reports the first modified offset, or -1.
func (a *arenaT) check() int {
	for i := range a.buf {
		if a.buf[i] != a.snap[i] {
			return i
		}
	}
	return -1
}

// ---------------------------------------------------------------- readers

// schedReader delivers data in chunks of the given sizes (cycled), optionally
// returning the last chunk together with io.EOF.
type schedReader struct {
	data    []byte
	sizes   []int
	i       int
	eofWith bool // deliver the final bytes together with io.EOF
	empties int  // if > 0: every empties-th call returns (0, nil) — legal for an io.Reader, never twice in a row
	reads   int
}

func (s *schedReader) Read(p []byte) (int, error) {
	s.reads++
	if len(s.data) == 0 {
		return 0, io.EOF
	}
	if len(p) == 0 {
		return 0, nil
	}
	if s.empties > 0 && s.reads%s.empties == 0 {
		return 0, nil
	}
	n := 1
	if len(s.sizes) > 0 {
		n = s.sizes[s.i%len(s.sizes)]
		s.i++
	}
	if n < 1 {
		n = 1
	}
	n = min(n, len(p), len(s.data))
	copy(p, s.data[:n])
	s.data = s.data[n:]
	if len(s.data) == 0 && s.eofWith {
		return n, io.EOF
	}
	return n, nil
}

var errInjected = errors.New("injected read failure")
var errInjectedWrite = errors.New("injected write failure")

type readBudgetExceeded struct{}

// faultReader delivers the first k bytes of data and then fails; either once
// (then EOF) or forever. It panics with readBudgetExceeded after too many
// calls, so that a consumer spinning on the failing reader is caught by logical
// steps rather than by a clock.
type faultReader struct {
	data     []byte
	k        int
	bytewise bool
	forever  bool
	withData bool  // deliver the last good bytes together with the error
	err      error // the error to fail with (default errInjected)
	failed   int
	calls    int
	budget   int
}

func (f *faultReader) fail() error {
	if f.err != nil {
		return f.err
	}
	return errInjected
}

func (f *faultReader) Read(p []byte) (int, error) {
	f.calls++
	if f.calls > f.budget {
		panic(readBudgetExceeded{})
	}
	if len(p) == 0 {
		return 0, nil
	}
	if f.k > 0 {
		n := min(f.k, len(p))
		if f.bytewise {
			n = 1
		}
		copy(p, f.data[:n])
		f.data = f.data[n:]
		f.k -= n
		if f.k == 0 && f.withData {
			f.failed++
			return n, f.fail()
		}
		return n, nil
	}
	if f.failed == 0 || f.forever {
		f.failed++
		return 0, f.fail()
	}
	return 0, io.EOF
}

// limitWriter accepts exactly k bytes and then fails every write.
type limitWriter struct {
	k         int
	nonSticky bool // a call that does not fit is refused as a whole (0, error); later calls that fit are accepted again
	fullCount bool // a write-behind destination: it takes all of p into its own buffer and THEN fails pushing it on — (len(p), error)
	buf       []byte
	short  bool // report short writes with a nil error... never: io.Writer contract requires an error
	failed int  // number of calls that returned an error
}

func (w *limitWriter) Write(p []byte) (int, error) {
	if w.k < 0 {
		w.buf = append(w.buf, p...)
		return len(p), nil
	}
	if len(p) <= w.k {
		w.k -= len(p)
		w.buf = append(w.buf, p...)
		return len(p), nil
	}
	if w.fullCount { // the error comes with a full count: legal (an error is REQUIRED for n < len(p), not forbidden otherwise)
		w.buf = append(w.buf, p[:w.k]...)
		w.k = 0
		w.failed++
		return len(p), errInjectedWrite
	}
	if w.nonSticky { // a fixed-capacity destination: this piece is refused, smaller ones may still go in
		w.failed++
		return 0, errInjectedWrite
	}
	n := w.k
	w.buf = append(w.buf, p[:n]...)
	w.k = 0
	w.failed++
	return n, errInjectedWrite
}

// arenaFail reports a modified arena.
func arenaFail(k *K, a *arenaT, what string) bool {
	if off := a.check(); off >= 0 {
		k.Failf("input-memory-modified", "%s wrote into its caller's memory: the buffer the inputs were carved from changed at offset %d (%q -> %q)",
			what, off, fmt.Sprintf("%.40s", a.snap[max(0, off-10):min(len(a.snap), off+10)]), fmt.Sprintf("%.40s", a.buf[max(0, off-10):min(len(a.buf), off+10)]))
		return true
	}
	return false
}

// ---------------------------------------------------------------- writers

// Destinations of different dynamic types. A Write method may look at what
// else its destination can do (io.ByteWriter, io.StringWriter, io.ReaderFrom,
// a concrete *bufio.Writer or *bytes.Buffer) and take another path.
type onlyWriter struct{ b *bytes.Buffer }

func (w onlyWriter) Write(p []byte) (int, error) { return w.b.Write(p) }

type byteStringWriter struct{ b *bytes.Buffer }

func (w byteStringWriter) Write(p []byte) (int, error)       { return w.b.Write(p) }
func (w byteStringWriter) WriteByte(c byte) error            { return w.b.WriteByte(c) }
func (w byteStringWriter) WriteString(s string) (int, error) { return w.b.WriteString(s) }
func (w byteStringWriter) ReadFrom(r io.Reader) (int64, error) {
	return w.b.ReadFrom(r)
}

// shortChunkWriter accepts everything, but passes it on in pieces of at most n bytes (like a pipe).
type shortChunkWriter struct {
	b *bytes.Buffer
	n int
}

func (w shortChunkWriter) Write(p []byte) (int, error) {
	for off := 0; off < len(p); off += w.n {
		w.b.Write(p[off:min(len(p), off+w.n)])
	}
	return len(p), nil
}

// writerZoo writes all records, one after the other, to destinations of many
// kinds and compares each result with want (the concatenated MarshalText
// results). The records are written twice to the buffered destinations before
// the flush, so that a record starts at every fill level of the buffer.
func writerZoo(k *K, ws []func(io.Writer) error, want []byte) {
	if len(ws) == 0 || k.Failed() {
		return
	}
	type dest struct {
		name  string
		w     io.Writer
		flush func() error
		out   func() []byte
		twice bool
	}
	var ds []dest
	mk := func(name string, f func(b *bytes.Buffer) (io.Writer, func() error), twice bool) {
		b := &bytes.Buffer{}
		w, fl := f(b)
		ds = append(ds, dest{name, w, fl, b.Bytes, twice})
	}
	mk("a plain io.Writer", func(b *bytes.Buffer) (io.Writer, func() error) { return onlyWriter{b}, nil }, false)
	mk("a writer with WriteByte, WriteString and ReadFrom", func(b *bytes.Buffer) (io.Writer, func() error) { return byteStringWriter{b}, nil }, false)
	mk("a writer that forwards in 7-byte pieces", func(b *bytes.Buffer) (io.Writer, func() error) { return shortChunkWriter{b, 7}, nil }, false)
	sizes := []int{16, 100, 4096, 1 << 16}
	if len(want) > 1<<20 {
		sizes = []int{4096, 1 << 16}
	}
	for _, size := range sizes {
		mk(fmt.Sprintf("*bufio.Writer of size %d", size), func(b *bytes.Buffer) (io.Writer, func() error) {
			bw := bufio.NewWriterSize(b, size)
			return bw, bw.Flush
		}, true)
	}
	var sb strings.Builder
	ds = append(ds, dest{"*strings.Builder", &sb, nil, func() []byte { return []byte(sb.String()) }, false})
	for _, d := range ds {
		reps := 1
		if d.twice {
			reps = 2
		}
		for rep := 0; rep < reps; rep++ {
			for i, w := range ws {
				if err := w(d.w); err != nil {
					k.Failf("write-error", "Write of record %d to %s returned %v", i, d.name, err)
					return
				}
			}
		}
		if d.flush != nil {
			if err := d.flush(); err != nil {
				k.Failf("write-error", "Flush of %s returned %v", d.name, err)
				return
			}
		}
		got := d.out()
		exp := want
		if reps == 2 {
			exp = append(append([]byte{}, want...), want...)
		}
		if !bytes.Equal(got, exp) {
			j := 0
			for j < len(got) && j < len(exp) && got[j] == exp[j] {
				j++
			}
			k.Failf("write-destination", "%d record(s) written%s to %s give %d bytes, MarshalText gives %d; first difference at byte %d: %.60q vs %.60q",
				len(ws), map[int]string{1: "", 2: " twice over"}[reps], d.name, len(got), len(exp), j, got[min(j, len(got)):min(len(got), j+40)], exp[min(j, len(exp)):min(len(exp), j+40)])
			return
		}
		k.Count("writer_kinds_compared", 1)
	}
	// A destination that, while it is being written to, itself writes a record of the same kind elsewhere (a tee that
	// keeps an index, a writer that logs what passes through): Write calls nest. Whatever Write holds while it calls
	// its destination — a lock, a shared scratch buffer — is needed again by the nested call.
	{
		var outer, inner bytes.Buffer
		depth, nested := 0, 0
		re := writerFunc(func(p []byte) (int, error) {
			if depth == 0 && nested < 3 {
				depth++
				nested++
				err := ws[0](&inner)
				depth--
				if err != nil {
					return 0, err
				}
			}
			return outer.Write(p)
		})
		for i, w := range ws {
			if err := w(re); err != nil {
				k.Failf("write-error", "Write of record %d to a destination that itself writes a record while it is written to returned %v", i, err)
				return
			}
		}
		if !bytes.Equal(outer.Bytes(), want) || (nested > 0 && inner.Len() == 0 && len(want) > 0) {
			k.Failf("write-destination", "%d record(s) written to a destination that itself writes a record (nested Write calls) give %d bytes, MarshalText gives %d; the nested calls wrote %d bytes", len(ws), outer.Len(), len(want), inner.Len())
			return
		}
		k.Count("nested_write_calls", int64(nested))
	}
}

type writerFunc func(p []byte) (int, error)

func (f writerFunc) Write(p []byte) (int, error) { return f(p) }

// Failing destinations with more methods than Write: whichever method the
// record's Write uses, once the destination has returned an error from any of
// them, Write must return an error.
type limitWriterB struct{ *limitWriter }

func (w limitWriterB) WriteByte(c byte) error {
	_, err := w.limitWriter.Write([]byte{c})
	return err
}

type limitWriterS struct{ *limitWriter }

func (w limitWriterS) WriteString(s string) (int, error) { return w.limitWriter.Write([]byte(s)) }

type limitWriterBS struct{ *limitWriter }

func (w limitWriterBS) WriteByte(c byte) error {
	_, err := w.limitWriter.Write([]byte{c})
	return err
}
func (w limitWriterBS) WriteString(s string) (int, error) { return w.limitWriter.Write([]byte(s)) }

// faultDest returns a destination of the given kind (0..3) over lw.
func faultDest(kind int, lw *limitWriter) (io.Writer, string) {
	switch kind % 4 {
	case 1:
		return limitWriterB{lw}, "a writer with Write and WriteByte"
	case 2:
		return limitWriterS{lw}, "a writer with Write and WriteString"
	case 3:
		return limitWriterBS{lw}, "a writer with Write, WriteByte and WriteString"
	}
	return lw, "a plain io.Writer"
}

// runSeq returns n symbols over alpha that are NOT uniformly random: runs of
// one symbol and tandem repeats of a short unit (period 1..8), of lengths 1..3,
// 15..17, 31..33, 63..65, 127..129, 255..257, 1000 and random, with short
// random stretches in between — homopolymers, microsatellites, padding. Code
// that treats runs specially (run-length tricks, bulk fills, "same as the
// previous byte" caches, SIMD-style block compares) sees nothing of the kind
// in uniformly random input.
func runSeq(r *rand.Rand, alpha []byte, n int) []byte {
	out := make([]byte, 0, n)
	for len(out) < n {
		l := pick(r, []int{1, 2, 3, 15, 16, 17, 31, 32, 33, 63, 64, 65, 127, 128, 129, 255, 256, 257, 1000, 1 + r.IntN(40), 1 + r.IntN(300)})
		switch r.IntN(4) {
		case 0: // a random stretch
			out = append(out, randSeq(r, alpha, min(l, 12))...)
		case 1: // a tandem repeat
			unit := randSeq(r, alpha, 1+r.IntN(8))
			for j := 0; j < l; j++ {
				out = append(out, unit[j%len(unit)])
			}
		default: // a run of one symbol (the first and the last of the alphabet more often than the others)
			b := alpha[r.IntN(len(alpha))]
			if r.IntN(3) == 0 {
				b = pick(r, []byte{alpha[0], alpha[len(alpha)-1]})
			}
			for j := 0; j < l; j++ {
				out = append(out, b)
			}
		}
	}
	return out[:n]
}

// seqOrRuns: randSeq, or (one time in four) runSeq.
func seqOrRuns(r *rand.Rand, alpha []byte, n int) []byte {
	if r.IntN(4) == 0 {
		return runSeq(r, alpha, n)
	}
	return randSeq(r, alpha, n)
}

// roundLengths returns the "round" sizes up to limit that a chunked, blocked or
// batched implementation is likely to be built around, each with its two
// neighbours: k*10^j (k = 1..9), k*2^j (k = 1, 3, 5, 7, 9), 3*k*2^j (codons),
// and every length up to 70. Lengths next to powers of two are everywhere in
// this harness; 10 000, 30 000 or 3 072 are not next to any.
func roundLengths(limit int) []int {
	set := map[int]bool{}
	add := func(v int) {
		for d := -1; d <= 1; d++ {
			if v+d >= 0 && v+d <= limit {
				set[v+d] = true
			}
		}
	}
	for v := 0; v <= 70; v++ {
		add(v)
	}
	for p := 10; p <= limit; p *= 10 {
		for k := 1; k <= 9; k++ {
			add(k * p)
			add(3 * k * p)
		}
	}
	for p := 64; p <= limit; p *= 2 {
		for _, k := range []int{1, 3, 5, 7, 9} {
			add(k * p)
			add(3 * k * p)
		}
	}
	out := make([]int, 0, len(set))
	for v := range set {
		out = append(out, v)
	}
	sort.Ints(out)
	return out
}
