package main

// Tree generators shared by C05, C18 and C19.

import (
	"math/rand/v2"

	"github.com/fluhus/biostuff/formats/newick"
)

// dyckWords returns all balanced parenthesis words with n pairs.
func dyckWords(n int) []string {
	var out []string
	buf := make([]byte, 0, 2*n)
	var rec func(open, close int)
	rec = func(open, close int) {
		if open == n && close == n {
			out = append(out, string(buf))
			return
		}
		if open < n {
			buf = append(buf, '(')
			rec(open+1, close)
			buf = buf[:len(buf)-1]
		}
		if close < open {
			buf = append(buf, ')')
			rec(open, close+1)
			buf = buf[:len(buf)-1]
		}
	}
	rec(0, 0)
	return out
}

// treeFromDyck builds the ordered tree with len(w)/2+1 nodes encoded by a Dyck
// word: '(' opens a new child of the current node, ')' returns to the parent.
// Nodes are returned in creation (= pre-) order.
func treeFromDyck(w string) (*newick.Node, []*newick.Node) {
	root := &newick.Node{}
	nodes := []*newick.Node{root}
	stack := []*newick.Node{root}
	for i := 0; i < len(w); i++ {
		if w[i] == '(' {
			n := &newick.Node{}
			p := stack[len(stack)-1]
			p.Children = append(p.Children, n)
			stack = append(stack, n)
			nodes = append(nodes, n)
		} else {
			stack = stack[:len(stack)-1]
		}
	}
	return root, nodes
}

// allShapes returns the Dyck words of every ordered tree with 1..maxNodes nodes.
func allShapes(maxNodes int) []string {
	var out []string
	for n := 1; n <= maxNodes; n++ {
		out = append(out, dyckWords(n-1)...)
	}
	return out
}

// randomTree builds a random tree with n nodes. style 0: random recursive tree
// (each node attaches to a uniformly random earlier node); 1: bushy (prefers
// recent nodes); 2: chain with occasional side leaves; 3: star-like.
func randomTree(r *rand.Rand, n int, style int) (*newick.Node, []*newick.Node) {
	root := &newick.Node{}
	nodes := []*newick.Node{root}
	for i := 1; i < n; i++ {
		var p *newick.Node
		switch style {
		case 0:
			p = nodes[r.IntN(len(nodes))]
		case 1:
			lo := max(0, len(nodes)-8)
			p = nodes[lo+r.IntN(len(nodes)-lo)]
		case 2:
			if r.IntN(10) == 0 {
				p = nodes[r.IntN(len(nodes))]
			} else {
				p = nodes[len(nodes)-1]
			}
		default:
			if r.IntN(4) == 0 {
				p = nodes[r.IntN(len(nodes))]
			} else {
				p = root
			}
		}
		c := &newick.Node{}
		p.Children = append(p.Children, c)
		nodes = append(nodes, c)
	}
	return root, nodes
}

// chainTree builds a chain of the given depth (each node has one child), with
// a side leaf every `every` levels if every > 0.
func chainTree(depth int, every int) (*newick.Node, int) {
	root := &newick.Node{}
	cur := root
	count := 1
	for i := 1; i < depth; i++ {
		c := &newick.Node{}
		cur.Children = append(cur.Children, c)
		count++
		if every > 0 && i%every == 0 {
			cur.Children = append(cur.Children, &newick.Node{})
			count++
		}
		cur = c
	}
	return root, count
}

// refPreOrder / refPostOrder are the classic recursive definitions, written
// with an explicit stack only to survive very deep trees; they are validated
// against truly recursive versions in the self-test.
func refPreOrder(root *newick.Node) []*newick.Node {
	var out []*newick.Node
	stack := []*newick.Node{root}
	for len(stack) > 0 {
		n := stack[len(stack)-1]
		stack = stack[:len(stack)-1]
		out = append(out, n)
		for i := len(n.Children) - 1; i >= 0; i-- {
			stack = append(stack, n.Children[i])
		}
	}
	return out
}

func refPostOrder(root *newick.Node) []*newick.Node {
	// reverse of (node, children right-to-left) pre-order
	var out []*newick.Node
	stack := []*newick.Node{root}
	for len(stack) > 0 {
		n := stack[len(stack)-1]
		stack = stack[:len(stack)-1]
		out = append(out, n)
		for _, c := range n.Children {
			stack = append(stack, c)
		}
	}
	for i, j := 0, len(out)-1; i < j; i, j = i+1, j-1 {
		out[i], out[j] = out[j], out[i]
	}
	return out
}

func recPreOrder(n *newick.Node, out *[]*newick.Node) {
	*out = append(*out, n)
	for _, c := range n.Children {
		recPreOrder(c, out)
	}
}

func recPostOrder(n *newick.Node, out *[]*newick.Node) {
	for _, c := range n.Children {
		recPostOrder(c, out)
	}
	*out = append(*out, n)
}
