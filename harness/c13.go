package main

// C13 — 2-bit packing.   C14 — translation.

import (
	"bytes"
	"fmt"

	"github.com/fluhus/biostuff/sequtil"
)

func refCode(b byte) int {
	switch b {
	case 'a', 'A':
		return 0
	case 'c', 'C':
		return 1
	case 'g', 'G':
		return 2
	case 't', 'T':
		return 3
	}
	return -1
}

// refPack: first base in bits 7..6.
func refPack(s []byte) []byte {
	out := make([]byte, (len(s)+3)/4)
	for i, b := range s {
		c := refCode(b)
		if c < 0 {
			panic("refPack: bad base")
		}
		out[i/4] |= byte(c) << uint(6-2*(i%4))
	}
	return out
}

func refUnpack(p []byte) []byte {
	out := make([]byte, 0, 4*len(p))
	for _, b := range p {
		for sh := 6; sh >= 0; sh -= 2 {
			out = append(out, "ACGT"[(b>>uint(sh))&3])
		}
	}
	return out
}

func checkPack(k *K, s []byte, full bool) {
	want := refPack(s)
	s0 := append([]byte{}, s...)
	prefixes := [][]byte{nil}
	if full {
		prefixes = [][]byte{nil, []byte("x"), []byte("\xff\x00\xaa\x55\x01")}
	}
	for _, p := range prefixes {
		for _, spare := range spareSet((len(s)+3)/4, full) {
			dst := withCap(p, spare) // garbage in the spare capacity must not leak into the result
			got := sequtil.DNATo2Bit(dst, s)
			if len(got) != len(p)+(len(s)+3)/4 {
				k.Input("seq", s0)
				k.Failf("pack-length", "DNATo2Bit(dst of %d bytes, %q) has %d bytes, want %d + ceil(%d/4)", len(p), s0, len(got), len(p), len(s))
				return
			}
			if !bytes.Equal(got[:len(p)], p) || !bytes.Equal(dst[:len(p)], p) {
				k.Input("seq", s0)
				k.Failf("pack-dst-modified", "DNATo2Bit changed the existing content of dst %q -> %q", p, got[:len(p)])
				return
			}
			if !bytes.Equal(got[len(p):], want) {
				k.Input("seq", s0)
				k.Failf("pack", "DNATo2Bit(dst=%q spare=%d, %q) appended %x, want %x", p, spare, s0, got[len(p):], want)
				return
			}
			if !bytes.Equal(s, s0) {
				k.Failf("pack-src-modified", "DNATo2Bit modified src %q -> %q", s0, s)
				return
			}
		}
	}
	// Unpacking gives the upper-case form followed by 'A' padding.
	up := bytes.ToUpper(s0)
	for len(up)%4 != 0 {
		up = append(up, 'A')
	}
	for _, p := range prefixes {
		for _, spare := range spareSet(len(up), full) {
			dst := withCap(p, spare)
			got := sequtil.DNAFrom2Bit(dst, want)
			if !bytes.Equal(got[:min(len(p), len(got))], p) || !bytes.Equal(got[min(len(p), len(got)):], up) {
				k.Input("seq", s0)
				k.Failf("unpack", "DNAFrom2Bit(dst=%q spare=%d, pack(%q)) = %q, want dst followed by %q", p, spare, s0, got, up)
				return
			}
		}
	}
	k.Count("pack_checked", 1)
}

func init() {
	register(&Property{
		ID:    "C13",
		Level: "exploration",
		Rule: "every DNA string over aAcCgGtT up to a length bound, random strings to 10000, dst prefixes with and without (dirty) spare capacity, compared with an independent bit-arithmetic pack/unpack; " +
			"DNATo2Bit(DNAFrom2Bit(p)) == p for all 256 single bytes and all 65536 byte pairs and random p; Ntoi over all 256 bytes, Iton/Ntoi inverse laws; every byte outside aAcCgGtT must make DNATo2Bit panic (alone and embedded); " +
			"readers unit: the calls run while reader goroutines read the protected memory, -race build reports any write to it (also one undone before returning); " +
			"non-trivial = string of length >= 1 / each packed value; distinct by construction in exhaustive scopes",
		MinEvents: map[string]int64{"pack_checked": 100000, "unpack_pack_checked": 65536 + 256, "ntoi_checked": 256, "panics_observed": 248},
		Units: []Unit{
			{Name: "exhaustive", QShards: 2, TShards: 8, Run: c13Exhaustive},
			{Name: "packed", Run: c13Packed},
			{Name: "gigantic", Run: c13Gigantic},
			{Name: "random", TShards: 2, Run: c13Random},
			{Name: "bytes", Run: c13Bytes},
			{Name: "afteruse", Run: afterUse(c13Bytes)},
			{Name: "srcviews", TShards: 2, Run: srcViewUnit(viewCallsC13)},
			{Name: "bigdst", Run: bigDstUnit(bigDstC13)},
			{Name: "casemasks", Run: caseMaskUnit("ACGT", 80, 300, func(k *K, v []byte) { checkPack(k, v, false) })},
			{Name: "longcontext", QShards: 8, TShards: 12, Run: func(c *Ctx) {
				longContextPanics(c, 0, "ACGTacgt", []byte{'N', 'U', 'u', '@', 0, 0xff, 'B', 0x80, '`'}, map[string]func([]byte){
					"DNATo2Bit": func(s []byte) { sequtil.DNATo2Bit(nil, s) },
					// a destination with room for the whole result (the usual reused buffer): another path, the same contract
					"DNATo2Bit (dst with spare capacity)": func(s []byte) { sequtil.DNATo2Bit(make([]byte, 3, 8+len(s)), s) }})
				periodicPanics(c, "ACGTacgt", []byte{'N', 'u', 0x80, 0},
					map[string]func([]byte){"DNATo2Bit": func(s []byte) { sequtil.DNATo2Bit(nil, s) }, "DNATo2Bit (dst with spare capacity)": func(s []byte) { sequtil.DNATo2Bit(make([]byte, 3, 8+len(s)), s) }})
			}},
			{Name: "readers", Race: true, QShards: 2, TShards: 4, Run: c13Readers},
			{Name: "parallel", Race: true, Run: sequtilParallel("pack")},
			firstCallUnit(firstSequtilPack),
			firstParallelUnit(parSequtilPack),
			reuseUnit(reusePack),
			roundLensUnit(reusePack),
		},
	})
	register(&Property{
		ID:    "C14",
		Level: "exploration",
		Rule: "all 64 codons x 8 case patterns against the NCBI table-1 string in TCAG order; concatenation law and dst prefixes on random codon sequences; panic for every length not divisible by 3 (0..50) and for each of the 248 non-ACGT bytes at each codon position; " +
			"TranslateReadingFrames against a reference for every length 0..64 (all contents up to length 5, random beyond) and random lengths to 5000; AminoName over all 256 bytes; " +
			"non-trivial = each codon spelling, each frame case of length >= 3, each byte value; distinct by construction in exhaustive scopes, by hash otherwise",
		MinEvents: map[string]int64{"codon_spellings": 512, "frames_checked": 1000, "aminoname_bytes": 256, "bad_base_panics": 248 * 3, "bad_length_panics": 30},
		Units: []Unit{
			{Name: "codons", Run: c14Codons},
			{Name: "frames", TShards: 4, Run: c14Frames},
			{Name: "panics", Run: c14Panics},
			{Name: "afteruse", Run: afterUse(c14Panics)},
			{Name: "srcviews", TShards: 2, Run: srcViewUnit(viewCallsC14)},
			{Name: "bigdst", Run: bigDstUnit(bigDstC14)},
			{Name: "casemasks", Run: caseMaskUnit("ACGT", 60, 200, func(k *K, v []byte) {
				checkFrames(k, v)
				w := v[:len(v)/3*3]
				if got, want := sequtil.Translate(nil, w), refTranslate(w); !bytes.Equal(got, want) {
					k.Failf("translate", "Translate(%q) = %q, want %q", w, got, want)
				}
			})},
			{Name: "aminoname", Run: c14AminoName},
			{Name: "framepanics", Run: c14FramePanics},
			{Name: "gigantic", Run: c14Gigantic},
			{Name: "longcontext", QShards: 8, TShards: 12, Run: func(c *Ctx) {
				longContextPanics(c, 0, "ACGTacgt", []byte{'N', 'U', '@', 0, 0xff, 0x80}, map[string]func([]byte){
					"Translate": func(s []byte) { sequtil.Translate(nil, append(append([]byte{}, s...), "AA"[:(3-len(s)%3)%3]...)) },
					"Translate (dst with spare capacity)": func(s []byte) {
						sequtil.Translate(make([]byte, 2, 8+len(s)), append(append([]byte{}, s...), "AA"[:(3-len(s)%3)%3]...))
					},
					"TranslateReadingFrames": func(s []byte) { sequtil.TranslateReadingFrames(s) }})
				periodicPanics(c, "ACGTacgt", []byte{'N', 'U', 0x80, 0}, map[string]func([]byte){
					"Translate":                           func(s []byte) { sequtil.Translate(nil, s[:len(s)/3*3]) },
					"Translate (dst with spare capacity)": func(s []byte) { sequtil.Translate(make([]byte, 2, 8+len(s)), s[:len(s)/3*3]) }})
			}},
			{Name: "parallel", Race: true, Run: sequtilParallel("translate")},
			firstCallUnit(firstSequtilAmino),
			firstParallelUnit(parSequtilAmino),
			reuseUnit(reuseAmino),
			roundLensUnit(reuseAmino),
		},
	})
}

func c13Exhaustive(c *Ctx) {
	maxLen := c.N(6, 8)
	idx := int64(0)
	c.Case(idx, func(k *K) {
		checkPack(k, []byte{}, true)
		checkPack(k, nil, true)
		k.DistinctBC(1)
	})
	idx++
	for n := 1; n <= maxLen; n++ {
		for first := 0; first < len(dna8); first++ {
			c.Case(idx, func(k *K) {
				cnt := int64(0)
				enumSeqs(dna8, n, first, func(s []byte) {
					if k.Failed() {
						return
					}
					checkPack(k, s, n <= 5)
					cnt++
				})
				k.Evals(cnt - 1)
				k.DistinctBC(cnt)
				k.Input("batch", fmt.Sprintf("all %d strings of length %d starting with %q", cnt, n, dna8[first]))
			})
			idx++
		}
	}
	c.Exhaustive(fmt.Sprintf("exhaustive: all DNA strings over aAcCgGtT of length 0..%d", maxLen))
}

func c13Packed(c *Ctx) {
	check := func(k *K, p []byte) bool {
		un := sequtil.DNAFrom2Bit(nil, p)
		if w := refUnpack(p); !bytes.Equal(un, w) {
			k.Input("packed", fmt.Sprintf("%x", p))
			k.Failf("unpack", "DNAFrom2Bit(%x) = %q, want %q", p, un, w)
			return false
		}
		back := sequtil.DNATo2Bit(nil, un)
		if !bytes.Equal(back, p) {
			k.Input("packed", fmt.Sprintf("%x", p))
			k.Failf("unpack-pack", "DNATo2Bit(DNAFrom2Bit(%x)) = %x", p, back)
			return false
		}
		// Results belong to the caller: overwrite them (up to their capacity)
		// and decode / pack the same values again.
		for _, res := range [][]byte{un, back} {
			full := res[:cap(res)]
			for j := range full {
				full[j] = '#'
			}
		}
		if un2, w := sequtil.DNAFrom2Bit(nil, p), refUnpack(p); !bytes.Equal(un2, w) {
			k.Input("packed", fmt.Sprintf("%x", p))
			k.Failf("result-after-scribble", "after the caller overwrote an earlier result, DNAFrom2Bit(%x) = %q, want %q", p, un2, w)
			return false
		}
		if b2 := sequtil.DNATo2Bit(nil, refUnpack(p)); !bytes.Equal(b2, p) {
			k.Input("packed", fmt.Sprintf("%x", p))
			k.Failf("result-after-scribble", "after the caller overwrote an earlier result, DNATo2Bit(%q) = %x, want %x", refUnpack(p), b2, p)
			return false
		}
		k.Count("unpack_pack_checked", 1)
		return true
	}
	c.Case(0, func(k *K) {
		check(k, nil)
		for b := 0; b < 256; b++ {
			if !check(k, []byte{byte(b)}) {
				return
			}
		}
		k.Evals(255)
		k.DistinctBC(256)
	})
	for hi := 0; hi < 256; hi++ {
		c.Case(int64(1+hi), func(k *K) {
			for lo := 0; lo < 256; lo++ {
				if !check(k, []byte{byte(hi), byte(lo)}) {
					return
				}
			}
			k.Evals(255)
			k.DistinctBC(256)
		})
	}
	c.Exhaustive("packed: all 256 single bytes and all 65536 byte pairs")
	n := c.N(1000, 100000)
	for i := 0; i < n; i++ {
		c.Case(int64(257+i), func(k *K) {
			r := k.Rand()
			p := make([]byte, r.IntN(200))
			for j := range p {
				p[j] = byte(r.IntN(256))
			}
			if i%3 == 0 { // packed runs: poly-A is 0x00, poly-T 0xFF, ACGT repeated 0x1B …
				p = runSeq(r, []byte{0x00, byte(r.IntN(256)), 0x1b, byte(r.IntN(256)), 0xff}, pick(r, []int{r.IntN(200), r.IntN(200), 1000, 5000}))
				k.Count("run_structured_packed", 1)
			}
			check(k, p)
			// with a dst prefix
			pre := []byte("pre")
			un := sequtil.DNAFrom2Bit(append([]byte{}, pre...), p)
			if !bytes.HasPrefix(un, pre) || !bytes.Equal(un[len(pre):], refUnpack(p)) {
				k.Input("packed", fmt.Sprintf("%x", p))
				k.Failf("unpack-dst", "DNAFrom2Bit with a dst prefix returned %q", un)
			}
			k.Nontrivial(p)
		})
	}
}

func c13Random(c *Ctx) {
	n := c.N(2000, 150000)
	for i := 0; i < n; i++ {
		c.Case(int64(i), func(k *K) {
			r := k.Rand()
			l := r.IntN(100)
			if r.IntN(10) == 0 {
				l = r.IntN(10001)
			}
			s := seqOrRuns(r, []byte(dna8), l)
			k.Input("seq", s)
			// several strings packed from adjacent windows of one buffer, dst right behind src
			{
				s2 := randSeq(r, []byte(dna8), 1+r.IntN(9))
				ar := newArena(r, s, s2, []byte("\x1b\xe4"))
				dstWin := ar.parts[2][:len(ar.parts[2]):len(ar.parts[2])]
				g1 := sequtil.DNATo2Bit(nil, ar.parts[0])
				g2 := sequtil.DNATo2Bit(nil, ar.parts[1])
				g3 := sequtil.DNATo2Bit(dstWin, ar.parts[0])
				if !bytes.Equal(g1, refPack(s)) || !bytes.Equal(g2, refPack(s2)) || !bytes.Equal(g3, append([]byte("\x1b\xe4"), refPack(s)...)) {
					k.Failf("pack", "DNATo2Bit on strings carved from one buffer gives %x / %x / %x, want %x / %x / 1be4+%x", g1, g2, g3, refPack(s), refPack(s2), refPack(s))
					return
				}
				u := sequtil.DNAFrom2Bit(nil, refPack(s))
				_ = u
				if arenaFail(k, ar, "DNATo2Bit") {
					return
				}
				k.Count("arena_cases", 1)
			}
			heldPacked := sequtil.DNATo2Bit(nil, s)
			heldUnpacked := sequtil.DNAFrom2Bit(nil, heldPacked)
			checkPack(k, s, true)
			other := randSeq(r, []byte(dna8), l)
			sequtil.DNAFrom2Bit(nil, sequtil.DNATo2Bit(nil, other))
			if !bytes.Equal(heldPacked, refPack(s)) || !bytes.Equal(heldUnpacked, refUnpack(refPack(s))) {
				k.Failf("result-not-stable", "a DNATo2Bit/DNAFrom2Bit result changed after later calls")
			}
			k.Count("held_results_verified", 1)
			if l > 0 {
				k.Nontrivial(s)
			}
		})
	}
}

func c13Bytes(c *Ctx) {
	c.Case(0, func(k *K) {
		for b := 0; b < 256; b++ {
			if got, want := sequtil.Ntoi(byte(b)), refCode(byte(b)); got != want {
				k.Input("byte", b)
				k.Failf("ntoi", "Ntoi(%q) = %d, want %d", b, got, want)
				return
			}
			k.Count("ntoi_checked", 1)
			if c := refCode(byte(b)); c >= 0 {
				if got := sequtil.Iton(sequtil.Ntoi(byte(b))); got != bytes.ToUpper([]byte{byte(b)})[0] {
					k.Failf("iton-ntoi", "Iton(Ntoi(%q)) = %q", b, got)
				}
			}
		}
		for i := 0; i < 4; i++ {
			if sequtil.Iton(i) != "ACGT"[i] {
				k.Failf("iton", "Iton(%d) = %q, want %q", i, sequtil.Iton(i), "ACGT"[i])
			}
			if sequtil.Ntoi(sequtil.Iton(i)) != i {
				k.Failf("ntoi-iton", "Ntoi(Iton(%d)) = %d", i, sequtil.Ntoi(sequtil.Iton(i)))
			}
		}
		k.Evals(255)
		k.DistinctBC(256)
	})
	valid := []byte("ACgtacGT")
	for b := 0; b < 256; b++ {
		c.Case(int64(1+b), func(k *K) {
			ok := refCode(byte(b)) >= 0
			k.Input("byte", b)
			for pos := -4; pos <= len(valid); pos++ {
				var s []byte
				switch {
				case pos == -4: // a whole packed byte worth of the value, alone and around valid bases
					s = bytes.Repeat([]byte{byte(b)}, 4)
				case pos == -3:
					s = append(bytes.Repeat([]byte{byte(b)}, 4), valid...)
				case pos == -2:
					s = append(append([]byte{}, valid...), bytes.Repeat([]byte{byte(b)}, 5)...)
				case pos < 0:
					s = []byte{byte(b)}
				default:
					s = append(append(append([]byte{}, valid[:pos]...), byte(b)), valid[pos:]...)
				}
				p := expectPanic(func() { sequtil.DNATo2Bit(nil, s) })
				// ... and into a destination that has room for the result (a reused buffer)
				if p2 := expectPanic(func() { sequtil.DNATo2Bit(make([]byte, 2, 64), s) }); p2 != p {
					k.Failf(map[bool]string{true: "unexpected-panic", false: "missing-panic"}[p2], "DNATo2Bit(dst, %q) panics = %v when dst is nil but %v when dst has spare capacity", s, p, p2)
					return
				}
				if ok && p {
					k.Failf("unexpected-panic", "DNATo2Bit(%q) panicked", s)
					return
				}
				if !ok && !p {
					k.Failf("missing-panic", "byte %d (%q) is outside aAcCgGtT but DNATo2Bit(%q) did not panic", b, b, s)
					return
				}
				if !ok {
					k.Count("panics_observed", 1)
				}
				k.Evals(1)
			}
			k.DistinctBC(1)
		})
	}
	c.Exhaustive("bytes: all 256 byte values for Ntoi and for the DNATo2Bit accept/panic boundary (alone and embedded)")
	for hi := 0; hi < 256; hi++ {
		c.Case(int64(300+hi), func(k *K) {
			ok1 := refCode(byte(hi)) >= 0
			for lo := 0; lo < 256; lo++ {
				ok2 := refCode(byte(lo)) >= 0
				s := []byte{'A', byte(hi), byte(lo), 'c', 'G'}
				dst := []byte(nil)
				if lo%3 == 1 {
					dst = []byte("prefix")
				} else if lo%3 == 2 {
					dst = make([]byte, 1, 32)
				}
				p := expectPanic(func() { sequtil.DNATo2Bit(dst, s) })
				if ok1 && ok2 && p {
					k.Failf("unexpected-panic", "DNATo2Bit(%q) panicked", s)
					return
				}
				if !(ok1 && ok2) && !p {
					k.Input("bytes", fmt.Sprintf("%#x %#x", hi, lo))
					k.Failf("missing-panic", "DNATo2Bit(dst of %d bytes, %q) did not panic although it contains a byte outside aAcCgGtT", len(dst), s)
					return
				}
				if !(ok1 && ok2) {
					k.Count("panics_observed", 1)
				}
			}
			k.Evals(255)
			k.DistinctBC(256)
		})
	}
	c.Exhaustive("bytes: all 65536 adjacent byte pairs inside a valid string")
	c.Case(600, func(k *K) {
		r := k.Rand()
		for i := 0; i < 20000; i++ {
			cp := rune(0x80 + r.IntN(0x10FFFF-0x80))
			if r.IntN(2) == 0 {
				cp = rune(0x80 + r.IntN(0x800))
			}
			s := append(append([]byte("acGT"), []byte(string(cp))...), "TTg"...)
			if !expectPanic(func() { sequtil.DNATo2Bit(nil, s) }) {
				k.Input("code_point", fmt.Sprintf("U+%04X", cp))
				k.Failf("missing-panic", "DNATo2Bit(%q) did not panic although it contains the UTF-8 encoding of U+%04X", s, cp)
				return
			}
			k.Evals(1)
		}
		k.Count("utf8_sequences_rejected", 20000)
		k.Nontrivial([]byte("utf8"))
	})
}

// ---------------------------------------------------------------- C14

// NCBI translation table 1, codons in TCAG order.
const ncbiTable1 = "FFLLSSSSYY**CC*WLLLLPPPPHHQQRRRRIIIMTTTTNNKKSSRRVVVVAAAADDEEGGGG"

func refAmino(codon []byte) byte {
	idx := 0
	for _, b := range codon {
		var d int
		switch b {
		case 't', 'T':
			d = 0
		case 'c', 'C':
			d = 1
		case 'a', 'A':
			d = 2
		case 'g', 'G':
			d = 3
		default:
			panic("refAmino: bad base")
		}
		idx = idx*4 + d
	}
	return ncbiTable1[idx]
}

func refTranslate(s []byte) []byte {
	out := make([]byte, 0, len(s)/3)
	for i := 0; i+3 <= len(s); i += 3 {
		out = append(out, refAmino(s[i:i+3]))
	}
	return out
}

func c14Codons(c *Ctx) {
	c.Case(0, func(k *K) {
		const bases = "TCAG"
		for i := 0; i < 64; i++ {
			codon := []byte{bases[i/16], bases[(i/4)%4], bases[i%4]}
			for cs := 0; cs < 8; cs++ {
				sp := append([]byte{}, codon...)
				for p := 0; p < 3; p++ {
					if cs&(1<<p) != 0 {
						sp[p] += 'a' - 'A'
					}
				}
				got := sequtil.Translate(nil, sp)
				if len(got) != 1 || got[0] != ncbiTable1[i] {
					k.Input("codon", sp)
					k.Failf("codon", "Translate(%q) = %q, standard genetic code says %q", sp, got, ncbiTable1[i])
					return
				}
				k.Count("codon_spellings", 1)
			}
		}
		k.Evals(511)
		k.DistinctBC(512)
	})
	c.Exhaustive("codons: all 64 codons x 8 case patterns")
	n := c.N(2000, 200000)
	for i := 0; i < n; i++ {
		c.Case(int64(1+i), func(k *K) {
			r := k.Rand()
			x := seqOrRuns(r, []byte(dna8), 3*r.IntN(40))
			y := seqOrRuns(r, []byte(dna8), 3*pick(r, []int{r.IntN(40), r.IntN(40), 400, 1400}))
			k.Input("x", x)
			k.Input("y", y)
			for _, p := range dstPrefixes {
				dst := withCap(p, pick(r, []int{0, 50, 1, 2}))
				xy := append(append([]byte{}, x...), y...)
				x0, y0 := append([]byte{}, x...), append([]byte{}, y...)
				whole := sequtil.Translate(withCap(p, 0), xy)
				parts := sequtil.Translate(sequtil.Translate(dst, x), y)
				want := append(append([]byte{}, p...), refTranslate(xy)...)
				if !bytes.Equal(whole, want) {
					k.Failf("translate", "Translate(dst=%q, %q) = %q, want %q", p, xy, whole, want)
					return
				}
				if !bytes.Equal(parts, want) {
					k.Failf("translate-concat", "Translate(Translate(dst,x),y) = %q, Translate(dst,x++y) = %q", parts, whole)
					return
				}
				if !bytes.Equal(x, x0) || !bytes.Equal(y, y0) {
					k.Failf("translate-src-modified", "Translate modified its input")
					return
				}
			}
			{
				res := sequtil.Translate(nil, x)
				full := res[:cap(res)]
				for j := range full {
					full[j] = '#'
				}
				fr := sequtil.TranslateReadingFrames(x)
				for f := range fr {
					for j := range fr[f] {
						fr[f][j] = '#'
					}
				}
				if g, w := sequtil.Translate(nil, x), refTranslate(x); !bytes.Equal(g, w) {
					k.Failf("result-after-scribble", "after the caller overwrote earlier results, Translate(%q) = %q, want %q", x, g, w)
					return
				}
			}
			k.Count("concat_checked", 1)
			if len(x)+len(y) >= 3 {
				k.Nontrivial(x, y)
			}
		})
	}
}

func checkFrames(k *K, s []byte) {
	s0 := append([]byte{}, s...)
	var got [3][]byte
	if p := catch(func() { got = sequtil.TranslateReadingFrames(s) }); p != nil {
		k.Input("seq", s0)
		k.Failf("frames-panic", "TranslateReadingFrames panicked on a sequence of length %d: %v", len(s0), p)
		return
	}
	for i := 0; i < 3; i++ {
		sub := s0[min(i, len(s0)):]
		sub = sub[:len(sub)/3*3]
		if w := refTranslate(sub); !bytes.Equal(got[i], w) {
			k.Input("seq", s0)
			k.Failf("frames", "TranslateReadingFrames(%q)[%d] = %q, want %q", s0, i, got[i], w)
			return
		}
	}
	if !bytes.Equal(s, s0) {
		k.Failf("frames-src-modified", "TranslateReadingFrames modified its input")
	}
	k.Count("frames_checked", 1)
}

func c14Frames(c *Ctx) {
	idx := int64(0)
	// all contents for length <= 5
	for n := 0; n <= 5; n++ {
		c.Case(idx, func(k *K) {
			cnt := int64(0)
			if n == 0 {
				checkFrames(k, nil)
				checkFrames(k, []byte{})
				cnt = 1
			} else {
				for first := 0; first < len(dna8); first++ {
					enumSeqs(dna8, n, first, func(s []byte) {
						if !k.Failed() {
							checkFrames(k, s)
						}
						cnt++
					})
				}
			}
			k.Evals(cnt - 1)
			k.DistinctBC(cnt)
			k.Input("batch", fmt.Sprintf("all %d sequences of length %d", cnt, n))
		})
		idx++
	}
	c.Exhaustive("frames: all sequences over aAcCgGtT of length 0..5")
	// every length 0..64 with random contents
	reps := c.N(30, 3000)
	for n := 0; n <= 64; n++ {
		for j := 0; j < reps; j++ {
			c.Case(idx, func(k *K) {
				s := randSeq(k.Rand(), []byte(dna8), n)
				k.Input("seq", s)
				checkFrames(k, s)
				if n >= 3 {
					k.Nontrivial(s)
				}
			})
			idx++
		}
	}
	c.Exhaustive("frames: every length 0..64")
	m := c.N(600, 40000)
	for j := 0; j < m; j++ {
		c.Case(idx, func(k *K) {
			r := k.Rand()
			s := seqOrRuns(r, []byte(dna8), r.IntN(5001))
			k.Input("seq", s)
			{
				ar := newArena(r, s, randSeq(r, []byte(dna8), 6))
				fr := sequtil.TranslateReadingFrames(ar.parts[0])
				tr := sequtil.Translate(nil, ar.parts[0][:len(s)/3*3])
				if !bytes.Equal(fr[0], refTranslate(s[:len(s)/3*3])) || !bytes.Equal(tr, fr[0]) {
					k.Failf("translate", "Translate on a window of a larger buffer differs from the reference")
					return
				}
				if arenaFail(k, ar, "Translate/TranslateReadingFrames") {
					return
				}
				k.Count("arena_cases", 1)
			}
			heldFrames := sequtil.TranslateReadingFrames(s)
			heldTr := sequtil.Translate(nil, s[:len(s)/3*3])
			checkFrames(k, s)
			other := randSeq(r, []byte(dna8), len(s))
			fr2 := sequtil.TranslateReadingFrames(other)
			for f := range fr2 { // scribbling over one result must not reach another
				for j := range fr2[f] {
					fr2[f][j] = '#'
				}
			}
			sequtil.Translate(nil, other[:len(other)/3*3])
			for f := 0; f < 3; f++ {
				sub := s[min(f, len(s)):]
				if w := refTranslate(sub[:len(sub)/3*3]); !bytes.Equal(heldFrames[f], w) {
					k.Failf("result-not-stable", "frame %d of an earlier TranslateReadingFrames result changed after later calls", f)
				}
			}
			if w := refTranslate(s[:len(s)/3*3]); !bytes.Equal(heldTr, w) {
				k.Failf("result-not-stable", "an earlier Translate result changed after later calls")
			}
			k.Count("held_results_verified", 1)
			k.Nontrivial(s)
		})
		idx++
	}
}

func c14Panics(c *Ctx) {
	c.Case(0, func(k *K) {
		for n := 0; n <= 50; n++ {
			s := randSeq(k.Rand(), []byte(dna8), n)
			p := expectPanic(func() { sequtil.Translate(nil, s) })
			if n%3 != 0 && !p {
				k.Input("seq", s)
				k.Failf("missing-panic", "Translate accepted a sequence of length %d", n)
				return
			}
			if n%3 == 0 && p {
				k.Input("seq", s)
				k.Failf("unexpected-panic", "Translate panicked on a valid sequence of length %d", n)
				return
			}
			if n%3 != 0 {
				k.Count("bad_length_panics", 1)
			}
			k.Evals(1)
		}
		k.DistinctBC(51)
	})
	c.Exhaustive("panics: every length 0..50")
	for b := 0; b < 256; b++ {
		c.Case(int64(1+b), func(k *K) {
			ok := refCode(byte(b)) >= 0
			k.Input("byte", b)
			for pos := 0; pos < 3; pos++ {
				for _, ctx := range []string{"", "ATG"} {
					codon := []byte("acG")
					codon[pos] = byte(b)
					s := append([]byte(ctx), codon...)
					s = append(s, ctx...)
					p := expectPanic(func() { sequtil.Translate(nil, s) })
					pf := expectPanic(func() { sequtil.TranslateReadingFrames(s) })
					if ok && (p || pf) {
						k.Failf("unexpected-panic", "Translate(%q) panicked", s)
						return
					}
					if !ok && !p {
						k.Failf("missing-panic", "byte %d (%q) at codon position %d: Translate(%q) did not panic", b, b, pos, s)
						return
					}
					if !ok {
						k.Count("bad_base_panics", 1)
					}
					k.Evals(1)
				}
			}
			// the byte at two and at all three positions of a codon, as the first,
			// the middle and the last codon of a sequence
			for mask := 3; mask <= 7; mask++ {
				if mask == 4 {
					continue
				}
				codon := []byte("tCa")
				for p := 0; p < 3; p++ {
					if mask&(1<<p) != 0 {
						codon[p] = byte(b)
					}
				}
				for _, ctx := range [][2]string{{"", ""}, {"", "ATGGCC"}, {"ATG", ""}, {"GCA", "TTT"}} {
					s := append(append([]byte(ctx[0]), codon...), ctx[1]...)
					p := expectPanic(func() { sequtil.Translate(nil, s) })
					if ok && p {
						k.Failf("unexpected-panic", "Translate(%q) panicked", s)
						return
					}
					if !ok && !p {
						k.Failf("missing-panic", "byte %d (%q) at codon positions mask %03b: Translate(%q) did not panic", b, b, mask, s)
						return
					}
					if !ok {
						k.Count("bad_base_panics", 1)
					}
					k.Evals(1)
				}
			}
			k.DistinctBC(1)
		})
	}
	c.Exhaustive("panics: all 256 byte values at each non-empty subset of the 3 codon positions, in 4 contexts")
	// A bad base at every codon of sequences of several lengths, with dst
	// prefixes of several lengths (validation that depends on dst must not relax).
	c.Case(300, func(k *K) {
		r := k.Rand()
		for _, ncod := range []int{1, 2, 3, 8, 17, 40} {
			for _, pl := range []int{0, 1, 2, 7, 16, 50, 200} {
				for cod := 0; cod < ncod; cod++ {
					s := randSeq(r, []byte(dna8), 3*ncod)
					bad := pick(r, []byte("NnXx-*. \x00\xc5\xff"))
					s[3*cod+r.IntN(3)] = bad
					prefix := bytes.Repeat([]byte("M"), pl)
					p := expectPanic(func() { sequtil.Translate(withCap(prefix, pick(r, []int{0, 300, 1})), s) })
					if !p {
						k.Input("seq", s)
						k.Input("dst_prefix_len", pl)
						k.Failf("missing-panic", "Translate(dst of %d bytes, %q) did not panic although codon %d of %d contains %q", pl, s, cod, ncod, bad)
						return
					}
					k.Count("bad_base_panics", 1)
					k.Evals(1)
				}
			}
		}
		k.Nontrivial([]byte("dst-prefix-panics"))
	})
	// All 65536 adjacent byte pairs inside a codon (adjacent bytes may form one
	// multi-byte UTF-8 rune), at codon positions (0,1) and (1,2).
	for hi := 0; hi < 256; hi++ {
		c.Case(int64(301+hi), func(k *K) {
			ok1 := refCode(byte(hi)) >= 0
			for lo := 0; lo < 256; lo++ {
				ok2 := refCode(byte(lo)) >= 0
				for _, s := range [][]byte{{byte(hi), byte(lo), 'a', 'T', 'G', 'c'}, {'g', byte(hi), byte(lo)}} {
					p := expectPanic(func() { sequtil.Translate(nil, s) })
					if ok1 && ok2 && p {
						k.Failf("unexpected-panic", "Translate(%q) panicked", s)
						return
					}
					if !(ok1 && ok2) && !p {
						k.Input("bytes", fmt.Sprintf("%#x %#x", hi, lo))
						k.Failf("missing-panic", "Translate(%q) did not panic although it contains a non-ACGT byte", s)
						return
					}
				}
			}
			k.Evals(511)
			k.DistinctBC(256)
		})
	}
	c.Exhaustive("panics: all 65536 adjacent byte pairs inside a codon")
	c.Case(600, func(k *K) {
		r := k.Rand()
		for i := 0; i < 20000; i++ {
			cp := rune(0x80 + r.IntN(0x10FFFF-0x80))
			if r.IntN(2) == 0 {
				cp = rune(0x800 + r.IntN(0xF800)) // three-byte encodings: a whole codon
			}
			enc := []byte(string(cp))
			s := append(append([]byte("ATG"), enc...), "acgtac"...)
			s = s[:len(s)/3*3]
			if !expectPanic(func() { sequtil.Translate(nil, s) }) {
				k.Input("code_point", fmt.Sprintf("U+%04X", cp))
				k.Failf("missing-panic", "Translate(%q) did not panic although it contains the UTF-8 encoding of U+%04X", s, cp)
				return
			}
			k.Evals(1)
		}
		k.Count("utf8_sequences_rejected", 20000)
		k.Nontrivial([]byte("utf8"))
	})
}

// c14FramePanics: TranslateReadingFrames must panic exactly when some frame's
// translated region contains a non-ACGT byte (frame i covers indices
// i .. i+3*((len-i)/3)-1).
func c14FramePanics(c *Ctx) {
	idx := int64(0)
	for n := 0; n <= 24; n++ {
		c.Case(idx, func(k *K) {
			r := k.Rand()
			for pos := 0; pos < n; pos++ {
				for _, bad := range []byte{'N', 'n', 0, 0xff, 'u', ' ', 0xc5} {
					s := randSeq(r, []byte(dna8), n)
					s[pos] = bad
					covered := false
					for f := 0; f < 3 && f <= n; f++ {
						if pos >= f && pos < f+(n-f)/3*3 {
							covered = true
						}
					}
					p := expectPanic(func() { sequtil.TranslateReadingFrames(s) })
					if covered && !p {
						k.Input("seq", s)
						k.Failf("missing-panic", "TranslateReadingFrames(%q) did not panic although index %d (%q) lies inside a translated frame", s, pos, bad)
						return
					}
					if !covered && p {
						k.Input("seq", s)
						k.Failf("unexpected-panic", "TranslateReadingFrames(%q) panicked although index %d lies in no translated frame", s, pos)
						return
					}
					if covered {
						k.Count("frame_bad_base_panics", 1)
					}
					k.Evals(1)
				}
			}
			k.DistinctBC(1)
		})
		idx++
	}
	c.Exhaustive("framepanics: a non-ACGT byte at every index of sequences of every length 0..24")
	// the same at the ends and in the middle of very long sequences (frames handled in parallel, in blocks, …)
	long := []int{1<<16 + 1, 1 << 20, 1<<20 + 1, 1<<20 + 5}
	if c.Thorough {
		long = append(long, 1<<22+2, 3<<20)
	}
	for _, n := range long {
		c.Case(idx, func(k *K) {
			r := k.Rand()
			base := randSeq(r, []byte(dna8), n)
			for _, pos := range []int{0, 1, 2, 3, 4, n / 2, n/2 + 1, n - 5, n - 4, n - 3, n - 2, n - 1} {
				s := append([]byte{}, base...)
				s[pos] = pick(r, []byte{'N', 'n', 0, 0xff, 'u'})
				covered := false
				for f := 0; f < 3; f++ {
					if pos >= f && pos < f+(n-f)/3*3 {
						covered = true
					}
				}
				p := expectPanic(func() { sequtil.TranslateReadingFrames(s) })
				if covered != p {
					k.Input("length", n)
					k.Input("index", pos)
					k.Failf(map[bool]string{true: "missing-panic", false: "unexpected-panic"}[covered], "TranslateReadingFrames on %d bases with %q at index %d: panicked = %v, want %v", n, s[pos], pos, p, covered)
					return
				}
				k.Count("frame_bad_base_panics_long", 1)
				k.Evals(1)
			}
			k.Nontrivial([]byte(fmt.Sprint("framepanics-long", n)))
		})
		idx++
	}
}

func c14AminoName(c *Ctx) {
	c.Case(0, func(k *K) {
		for b := 0; b < 256; b++ {
			up := byte(b)
			if up >= 'a' && up <= 'z' {
				up -= 'a' - 'A'
			}
			valid := bytes.IndexByte([]byte(sequtil.AminoAcids), up) >= 0
			var code, name string
			p := catch(func() { code, name = sequtil.AminoName(byte(b)) })
			k.Input("byte", b)
			if valid {
				if p != nil {
					k.Failf("aminoname-panic", "AminoName(%q) panicked although %q is listed in AminoAcids", b, up)
					return
				}
				if code == "" || name == "" {
					k.Failf("aminoname-empty", "AminoName(%q) = (%q,%q)", b, code, name)
					return
				}
				c2, n2 := sequtil.AminoName(up)
				if c2 != code || n2 != name {
					k.Failf("aminoname-case", "AminoName(%q) and AminoName(%q) differ", b, up)
					return
				}
				k.Count("aminoname_accepted", 1)
			} else if p == nil {
				k.Failf("aminoname-accepts", "AminoName(%d %q) = (%q,%q), but the letter is not in AminoAcids", b, b, code, name)
				return
			}
			k.Count("aminoname_bytes", 1)
		}
		if len(sequtil.AminoAcids) != 24 {
			k.c.Info("aminoacids", sequtil.AminoAcids)
		}
		k.Evals(255)
		k.DistinctBC(256)
	})
	c.Exhaustive("aminoname: all 256 byte values")
}

// longContextPanics: one invalid byte at EVERY index of valid sequences of 33
// to 257 bases (all one base, or random) — validation that is batched, deferred
// to the end of the call, or carried in an accumulator loses a bad byte that
// is far enough from the end, or at a particular offset inside a word.
// calls lists the functions that must panic on such input.
func longContextPanics(c *Ctx, idx0 int64, valid string, invalid []byte, calls map[string]func(s []byte)) int64 {
	lengths := []int{33, 34, 40, 63, 64, 65, 66, 80, 129, 257}
	if c.Thorough {
		lengths = append(lengths, 35, 36, 37, 47, 48, 49, 96, 127, 128, 130, 255, 256, 258, 513, 1025)
	}
	idx := idx0
	for _, l := range lengths {
		c.Case(idx, func(k *K) {
			r := k.Rand()
			fills := [][]byte{bytes.Repeat([]byte{valid[0]}, l), bytes.Repeat([]byte{valid[len(valid)-1]}, l), randSeq(r, []byte(valid), l), bytes.Repeat([]byte{valid[1]}, l)}
			for fi, fill := range fills {
				for _, b := range invalid {
					for p := 0; p < l; p++ {
						s := append([]byte{}, fill...)
						s[p] = b
						for name, call := range calls {
							if !expectPanic(func() { call(s) }) {
								k.Input("length", l)
								k.Input("fill", fi)
								k.Input("byte", b)
								k.Input("index", p)
								k.Input("seq", s)
								k.Failf("missing-panic", "%s: byte %q at index %d of an otherwise valid sequence of %d bases (fill %d) did not cause a panic", name, b, p, l, fi)
								return
							}
						}
						k.Count("long_context_panics", int64(len(calls)))
					}
				}
			}
			k.Evals(int64(len(fills)*len(invalid)*l - 1))
			k.Nontrivial([]byte(fmt.Sprint("longctx", l, valid)))
		})
		idx++
	}
	// Inputs of 2^20 bases and more (where an implementation may split the work among goroutines or blocks): one
	// invalid byte at the very first and last positions, next to every eighth and sixteenth of the length, in the
	// middle — each must panic like anywhere else.
	for _, total := range []int{1 << 20, 1<<20 + 1, 3<<20 + 7} {
		c.Case(idx, func(k *K) {
			r := k.Rand()
			fill := randSeq(r, []byte(valid), total)
			s := make([]byte, total)
			pos := map[int]bool{0: true, 1: true, 2: true, 3: true, total - 1: true, total - 2: true, total - 3: true, total / 2: true, total/2 - 1: true, total / 3: true}
			for j := 1; j < 16; j++ {
				for d := -1; d <= 1; d++ {
					pos[j*total/16+d] = true
					pos[j*(total/16)+d] = true
				}
			}
			for p := range pos {
				if p < 0 || p >= total {
					continue
				}
				copy(s, fill)
				b := invalid[p%len(invalid)]
				s[p] = b
				for name, call := range calls {
					if !expectPanic(func() { call(s) }) {
						k.Input("byte", b)
						k.Input("index", p)
						k.Input("length", total)
						k.Failf("missing-panic", "%s: byte %q at index %d of an otherwise valid sequence of %d bases did not cause a panic", name, b, p, total)
						return
					}
				}
				k.Count("huge_input_panics", int64(len(calls)))
				k.Evals(1)
			}
			k.Nontrivial([]byte(fmt.Sprint("huge-invalid", total, valid)))
		})
		idx++
	}
	// EVERY byte value outside the alphabet (not just a handful) at the positions where a block-wise
	// implementation changes blocks: m*B + d for B = 3072, 4095, 4096, 8192, 12288, 65536, m = 1, 2, d = -2..2.
	// A byte that a case fold, a mask or a table maps onto a valid base when it is processed twice (carried
	// over a block boundary) or through another path is one particular value at one particular place.
	c.Case(idx, func(k *K) {
		r := k.Rand()
		isValid := [256]bool{}
		for i := 0; i < len(valid); i++ {
			isValid[valid[i]] = true
		}
		total := 2*65536 + 40
		fill := randSeq(r, []byte(valid), total)
		s := make([]byte, total)
		var positions []int
		blocks := []int{3072, 4095, 4096, 8192, 12288}
		if c.Thorough {
			blocks = append(blocks, 65536)
		}
		for _, b := range blocks {
			for m := 1; m <= 2; m++ {
				for d := -2; d <= 2; d++ {
					positions = append(positions, m*b+d)
				}
			}
		}
		for _, p := range positions {
			// the sequence ends a little after p, so that each call costs about p, not the full length
			end := min(total, p+7)
			for b := 0; b < 256; b++ {
				if isValid[b] {
					continue
				}
				copy(s[:end], fill[:end])
				s[p] = byte(b)
				for name, call := range calls {
					if !expectPanic(func() { call(s[:end]) }) {
						k.Input("byte", b)
						k.Input("index", p)
						k.Input("length", end)
						k.Failf("missing-panic", "%s: byte %#x at index %d of an otherwise valid sequence of %d bases did not cause a panic", name, b, p, end)
						return
					}
				}
				k.Count("boundary_byte_panics", int64(len(calls)))
			}
			k.Evals(1)
		}
		k.Nontrivial([]byte(fmt.Sprint("boundary-bytes", valid)))
	})
	idx++
	// The same over sequences far longer than any block a vectorised or chunked
	// implementation works in (4 KiB, 8 KiB, 3072 codons, 64 KiB …): one invalid
	// byte at EVERY index of a random valid sequence, the invalid bytes in rotation.
	long := []int{1000, 4100, 9216, 12301, 20000}
	if c.Thorough {
		long = append(long, 3000, 8193, 16390, 18432, 30000, 40000, 66000)
	}
	for _, l := range long {
		c.Case(idx, func(k *K) {
			r := k.Rand()
			fill := randSeq(r, []byte(valid), l)
			s := make([]byte, l)
			for p := 0; p < l; p++ {
				copy(s, fill)
				b := invalid[p%len(invalid)]
				s[p] = b
				for name, call := range calls {
					if !expectPanic(func() { call(s) }) {
						k.Input("length", l)
						k.Input("byte", b)
						k.Input("index", p)
						k.Input("seq", s)
						k.Failf("missing-panic", "%s: byte %q at index %d of an otherwise valid sequence of %d bases did not cause a panic", name, b, p, l)
						return
					}
				}
				k.Count("long_context_panics", int64(len(calls)))
			}
			k.Count("long_context_sequences_over_1000", 1)
			k.Evals(int64(l - 1))
			k.Nontrivial([]byte(fmt.Sprint("longctx-long", l, valid)))
		})
		idx++
	}
	return idx
}

// c13Gigantic: ONE call beyond 2^25 packed bytes (2^27 bases, a mid-sized
// chromosome): the result is larger than 128 MiB, past any cap an
// implementation may put on what it reserves at once. Checked group by group
// against the 2-bit definition, and packed back.
func c13Gigantic(c *Ctx) {
	sizes := []int{1<<25 + 1, 1<<25 + 5000} // (past 128 MiB of output by a few bytes, and by more than any allocator rounding)
	if c.Thorough {
		sizes = append(sizes, 1<<26+3)
	}
	for i, n := range sizes {
		c.Case(int64(i), func(k *K) {
			r := k.Rand()
			p := make([]byte, n)
			for j := 0; j < n; j += 8 {
				v := r.Uint64()
				for b := 0; b < 8 && j+b < n; b++ {
					p[j+b] = byte(v >> (8 * b))
				}
			}
			k.Input("packed_bytes", n)
			var dst []byte
			if i%2 == 1 {
				dst = []byte("pre")
			}
			un := sequtil.DNAFrom2Bit(dst, p)
			un = append([]byte("pre"), un[len(dst):]...)
			if len(un) != 3+4*n || string(un[:3]) != "pre" {
				k.Failf("unpack", "DNAFrom2Bit(\"pre\", %d packed bytes) returns %d bytes, want 3 + %d", n, len(un), 4*n)
				return
			}
			for j := 0; j < n; j++ {
				b := p[j]
				g := un[3+4*j : 3+4*j+4]
				if g[0] != "ACGT"[b>>6] || g[1] != "ACGT"[b>>4&3] || g[2] != "ACGT"[b>>2&3] || g[3] != "ACGT"[b&3] {
					k.Failf("unpack", "DNAFrom2Bit of %d packed bytes: byte %d = %#x unpacks to %q", n, j, b, g)
					return
				}
			}
			back := sequtil.DNATo2Bit(nil, un[3:])
			if !bytes.Equal(back, p) {
				k.Failf("unpack-pack", "DNATo2Bit(DNAFrom2Bit(p)) differs from p for %d packed bytes (first difference at byte %d)", n, firstDiff(back, p))
				return
			}
			k.Count("gigantic_roundtrips", 1)
			k.Count("unpack_pack_checked", 1)
			k.Nontrivial([]byte(fmt.Sprint("gigantic", n)))
		})
	}
}

// periodicPanics: invalid bytes placed PERIODICALLY — at every position that is
// o modulo p (p = 1 … 64, every offset for p <= 8) — over the whole sequence or
// over a block of 2040 … 4104 bytes at an aligned or unaligned start, in an
// otherwise valid sequence of a few thousand bases. A validity scan that works
// on machine words, lanes or packed counters adds such bytes up lane by lane,
// and a lane that overflows or cancels loses them; one bad byte is enough for a
// panic, thousands of them in step must be, too.
func periodicPanics(c *Ctx, valid string, invalid []byte, calls map[string]func(s []byte)) {
	idx := int64(1 << 20)
	for _, p := range []int{1, 2, 3, 4, 5, 6, 7, 8, 16, 24, 32, 64} {
		offs := []int{0, 1, p - 1, p / 2}
		if p <= 8 {
			offs = offs[:0]
			for o := 0; o < p; o++ {
				offs = append(offs, o)
			}
		}
		for _, o := range offs {
			if o < 0 || o >= p {
				continue
			}
			c.Case(idx, func(k *K) {
				r := k.Rand()
				for _, total := range []int{2049, 2052, 4098, 6150, 8193 + 3*r.IntN(50)} {
					for _, span := range [][2]int{{0, total}, {0, 2048}, {0, 2040}, {2048, 4096}, {8, 2056}, {3, 2051}, {total - 2048, total}} {
						if span[1] > total || span[0] < 0 {
							continue
						}
						s := randSeq(r, []byte(valid), total)
						b := invalid[(p+o)%len(invalid)]
						n := 0
						for q := span[0]; q < span[1]; q++ {
							if q%p == o {
								s[q] = b
								n++
							}
						}
						if n == 0 {
							continue
						}
						for name, call := range calls {
							if !expectPanic(func() { call(s) }) {
								k.Input("length", total)
								k.Input("period", p)
								k.Input("offset", o)
								k.Input("span", fmt.Sprint(span))
								k.Failf("missing-panic", "%s: %d copies of byte %q, at every position that is %d modulo %d within [%d, %d) of an otherwise valid sequence of %d bases, did not cause a panic", name, n, b, o, p, span[0], span[1], total)
								return
							}
						}
						k.Count("periodic_invalid_patterns", 1)
						k.Evals(1)
					}
				}
				k.Nontrivial([]byte(fmt.Sprint("periodic", p, o, valid)))
			})
			idx++
		}
	}
}

// c14Gigantic: Translate on 2^20 codons and more in ONE call, appended to
// destinations of every kind: nil, a short prefix, a prefix LONGER than what is
// appended, each with tight, scant and ample capacity. Above such sizes an
// implementation may grow dst by itself "exactly once".
func c14Gigantic(c *Ctx) {
	sizes := []int{1<<20 + 5}
	if c.Thorough {
		sizes = append(sizes, 1<<22+1)
	}
	for i, ncod := range sizes {
		c.Case(int64(i), func(k *K) {
			r := k.Rand()
			src := randSeq(r, []byte(dna8), 3*ncod)
			want := refTranslate(src)
			k.Input("codons", ncod)
			for _, plen := range []int{0, 5, ncod + 100, 2*ncod + 1} {
				prefix := refTranslate(randSeq(r, []byte(dna8), 3*plen))
				for _, spare := range []int{0, 1, ncod - 1, ncod, ncod + 50} {
					dst := withCap(prefix, spare)
					got := sequtil.Translate(dst, src)
					if len(got) != plen+ncod || !bytes.Equal(got[:plen], prefix) || !bytes.Equal(got[plen:], want) {
						d := firstDiff(got, append(append([]byte{}, prefix...), want...))
						k.Failf("translate-append", "Translate(dst of %d bytes with %d spare, %d codons): the result has %d bytes, want %d; it differs from dst + translation at byte %d", plen, spare, ncod, len(got), plen+ncod, d)
						return
					}
					k.Count("gigantic_translations", 1)
					k.Evals(1)
				}
			}
			k.Nontrivial([]byte(fmt.Sprint("gigantic", ncod)))
		})
	}
}
