package main

// C11 — parsers are total; accepted records are fixed points.

import (
	"bytes"
	"fmt"
	"io"
	"iter"
	"math/rand/v2"
	"strings"

	"github.com/fluhus/biostuff/formats/bed"
	"github.com/fluhus/biostuff/formats/fasta"
	"github.com/fluhus/biostuff/formats/fastq"
	"github.com/fluhus/biostuff/formats/newick"
	"github.com/fluhus/biostuff/formats/sam"
	"github.com/fluhus/biostuff/formats/smtext"
)

func hasDelim(s string) bool { return strings.ContainsAny(s, "\t\r\n") }

func fastaInDomain(f *fasta.Fasta) bool {
	return !hasDelim(string(f.Name)) && !hasDelim(string(f.Sequence)) && !bytes.ContainsRune(f.Sequence, '>')
}

func fastqInDomain(f *fastq.Fastq) bool {
	return !hasDelim(string(f.Name)) && !hasDelim(string(f.Sequence)) && !hasDelim(string(f.Quals))
}

func samInDomain(s *sam.SAM) bool {
	for _, f := range []string{s.Qname, s.Rname, s.Cigar, s.Rnext, s.Seq, s.Qual} {
		if hasDelim(f) {
			return false
		}
	}
	for n, v := range s.Tags {
		if hasDelim(n) {
			return false
		}
		switch x := v.(type) {
		case string:
			if hasDelim(x) {
				return false
			}
		case byte:
			if x == '\t' || x == '\r' || x == '\n' {
				return false
			}
		}
	}
	return true
}

func bedInDomain(b *bed.BED) bool {
	return !hasDelim(b.Chrom) && !hasDelim(b.Name) && !hasDelim(b.Strand)
}

func treeInDomain(n *newick.Node) bool {
	stack := []*newick.Node{n}
	for len(stack) > 0 {
		x := stack[len(stack)-1]
		stack = stack[:len(stack)-1]
		if hasDelim(x.Name) {
			return false
		}
		stack = append(stack, x.Children...)
	}
	return true
}

// fixedPoint writes an accepted record and reads the text back: exactly one
// record, equal, no error.
func fixedPoint[T any](k *K, format string, rec T, key func(T) string, write func(T, io.Writer) error, read func(io.Reader) iter.Seq2[T, error]) {
	want := key(rec)
	var buf bytes.Buffer
	if err := write(rec, &buf); err != nil {
		k.Failf("fixed-point", "%s: writing an accepted record failed: %v (record %.300s)", format, err, want)
		return
	}
	n := 0
	for got, err := range read(bytes.NewReader(buf.Bytes())) {
		if err != nil {
			k.Failf("fixed-point", "%s: accepted record %.400s is written as %.400q which does not read back: %v", format, want, buf.Bytes(), err)
			return
		}
		n++
		if n > 1 {
			k.Failf("fixed-point", "%s: accepted record %.400s is written as %.400q which reads back as more than one record", format, want, buf.Bytes())
			return
		}
		if g := key(got); g != want {
			k.Failf("fixed-point", "%s: accepted record %.400s is written as %.400q which reads back as %.400s", format, want, buf.Bytes(), g)
			return
		}
	}
	if n != 1 {
		k.Failf("fixed-point", "%s: accepted record %.400s is written as %.400q which reads back as %d records", format, want, buf.Bytes(), n)
	}
	k.Count("fixed_points_"+format, 1)
}

// decodeTotal runs one decoder over x applying the totality and fixed-point
// monitors. Panics are caught by the case wrapper.
func decodeTotal(k *K, format string, x []byte) {
	limit := len(x) + 2
	n := 0
	// accepted in-domain records: marshalled together at the end (results held), joined and read back as one stream
	var accKeys []string
	var accMarshal []func() ([]byte, error)
	defer func() {
		if len(accKeys) < 2 || k.Failed() {
			return
		}
		held := make([][]byte, len(accMarshal))
		for i, m := range accMarshal {
			held[i], _ = m()
		}
		joined := bytes.Join(held, nil)
		got, over := collect(codecByName(format).seq(bytes.NewReader(joined)), len(accKeys)+3)
		want := make([]item, len(accKeys))
		for i, key := range accKeys {
			want[i] = item{Key: key}
		}
		if over || !sameTrace(got, want) {
			k.Failf("fixed-point-stream", "%s: the %d accepted records, each marshalled with MarshalText (results held, then joined), read back as\n got  %s\n want %s", format, len(accKeys), traceString(got), traceString(want))
		}
		k.Count("fixed_point_streams", 1)
	}()
	tooMany := func() bool {
		n++
		if n > limit {
			k.Failf("unbounded-iteration", "%s: more than len(input)+2 = %d items", format, limit)
			return true
		}
		return false
	}
	switch format {
	case "fasta":
		for rec, err := range fasta.Reader(bytes.NewReader(x)) {
			if tooMany() {
				return
			}
			if err != nil {
				k.Count("error_items", 1)
				continue
			}
			if rec == nil {
				k.Failf("nil-record", "fasta: nil record without error")
				return
			}
			k.Count("accepted_fasta", 1)
			if fastaInDomain(rec) {
				fixedPoint(k, "fasta", rec, fastaKey, (*fasta.Fasta).Write, fasta.Reader)
				accKeys, accMarshal = append(accKeys, fastaKey(rec)), append(accMarshal, rec.MarshalText)
			}
		}
	case "fastq":
		for rec, err := range fastq.Reader(bytes.NewReader(x)) {
			if tooMany() {
				return
			}
			if err != nil {
				k.Count("error_items", 1)
				continue
			}
			if rec == nil {
				k.Failf("nil-record", "fastq: nil record without error")
				return
			}
			k.Count("accepted_fastq", 1)
			if fastqInDomain(rec) {
				fixedPoint(k, "fastq", rec, fastqKey, (*fastq.Fastq).Write, fastq.Reader)
				accKeys, accMarshal = append(accKeys, fastqKey(rec)), append(accMarshal, rec.MarshalText)
			}
		}
	case "sam":
		for sh, err := range sam.ReaderHeader(bytes.NewReader(x)) {
			if tooMany() {
				return
			}
			if err != nil {
				k.Count("error_items", 1)
				continue
			}
			if (sh.H == nil) == (sh.S == nil) {
				k.Failf("sam-item", "sam: an item without error must have exactly one of H and S set")
				return
			}
			if sh.S == nil {
				k.Count("accepted_sam_headers", 1)
				continue
			}
			k.Count("accepted_sam", 1)
			if samInDomain(sh.S) {
				fixedPoint(k, "sam", sh.S, samKey, (*sam.SAM).Write, sam.Reader)
				accKeys, accMarshal = append(accKeys, samKey(sh.S)), append(accMarshal, sh.S.MarshalText)
			}
		}
	case "bed":
		for rec, err := range bed.Reader(bytes.NewReader(x)) {
			if tooMany() {
				return
			}
			if err != nil {
				k.Count("error_items", 1)
				continue
			}
			if rec == nil {
				k.Failf("nil-record", "bed: nil record without error")
				return
			}
			k.Count("accepted_bed", 1)
			if bedInDomain(rec) {
				fixedPoint(k, "bed", rec, bedKey, (*bed.BED).Write, bed.Reader)
				accKeys, accMarshal = append(accKeys, bedKey(rec)), append(accMarshal, rec.MarshalText)
			}
		}
	case "newick":
		for rec, err := range newick.Reader(bytes.NewReader(x)) {
			if tooMany() {
				return
			}
			if err != nil {
				k.Count("error_items", 1)
				continue
			}
			if rec == nil {
				k.Failf("nil-record", "newick: nil tree without error")
				return
			}
			k.Count("accepted_newick", 1)
			if treeInDomain(rec) {
				fixedPoint(k, "newick", rec, treeKey, (*newick.Node).Write, newick.Reader)
				accKeys, accMarshal = append(accKeys, treeKey(rec)), append(accMarshal, rec.MarshalText)
			}
		}
	case "ncbi":
		if len(x)%7 == 3 {
			// the same bytes through a reader that fails half-way: still no panic, and an error or a matrix, never both
			fr := &faultReader{data: x, k: len(x) / 2, forever: len(x)%2 == 0, budget: len(x) + 10000, err: faultErrors[len(x)%len(faultErrors)]}
			if m, err := smtext.ReadNCBI(fr); err != nil && len(m) != 0 {
				k.Failf("ncbi-partial", "ReadNCBI on a failing reader returned an error together with %d entries", len(m))
			}
			k.Count("ncbi_failing_reader_runs", 1)
		}
		m, err := smtext.ReadNCBI(bytes.NewReader(x))
		if err != nil {
			k.Count("error_items", 1)
			if len(m) != 0 {
				k.Failf("ncbi-partial", "ReadNCBI returned an error together with %d entries", len(m))
			}
		} else {
			k.Count("accepted_ncbi", 1)
		}
	}
}

var c11Formats = []string{"fasta", "fastq", "sam", "bed", "newick", "ncbi"}

func init() {
	register(&Property{
		ID:    "C11",
		Level: "exploration",
		Rule: "for each decoder (fasta, fastq, sam.ReaderHeader, bed, newick readers; smtext.ReadNCBI): inputs from seeded grammar-aware mutation of well-formed files (byte flips/inserts/deletes, delimiters of any format, line duplication/swap/drop, truncation, number replacement, splicing), " +
			"well-formed files of the other formats and raw bytes; monitors: no panic, at most len(input)+2 items, every accepted in-domain record is written and read back to the same single record; " +
			"SAM: every (line, corruption kind) of valid files must give exactly one error at that line and leave the other lines intact; thorough tier adds Go's native coverage-guided fuzzer per decoder with the same oracle; " +
			"non-trivial = input that is not byte-identical to a well-formed file and on which the decoder produced at least one item; distinct by hash of (format, input)",
		Assumptions: []string{"fixed-point checks apply to accepted records whose text fields are free of TAB/CR/LF (and '>' in FASTA sequences)",
			"a 'too few fields' corruption keeps 1..10 fields of a line (a line emptied completely is a blank line, which SAM readers may skip)"},
		MinEvents: map[string]int64{"inputs_fasta": 1000, "inputs_fastq": 1000, "inputs_sam": 1000, "inputs_bed": 1000, "inputs_newick": 1000, "inputs_ncbi": 1000,
			"accepted_fasta": 500, "accepted_fastq": 200, "accepted_sam": 200, "accepted_bed": 200, "accepted_newick": 200, "accepted_ncbi": 50,
			"error_items": 2000, "sam_line_corruptions": 500},
		Units: []Unit{
			{Name: "mutation", QShards: 6, TShards: 12, Run: c11Mutation},
			{Name: "samlines", QShards: 2, TShards: 6, Run: c11SamLines},
			{Name: "fields", QShards: 2, TShards: 8, Run: c11Fields},
			{Name: "bytes", Run: c11Bytes},
			{Name: "prefixes", Run: c11Prefixes},
			{Name: "tokenlens", QShards: 2, TShards: 4, Run: c11TokenLens},
			{Name: "fieldcounts", QShards: 2, TShards: 4, Run: c11FieldCounts},
			{Name: "foreignbytes", QShards: 3, TShards: 6, Run: c11ForeignBytes},
			{Name: "namesbyseq", QShards: 2, TShards: 4, Run: c11NamesBySeq},
			{Name: "parallel", Race: true, QShards: 2, TShards: 6, Run: codecParallel("fasta", "fastq", "sam", "samh", "bed", "newick")},
			{Name: "histories", QShards: 2, TShards: 6, Run: codecHistories("fasta", "fastq", "sam", "samh", "bed", "newick")},
			{Name: "fuzz", Thorough: true, Run: c11Fuzz},
		},
	})
}

func c11Mutation(c *Ctx) {
	per := c.N(30000, 1000000)
	idx := int64(0)
	for _, f := range c11Formats {
		for i := 0; i < per; i++ {
			c.Case(idx, func(k *K) {
				r := k.Rand()
				x := nearValid(r, f)
				if f != "ncbi" && k.Idx%97 == 0 {
					x = wellFormedLong(r, f)
					if r.IntN(2) == 0 {
						x = mutate(r, x, nil)
					}
				}
				k.Input("format", f)
				k.Input("input", func() string { return describeText(x) })
				before := k.c.Rep.Counters["error_items"] + k.c.Rep.Counters["accepted_"+f]
				decodeTotal(k, f, x)
				k.Count("inputs_"+f, 1)
				if k.c.Rep.Counters["error_items"]+k.c.Rep.Counters["accepted_"+f] > before {
					k.Nontrivial([]byte(f), x)
				}
			})
			idx++
		}
	}
}

// samCorruptions returns single-line corruptions of a valid alignment line
// given as its fields.
func samCorruptions(r *rand.Rand, fields []string) (kinds []string, lines []string) {
	add := func(kind string, f []string) {
		kinds = append(kinds, kind)
		lines = append(lines, strings.Join(f, "\t"))
	}
	cp := func() []string { return append([]string{}, fields...) }
	// too few fields: keep 1..10 (the kept prefix must not be empty as a line)
	for _, n := range []int{1, 5, 10, 1 + r.IntN(10)} {
		f := cp()[:n]
		if strings.Join(f, "\t") == "" {
			f[0] = "q"
		}
		add(fmt.Sprintf("only %d fields", n), f)
	}
	for _, col := range []int{1, 3, 4, 7, 8} {
		for _, bad := range []string{"x", "", "1.5", "9999999999999999999999999", "1e3", "0x1f", " 1", "--2"} {
			if r.IntN(3) != 0 {
				continue
			}
			f := cp()
			f[col] = bad
			add(fmt.Sprintf("integer field %d = %q", col+1, bad), f)
		}
	}
	// malformed neighbours of a well-formed tag: a colon replaced, or the name
	// shortened and the type lengthened
	for _, good := range []string{"NM:i:2", "XZ:Z:abc", "XA:A:q", "XF:f:1.5", "XH:H:0aff"} {
		for _, bad := range []string{good[:2] + "_" + good[3:], good[:2] + good[1:2] + good[3:], good[:4] + "_" + good[5:], good[:1] + ":" + good[3:4] + good[3:], good[:4] + good[5:]} {
			if strings.Count(bad, ":") >= 2 && len(bad) > 4 && strings.ContainsAny(bad[strings.Index(bad, ":")+1:strings.Index(bad, ":")+2], "AifZHB") && bad[strings.Index(bad, ":")+2] == ':' {
				continue // still well-formed
			}
			f := cp()
			pos := 11 + r.IntN(len(f)-11+1)
			f = append(f[:pos:pos], append([]string{bad}, fields[pos:]...)...)
			add(fmt.Sprintf("tag %q (a damaged %q) inserted at field %d", bad, good, pos+1), f)
		}
	}
	// an ill-typed tag that REPEATS the name of a tag the line already has (placed before or after it): a line holds
	// a tag once, so a writer never produces this; a parser that meets it must still look at it
	if len(fields) > 11 {
		for _, bad := range []string{"i:abc", "i:", "i:1.5", "f:x", "f:1e", "A:ab", "A:", "H:zz", "H:abc", "Q:1", "ii:1"} {
			if r.IntN(2) != 0 {
				continue
			}
			at := 11 + r.IntN(len(fields)-11)
			if len(fields[at]) < 2 {
				continue
			}
			f := cp()
			pos := at + r.IntN(2)
			dupTag := fields[at][:2] + ":" + bad
			f = append(f[:pos:pos], append([]string{dupTag}, fields[pos:]...)...)
			add(fmt.Sprintf("ill-typed tag %q repeating the name of field %d, inserted at field %d", dupTag, at+1, pos+1), f)
		}
	}
	for _, bad := range []string{"XXi5", "XX:i5", "XX", ":", "", "XX:i:abc", "XX:i:", "XX:i:1.5", "XX:f:x", "XX:f:", "XX:f:1e", "XX:A:ab", "XX:A:", "XX:H:abc", "XX:H:zz", "XX:H:0", "XX:Q:1", "XX::1", "XX:ii:1"} {
		f := cp()
		pos := 11 + r.IntN(len(f)-11+1)
		f = append(f[:pos:pos], append([]string{bad}, fields[pos:]...)...)
		add(fmt.Sprintf("tag %q inserted at field %d", bad, pos+1), f)
	}
	return
}

func c11SamLines(c *Ctx) {
	n := c.N(150, 5000)
	for i := 0; i < n; i++ {
		c.Case(int64(i), func(k *K) {
			r := k.Rand()
			nh, nr := r.IntN(3), 1+r.IntN(5)
			var lines []string
			var want []item
			for j := 0; j < nh; j++ {
				h := genSamHeader(r)
				lines = append(lines, h)
				want = append(want, item{Key: fmt.Sprintf("HDR{%q}", h)})
			}
			var recFields [][]string
			for j := 0; j < nr; j++ {
				s := genSAM(r)
				if k.Idx%5 == 0 && r.IntN(2) == 0 { // a line longer than the I/O buffers
					l := longSize(r)
					if l > 20000 {
						l = 4000 + r.IntN(9000)
					}
					s.Seq, s.Qual = string(longText(r, l, nil)), string(longText(r, l, nil))
					k.Count("sam_long_lines", 1)
				}
				var b bytes.Buffer
				s.Write(&b)
				line := strings.TrimSuffix(b.String(), "\n")
				lines = append(lines, line)
				recFields = append(recFields, strings.Split(line, "\t"))
				want = append(want, item{Key: samKey(s)})
			}
			// valid file first
			text := strings.Join(lines, "\n") + "\n"
			got, _ := collect(codecByName("samh").seq(strings.NewReader(text)), len(lines)+3)
			if !sameTrace(got, want) {
				k.Input("text", describeText([]byte(text)))
				k.Failf("sam-valid-file", "valid file decoded differently:\n got  %s\n want %s", traceString(got), traceString(want))
				return
			}
			for j := 0; j < nr; j++ {
				li := nh + j
				kinds, bad := samCorruptions(r, recFields[j])
				for ci := range bad {
					mod := append([]string{}, lines...)
					mod[li] = bad[ci]
					text := strings.Join(mod, "\n") + "\n"
					got, over := collect(codecByName("samh").seq(strings.NewReader(text)), len(lines)+3)
					k.Count("sam_line_corruptions", 1)
					k.Evals(1)
					ok := !over && len(got) == len(want)
					if ok {
						for q := range got {
							if q == li {
								ok = ok && got[q].Err
							} else {
								ok = ok && got[q] == want[q]
							}
						}
					}
					if !ok {
						k.Input("corruption", fmt.Sprintf("line %d: %s", li, kinds[ci]))
						k.Input("text", describeText([]byte(text)))
						k.Failf("sam-line-isolation", "corrupting line %d (%s) must give exactly one error at item %d and leave the others intact:\n got  %s\n want %s (with ERR at %d)",
							li, kinds[ci], li, traceString(got), traceString(want), li)
						return
					}
					// a consumer that stops at the error item (the usual `return err`)
					if pv := catch(func() {
						for _, err := range sam.ReaderHeader(strings.NewReader(text)) {
							if err != nil {
								break
							}
						}
						for _, err := range sam.Reader(strings.NewReader(text)) {
							if err != nil {
								break
							}
						}
					}); pv != nil {
						k.Input("corruption", fmt.Sprintf("line %d: %s", li, kinds[ci]))
						k.Input("text", describeText([]byte(text)))
						k.Failf("panic-on-stop-at-error", "stopping the iteration at the error item of a malformed line panics: %v", pv)
						return
					}
					k.Nontrivial([]byte(text))
				}
			}
		})
	}
}

var _ *rand.Rand

// fieldSoup: replacement values for one field of a tab-separated line.
var fieldSoup = []string{"", "0", "-0", "+0", "-1", "1", "+7", "00", "-2", "255", "256", "-128", "65536", "2147483648", "-2147483649",
	"9223372036854775807", "-9223372036854775808", "9223372036854775808", "99999999999999999999999999", "1e3", "1.5", "0x10", "0b1", "1_0", " 1", "1 ", "x",
	",", ",,", "1,", ",1", "1,2", "1,,2", "1,2,3", "1,2,3,4", "-1,-1", "0,0,0", "256,0,0", "-1,0,0", "0x1,2,3", "+", "-", ".", "++", "*", "@", "#", "\"", ":", "::", "a:b", "XX:i:", "XX:i:-", "XX:A:", "XX:H:0", "XX:f:nan", "XX:f:+inf", "XX:f:1e999", "XX:Z:", "XX:B:c,1"}

// c11Fields replaces each field of valid BED and SAM lines, one at a time, by
// every value of fieldSoup: no panic, bounded items, accepted records are
// fixed points (cross-field interactions such as count vs list are hit because
// the other fields stay valid).
func c11Fields(c *Ctx) {
	n := c.N(40, 1500)
	for i := 0; i < n; i++ {
		c.Case(int64(i), func(k *K) {
			r := k.Rand()
			format := "bed"
			var line string
			if i%2 == 0 {
				b := genBED(r, 3+r.IntN(10))
				if b.N == 12 && r.IntN(2) == 0 {
					b.BlockCount, b.BlockSizes, b.BlockStarts = 2, []int{1, 2}, []int{3, 4}
				}
				var buf bytes.Buffer
				b.Write(&buf)
				line = strings.TrimSuffix(buf.String(), "\n")
			} else {
				format = "sam"
				var buf bytes.Buffer
				genSAM(r).Write(&buf)
				line = strings.TrimSuffix(buf.String(), "\n")
			}
			fields := strings.Split(line, "\t")
			k.Input("format", format)
			k.Input("line", line)
			for fi := 0; fi <= len(fields); fi++ {
				for _, v := range fieldSoup {
					var mod []string
					if fi == len(fields) {
						mod = append(append([]string{}, fields...), v) // one more field
					} else {
						mod = append([]string{}, fields...)
						mod[fi] = v
					}
					x := []byte(strings.Join(mod, "\t") + "\n")
					k.Input("field", fi)
					k.Input("value", v)
					k.Input("input", x)
					decodeTotal(k, format, x)
					k.Evals(1)
					k.Count("field_replacements", 1)
					if k.Failed() {
						return
					}
				}
			}
			if format == "sam" {
				// Two more tags appended in an order the writer will reverse (tags are
				// written sorted): what was in the middle of the accepted line ends
				// the written one, and the other way round.
				for _, v := range tagSoup {
					for _, first := range []bool{true, false} {
						mod := append([]string{}, fields[:11]...)
						if first {
							mod = append(mod, "zz:"+v, "AA:i:1")
						} else {
							mod = append(mod, "AA:i:1", "zz:"+v, "Ab:Z:x")
						}
						x := []byte(strings.Join(mod, "\t") + "\n")
						k.Input("field", "appended tags")
						k.Input("value", v)
						k.Input("input", x)
						decodeTotal(k, format, x)
						k.Evals(1)
						k.Count("tag_reorderings", 1)
						if k.Failed() {
							return
						}
					}
				}
			}
			k.Nontrivial([]byte(format), []byte(line))
		})
	}
}

// tagSoup: "T:value" parts of optional SAM fields, well-formed and not.
var tagSoup = []string{"Z:x", "Z:", "Z: ", "Z:x ", "Z: x", "Z:  ", "Z:x\v", "Z:\f", "Z:x\xa0", "Z:x\xc2\xa0", "Z:x\xc2\x85", "Z:\x00", "Z:\"", "Z:a:b", "Z::", "A:x", "A: ", "A:", "A:xy", "A:\xff", "A:\x7f",
	"i:0", "i:-0", "i:+1", "i: 1", "i:1 ", "i:1e3", "i:1.0", "i:0x1f", "i:1_0", "i:9223372036854775807", "i:-9223372036854775808", "i:9223372036854775808", "i:", "i:-",
	"f:1", "f:1.5 ", "f: 1", "f:nan", "f:-inf", "f:1e999", "f:0x1p-2", "f:1_0", "f:", "f:.", "f:1e", "H:", "H:0", "H:0g", "H:00ff", "H:00FF", "H:00 ", "H: 00", "B:c,1", "X:1", ":", "", "Z"}

// c11Bytes: every byte value (and every pair with a second copy of itself) at
// each place of small valid texts — inside names, sequences, quoted and
// unquoted Newick labels, tag values, table labels. Deterministic: which byte
// values a tokenizer treats as blanks, quotes or separators must not be left
// to the seed. Monitors as everywhere in C11: no panic, bounded items, what is
// accepted is a fixed point of its codec.
var byteTemplates = map[string][]string{
	"fasta": {">nXm\nACGT\n", ">n\nACXGT\n>m\nA\n", ">X\nX\n", "X>n\nAC\n"},
	"fastq": {"@nXm\nACGT\n+\n!!!!\n", "@n\nAXGT\n+\n!!!!\n", "@n\nACGT\n+\n!X!!\n", "@n\nACGT\n+X\n!!!!\n", "X@n\nA\n+\n!\n"},
	"sam": {"qXr\t0\tref\t1\t2\t3M\t=\t3\t4\tACG\t!!!\n", "q\t0\trXf\t1\t2\tcXg\tnXt\t3\t4\tSXQ\tQXL\n", "q\t0\tr\t1\t2\tc\t=\t3\t4\tS\tQ\tzz:Z:aXb\tAA:i:1\n",
		"q\t0\tr\t1\t2\tc\t=\t3\t4\tS\tQ\tzz:A:X\n", "q\t0\tr\t1\t2\tc\t=\t3\t4\tS\tQ\tzX:Z:v\tXz:i:1\n", "q\t0\tr\t1\t2\tc\t=\t3\t4\tS\tQ\tzz:Z:X\n", "@HD\tVN:X\nq\t0\tr\t1X\t2\tc\t=\t3\t4\tS\tQ\n"},
	"bed":    {"cXr\t1\t2\n", "c\t1\t2\tnXm\n", "c\t1\t2\tn\t5\tX\n", "c\t1X\t2\n", "X\t1\t2\n", "c\t1\t2\tX\n"},
	"newick": {"(aXb,c);", "('aXb',c);", "'X';", "X;", "(a:1X,b);", "(a,b)X;", "(a,b);X(c);", "('X''X',X)X;", "(a X b);", "('a'Xb);"},
	"ncbi":   {"  A X\nA 1 2\nX 3 4\n", "  A B\nA 1X 2\nB 3 4\n", "  A B\nAX 1 2\nB 3 4\n", "#X\n  A B\nA 1 2\nB 3 4\n", "  A B\nA 1 2X\nB 3 4\n", " AXB C\nA 1 2\nC 3 4\n"},
}

func c11Bytes(c *Ctx) {
	idx := int64(0)
	for _, f := range c11Formats {
		for b := 0; b < 256; b++ {
			c.Case(idx, func(k *K) {
				for ti, tpl := range byteTemplates[f] {
					for _, rep := range []string{string([]byte{byte(b)}), string([]byte{byte(b), byte(b)})} {
						x := []byte(strings.ReplaceAll(tpl, "X", rep))
						k.Input("format", f)
						k.Input("byte", b)
						k.Input("template", ti)
						k.Input("input", x)
						decodeTotal(k, f, x)
						k.Count("inputs_"+f, 1)
						k.Count("byte_template_inputs", 1)
						k.Evals(1)
						if k.Failed() {
							return
						}
					}
				}
				k.Nontrivial([]byte(f), []byte{byte(b)})
			})
			idx++
		}
	}
	c.Exhaustive("bytes: every byte value at each marked place of the byte templates of every format")
}

// c11Prefixes: every magic prefix (byte order marks, compression magics,
// comment / header / annotation markers of this and neighbouring formats) at
// the start of the first text field of small valid texts — bare, and for Newick
// also quoted (a reader that gives such bytes a meaning at the start of a
// record accepts the quoted form, and the writer must then quote it too).
func c11Prefixes(c *Ctx) {
	tpls := map[string][]string{
		"fasta":  {">P\nACGT\n", ">Pname\nAC\n>b\nG\n", ">a\nACGT\n>P\nAC\n"},
		"fastq":  {"@P\nACGT\n+\n!!!!\n", "@Pname\nA\n+\n!\n@b\nC\n+\n#\n"},
		"sam":    {"P\t0\tr\t1\t2\t3M\t=\t4\t5\tACG\t!!!\n", "Pq\t0\tr\t1\t2\t3M\t=\t4\t5\tACG\t!!!\tNM:i:1\n", "@HD\tVN:1\nPq\t0\tr\t1\t2\t3M\t=\t4\t5\tACG\t!!!\n"},
		"bed":    {"P\t1\t2\n", "Pchr\t1\t2\tname\t5\t+\n", "c\t1\t2\nP\t3\t4\n"},
		"newick": {"P;", "Px;", "'P';", "'Px';", "'P x':2.5;", "(a,b)c;'Px';", "('Px',b);", "(a,b)'P';", " 'P';", "\n'Px';"},
		"ncbi":   {"P\n  A B\nA 1 2\nB 3 4\n", "#P\n  A B\nA 1 2\nB 3 4\n"},
	}
	idx := int64(0)
	for _, f := range c11Formats {
		for _, p := range magicPrefixes {
			c.Case(idx, func(k *K) {
				for ti, tpl := range tpls[f] {
					pp := p
					if f == "newick" && strings.Contains(tpl, "'P") {
						pp = strings.ReplaceAll(p, "'", "''")
					}
					x := []byte(strings.ReplaceAll(tpl, "P", pp))
					k.Input("format", f)
					k.Input("prefix", p)
					k.Input("template", ti)
					k.Input("input", x)
					decodeTotal(k, f, x)
					k.Count("inputs_"+f, 1)
					k.Count("prefix_template_inputs", 1)
					k.Evals(1)
					if k.Failed() {
						return
					}
				}
				k.Nontrivial([]byte(f), []byte(p))
			})
			idx++
		}
	}
}

// c11FieldCounts: lines with EVERY number of fields / tags / values / children
// from 0 to 300 (and 1000, 3000): SAM lines with k tags, BED lines with k
// fields and k blocks, NCBI tables with k columns, Newick nodes with k children,
// FASTA / FASTQ files of k records. A fixed-size field buffer, a small-array
// fast path or a counter kept in a byte is right up to its size and wrong
// beyond it; accepted lines must be fixed points, the others errors.
func c11FieldCounts(c *Ctx) {
	counts := []int{}
	for kcnt := 0; kcnt <= 300; kcnt++ {
		counts = append(counts, kcnt)
	}
	counts = append(counts, 1000, 3000)
	var names []string
	for _, a := range tagFirst {
		for _, b := range tagSecond {
			names = append(names, string([]rune{a, b}))
		}
	}
	for i, kcnt := range counts {
		c.Case(int64(i), func(k *K) {
			r := k.Rand()
			k.Input("count", kcnt)
			var sam, bedBlocks, ncbi, nwk, fa, fq strings.Builder
			sam.WriteString("q\t0\tr\t1\t2\t3M\t=\t4\t5\tACG\t!!!")
			perm := r.Perm(len(names))
			for j := 0; j < kcnt; j++ {
				fmt.Fprintf(&sam, "\t%s:%s", names[perm[j%len(perm)]], pick(r, []string{"i:7", "Z:x", "f:0.5", "A:c", "H:1AE3"}))
			}
			sam.WriteString("\n")
			sizes, starts := make([]string, kcnt), make([]string, kcnt)
			for j := range sizes {
				sizes[j], starts[j] = fmt.Sprint(1+j%9), fmt.Sprint(10*j)
			}
			fmt.Fprintf(&bedBlocks, "c\t1\t%d\tn\t5\t+\t1\t9\t1,2,3\t%d\t%s\t%s\n", 10*kcnt+20, kcnt, strings.Join(sizes, ","), strings.Join(starts, ","))
			bedFields := "c" + strings.Repeat("\t1", kcnt) + "\n"
			labels := make([]string, 0, kcnt)
			for j := 0; j < kcnt && j < 200; j++ {
				labels = append(labels, string([]byte{byte(33 + j)}))
			}
			ncbi.WriteString("  " + strings.Join(labels, " ") + "\n")
			if len(labels) > 0 {
				ncbi.WriteString(labels[0] + strings.Repeat(" 1", len(labels)) + "\n")
			}
			nwk.WriteString("(")
			for j := 0; j < kcnt; j++ {
				if j > 0 {
					nwk.WriteString(",")
				}
				fmt.Fprintf(&nwk, "n%d:%d", j, j)
			}
			nwk.WriteString(")r;")
			for j := 0; j < kcnt; j++ {
				fmt.Fprintf(&fa, ">s%d\nACGT\n", j)
				fmt.Fprintf(&fq, "@r%d\nAC\n+\n!!\n", j)
			}
			for _, in := range []struct{ f, x string }{{"sam", sam.String()}, {"bed", bedBlocks.String()}, {"bed", bedFields}, {"ncbi", ncbi.String()}, {"newick", nwk.String()}, {"fasta", fa.String()}, {"fastq", fq.String()}} {
				k.Input("format", in.f)
				k.Input("input", func() string { return describeText([]byte(in.x)) })
				decodeTotal(k, in.f, []byte(in.x))
				k.Count("inputs_"+in.f, 1)
				k.Count("field_count_inputs", 1)
				k.Evals(1)
				if k.Failed() {
					return
				}
			}
			k.Nontrivial([]byte(fmt.Sprint("fieldcounts", kcnt)))
		})
	}
}

// c11TokenLens: every place where a decoder parses a TOKEN (a number, a typed
// tag value, a strand, a colour, a label, a branch length, a line that should
// start with a marker) filled with tokens of EVERY length 0 … 300 from several
// classes: digits (a number that overflows), letters, hex digits (odd and even
// counts), UTF-8 continuation bytes, blanks, signs. Most of them are errors —
// and the code that builds the error message (quoting, truncating, walking back
// to a rune start) runs only then, with the offending token as its input; some
// are accepted, and must then be fixed points.
func c11TokenLens(c *Ctx) {
	tpls := map[string][]string{
		"fastq": {"T\nACGT\n+\n!!!!\n", "@r\nACGT\nT\n!!!!\n", "@r\nACGT\n+\nT\n", "@r\nT\n+\n!!!!\n@s\nA\n+\n!\n"},
		"sam": {"q\tT\tr\t1\t2\t3M\t=\t4\t5\tACG\t!!!\n", "q\t0\tr\tT\t2\t3M\t=\t4\t5\tACG\t!!!\n", "q\t0\tr\t1\tT\t3M\t=\t4\t5\tACG\t!!!\n", "q\t0\tr\t1\t2\t3M\t=\tT\t5\tACG\t!!!\n", "q\t0\tr\t1\t2\t3M\t=\t4\tT\tACG\t!!!\n",
			"q\t0\tr\t1\t2\t3M\t=\t4\t5\tACG\t!!!\tXX:i:T\n", "q\t0\tr\t1\t2\t3M\t=\t4\t5\tACG\t!!!\tXX:f:T\n", "q\t0\tr\t1\t2\t3M\t=\t4\t5\tACG\t!!!\tXX:H:T\n", "q\t0\tr\t1\t2\t3M\t=\t4\t5\tACG\t!!!\tXX:A:T\n",
			"q\t0\tr\t1\t2\t3M\t=\t4\t5\tACG\t!!!\tXX:Z:T\n", "q\t0\tr\t1\t2\t3M\t=\t4\t5\tACG\t!!!\tXX:T:1\n", "q\t0\tr\t1\t2\t3M\t=\t4\t5\tACG\t!!!\tT\n", "q\t0\tr\t1\t2\t3M\t=\t4\t5\tACG\t!!!\tT:i:1\n", "q\t0\tT\n", "T\tT\tT\n"},
		"bed":    {"c\tT\t2\n", "c\t1\tT\n", "c\t1\t2\tn\tT\n", "c\t1\t2\tn\t5\tT\n", "c\t1\t2\tn\t5\t+\tT\t9\n", "c\t1\t2\tn\t5\t+\t3\t9\tT\n", "c\t1\t2\tn\t5\t+\t3\t9\t1,2,3\tT\n", "c\t1\t2\tn\t5\t+\t3\t9\t1,2,3\t2\tT\t1,2\n", "c\t1\t2\tn\t5\t+\t3\t9\tT,2,3\n", "c\t1\t2\nc\t1\t2\tT\n"},
		"newick": {"a:T;", "(a:T,b)c;", "(a,b)c:T;", "(a,b)T", "(a,b))T;", "(a,'T);", "(a:1:T);", "T(a);"},
		"ncbi":   {"  A B\nA T 2\nB 3 4\n", "  A B\nA 1 2\nT 3 4\n", "  A T\nA 1 2\nB 3 4\n", "  A B\nA 1 2 T\nB 3 4\n", "#T\n  A B\nA 1 2\nB 3 4\n"},
		"fasta":  {">a\nT\n>b\nAC\n", ">T\nAC\n"},
	}
	classes := []struct {
		name  string
		alpha string
	}{{"digits", "0123456789"}, {"nines", "9"}, {"letters", "abcXYZ"}, {"hex digits", "0123456789abcdefABCDEF"}, {"continuation bytes", "\x80\x8f\xbf\xa9"}, {"lead bytes", "\xc3\xe2\xf0\xff"},
		{"blanks", " "}, {"signs and points", "+-.eE"}, {"commas and digits", "1,"}, {"colons", ":"}, {"quotes", "'\""}}
	idx := int64(0)
	maxLen := c.N(300, 1200)
	for _, f := range c11Formats {
		for _, cl := range classes {
			c.Case(idx, func(k *K) {
				r := k.Rand()
				for ti, tpl := range tpls[f] {
					for l := 0; l <= maxLen; l++ {
						if l > 130 && l%7 != int(k.Idx)%7 {
							continue
						}
						tok := string(randSeq(r, []byte(cl.alpha), l))
						x := []byte(strings.ReplaceAll(tpl, "T", tok))
						k.Input("format", f)
						k.Input("template", ti)
						k.Input("token_class", cl.name)
						k.Input("token_length", l)
						k.Input("input", x)
						decodeTotal(k, f, x)
						k.Count("inputs_"+f, 1)
						k.Count("token_length_inputs", 1)
						k.Evals(1)
						if k.Failed() {
							return
						}
					}
				}
				k.Nontrivial([]byte(f), []byte(cl.name))
			})
			idx++
		}
	}
}

// c11ForeignBytes: "a non-numeric integer field yields exactly one error". An
// integer token of EVERY length 1..19 with ONE byte that is not a digit, at
// EVERY position, for EVERY byte value (the neighbours of '0'..'9' in ASCII —
// '/' and ':' ';' '<' '=' '>' '?' — among them), in each integer field of a SAM
// line and in an integer tag, between two good lines. Number parsers that work
// on several bytes at once have their blind spots at particular (length,
// position, byte) combinations.
func c11ForeignBytes(c *Ctx) {
	good := "q\t0\tr\t1\t2\t3M\t=\t4\t5\tACG\t!!!\tXX:i:7"
	before, after := "p\t16\tr\t10\t20\t3M\t=\t40\t50\tTTT\t###", "s\t4\t*\t0\t0\t*\t*\t0\t0\tA\t!\tNM:i:1"
	want, _ := collect(codecByName("sam").seq(strings.NewReader(before+"\n"+good+"\n"+after+"\n")), 9)
	cols := []int{1, 3, 4, 7, 8, 11}
	idx := int64(0)
	for _, col := range cols {
		for l := 1; l <= 19; l++ {
			c.Case(idx, func(k *K) {
				if len(want) != 3 || want[0].Err || want[1].Err || want[2].Err {
					k.Failf("sam-valid-file", "the three well-formed lines do not decode to three records: %s", traceString(want))
					return
				}
				r := k.Rand()
				digits := randSeq(r, []byte("123456789"), l)
				for pos := 0; pos < l; pos++ {
					for b := 0; b < 256; b++ {
						if b >= '0' && b <= '9' || b == '\t' || b == '\n' || b == '\r' || pos == 0 && l > 1 && (b == '+' || b == '-') {
							continue
						}
						tok := append([]byte{}, digits...)
						tok[pos] = byte(b)
						f := strings.Split(good, "\t")
						if col == 11 {
							f[col] = "XX:i:" + string(tok)
						} else {
							f[col] = string(tok)
						}
						text := before + "\n" + strings.Join(f, "\t") + "\n" + after + "\n"
						got, over := collect(codecByName("sam").seq(strings.NewReader(text)), 9)
						k.Count("sam_line_corruptions", 1)
						k.Count("inputs_sam", 1)
						k.Count("error_items", 1)
						k.Evals(1)
						if over || len(got) != 3 || got[0] != want[0] || !got[1].Err || got[2] != want[2] {
							k.Input("text", describeText([]byte(text)))
							k.Input("token", tok)
							k.Failf("sam-line-isolation", "field %d = %q (%d digits with the byte %q at position %d) is not an integer: the line must give exactly one error and leave its neighbours intact:\n got  %s", col+1, tok, l, byte(b), pos, traceString(got))
							return
						}
					}
				}
				k.Nontrivial([]byte(fmt.Sprint("foreign", col, l)))
			})
			idx++
		}
	}
}

// c11NamesBySeq: accepted records are fixed points — also the LONG ones, for
// every name length. FASTA and FASTQ records with a sequence longer than the
// writers' and readers' buffers (33 000, 40 000, 70 001 bases; thorough also
// 140 000) under a name of EVERY length 0..200 (thorough 0..600): a writer that
// assembles lines in a fixed scratch buffer tiles it exactly for one residue
// class of name lengths only when the record is long enough to fill it.
func c11NamesBySeq(c *Ctx) {
	seqLens := []int{33000, 40000, 70001}
	maxName := 200
	if c.Thorough {
		seqLens = append(seqLens, 140000)
		maxName = 600
	}
	idx := int64(0)
	for _, f := range []string{"fasta", "fastq"} {
		for _, sl := range seqLens {
			for nl := 0; nl <= maxName; nl++ {
				c.Case(idx, func(k *K) {
					r := k.Rand()
					name := randSeq(r, []byte("abcXYZ019 |._"), nl)
					seq := randSeq(r, []byte("ACGTN"), sl)
					var x []byte
					if f == "fasta" {
						x = append(append(append(append([]byte(">"), name...), '\n'), seq...), '\n')
					} else {
						x = append(append(append(append([]byte("@"), name...), '\n'), seq...), "\n+\n"...)
						x = append(append(x, bytes.Repeat([]byte("I"), sl)...), '\n')
					}
					k.Input("format", f)
					k.Input("name_length", nl)
					k.Input("sequence_length", sl)
					decodeTotal(k, f, x)
					k.Count("inputs_"+f, 1)
					k.Count("long_records_by_name_length", 1)
					k.Evals(1)
					k.Nontrivial([]byte(f), []byte(fmt.Sprint(nl, sl)))
				})
				idx++
			}
		}
	}
}
