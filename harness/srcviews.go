package main

// "srcviews" units: the SOURCE argument is a window into a larger buffer —
// len(src) bytes of sequence, then (still within cap(src)) whatever the caller
// had there before: the rest of a longer record, UTF-8 text, line ends, binary
// data. Sequences are cut out of read buffers this way all the time. A function
// may read src[:len(src)] only: what lies beyond must neither influence the
// result (no panic on valid input, no missing panic) nor be written. The dst
// sweeps elsewhere give DESTINATIONS dirty spare capacity; these give it to the
// sources.

import (
	"bytes"
	"fmt"
	"math/rand/v2"

	"github.com/fluhus/biostuff/align"
	"github.com/fluhus/biostuff/mash"
	"github.com/fluhus/biostuff/sequtil"
)

var viewTails = [][]byte{
	[]byte("\xe2\x80\xa6 leftover"), []byte("\xff\xff\xff\xff\xff\xff\xff\xff\xff"), []byte("\x80"), []byte("\x00\x00\x00\x00\x00\x00\x00\x00"),
	[]byte("\n>next record\nACGT\n"), []byte("XXXXXXXXXXXXXXXX"), []byte("uUuUuUuU"), []byte("acgtnACGTN-*acgtnACGTN"), []byte("\r\n+\r\nIIII"),
}

// dirtyView returns a copy of s that is a window into a larger buffer: garbage
// before it, garbage (tail number ti) after it within its capacity; intact
// reports whether the garbage is still what it was.
func dirtyView(s []byte, ti int) (view []byte, intact func() bool) {
	pre := []byte("\xc3\xa9\x00>@")
	tail := viewTails[ti%len(viewTails)]
	for len(tail) < 40 {
		tail = append(append([]byte{}, tail...), tail...)
	}
	buf := append(append(append([]byte{}, pre...), s...), tail...)
	snap := append([]byte{}, buf...)
	view = buf[len(pre) : len(pre)+len(s)]
	return view, func() bool {
		return bytes.Equal(buf[:len(pre)], snap[:len(pre)]) && bytes.Equal(buf[len(pre)+len(s):], snap[len(pre)+len(s):]) && bytes.Equal(view, snap[len(pre):len(pre)+len(s)])
	}
}

type viewCall struct {
	name  string
	alpha string
	unit  int // lengths are multiples of this (3 for Translate)
	run   func(s []byte) string
}

func srcViewLens(c *Ctx) []int {
	var lens []int
	for l := 0; l <= 70; l++ {
		lens = append(lens, l)
	}
	lens = append(lens, 127, 128, 129, 255, 256, 257, 511, 512, 513, 1000, 1001, 1002, 1003, 4095, 4096, 4097, 4098, 70001)
	if c.Thorough {
		for l := 71; l <= 600; l++ {
			lens = append(lens, l)
		}
		lens = append(lens, 1<<20+1, 1<<20+2, 1<<20+3)
	}
	return lens
}

func srcViewUnit(calls []viewCall) func(c *Ctx) {
	return func(c *Ctx) {
		idx := int64(0)
		for ci, call := range calls {
			for _, l := range srcViewLens(c) {
				c.Case(idx, func(k *K) {
					r := k.Rand()
					n := l / call.unit * call.unit
					s := randSeq(r, []byte(call.alpha), n)
					var want string
					if pv := catch(func() { want = call.run(append(make([]byte, 0, n), s...)[:n:n]) }); pv != nil {
						k.Input("seq", s)
						k.Failf("panic", "%s panicked on a valid input of %d bytes: %v", call.name, n, pv)
						return
					}
					k.Input("call", call.name)
					k.Input("length", n)
					for ti := range viewTails {
						view, intact := dirtyView(s, ti)
						var got string
						if pv := catch(func() { got = call.run(view) }); pv != nil {
							k.Input("seq", s)
							k.Input("beyond_len", viewTails[ti])
							k.Failf("source-spare-capacity", "%s panics on a valid input of %d bytes when the source slice is a window into a larger buffer (bytes beyond len(src), within its capacity: %.24q): %v", call.name, n, viewTails[ti], pv)
							return
						}
						if got != want {
							k.Input("seq", s)
							k.Input("beyond_len", viewTails[ti])
							k.Failf("source-spare-capacity", "%s gives another result when the source slice is a window into a larger buffer (bytes beyond len(src): %.24q): first difference at byte %d", call.name, viewTails[ti], firstDiff([]byte(got), []byte(want)))
							return
						}
						if !intact() {
							k.Input("seq", s)
							k.Failf("source-modified", "%s wrote to its source or to the caller's bytes around it (source of %d bytes inside a larger buffer)", call.name, n)
							return
						}
						k.Count("source_views", 1)
						k.Evals(1)
					}
					k.Nontrivial([]byte(fmt.Sprint("srcview", ci, n)), s[:min(len(s), 40)])
				})
				idx++
			}
		}
	}
}

var viewCallsC12 = []viewCall{
	{"ReverseComplement", dna10, 1, func(s []byte) string { return string(sequtil.ReverseComplement(nil, s)) }},
	{"ReverseComplement (dst with room)", dna10, 1, func(s []byte) string { return string(sequtil.ReverseComplement(make([]byte, 0, len(s)+8), s)) }},
	{"CanonicalSubsequences (k=5)", dna10, 1, func(s []byte) string {
		var b bytes.Buffer
		for kmer := range sequtil.CanonicalSubsequences(s, 5) {
			b.Write(kmer)
			b.WriteByte('|')
		}
		return b.String()
	}},
}

var viewCallsC13 = []viewCall{
	{"DNATo2Bit", dna8, 1, func(s []byte) string { return string(sequtil.DNATo2Bit(nil, s)) }},
	{"DNATo2Bit (dst with room)", dna8, 1, func(s []byte) string { return string(sequtil.DNATo2Bit(make([]byte, 0, len(s)/4+8), s)) }},
	{"DNAFrom2Bit", "\x00\x1b\xe4\xff\x5a\xa5\x80\x7f", 1, func(s []byte) string { return string(sequtil.DNAFrom2Bit(nil, s)) }},
}

var viewCallsC14 = []viewCall{
	{"Translate", dna8, 3, func(s []byte) string { return string(sequtil.Translate(nil, s)) }},
	{"Translate (dst with a prefix and room)", dna8, 3, func(s []byte) string { return string(sequtil.Translate(append(make([]byte, 0, len(s)/3+8), 'x'), s)) }},
	{"TranslateReadingFrames", dna8, 1, func(s []byte) string {
		f := sequtil.TranslateReadingFrames(s)
		return string(f[0]) + "|" + string(f[1]) + "|" + string(f[2])
	}},
}

var viewCallsC17 = []viewCall{
	{"mash.Sequences (n=50, k=4)", "ACGTacgtN", 1, func(s []byte) string { return fmt.Sprint(mash.Sequences(50, 4, s, s[:len(s)/2]).View()) }},
}

// alignViewCalls: a and b are the two halves of ONE window (b lies in a's
// spare capacity region? no — they are separate windows; see run).
func alignViewCalls(open float64) []viewCall {
	m := dnaMatrix([]byte("ACGT"), 5, -4, -3, open)
	run := func(local bool) func(s []byte) string {
		return func(s []byte) string {
			if len(s) > 260 {
				s = s[:260]
			}
			// b: a shuffled window of its own, cut from s (a second dirty view so that both arguments have tails)
			b, _ := dirtyView(append(append([]byte{}, s[len(s)/3:]...), s[:len(s)/5]...), len(s))
			if local {
				steps, ai, bi, score := align.Local(s, b, m)
				return fmt.Sprint(steps, ai, bi, score)
			}
			steps, score := align.Global(s, b, m)
			return fmt.Sprint(steps, score)
		}
	}
	return []viewCall{{"align.Global", "ACGT", 1, run(false)}, {"align.Local", "ACGT", 1, run(true)}}
}

var _ *rand.Rand

// "casemasks" units: soft-masked sequences — upper case with ONE lower-case base
// at every position in turn, with a lower-case head or tail of 1..4 bases, a
// lower-case run in the middle, and the mirror images (lower case with upper
// case islands). Repeat maskers write exactly this; uniformly random case never
// produces "all upper but the last two". A routine that looks at the case of a
// block, or of a part of the input, to choose a path decides for the rest too.
func caseMasks(s []byte, fn func(v []byte, what string)) {
	up, lo := bytes.ToUpper(s), bytes.ToLower(s)
	mk := func(base, other []byte, from, to int) []byte {
		v := append([]byte{}, base...)
		copy(v[from:to], other[from:to])
		return v
	}
	n := len(s)
	for _, pair := range [][2][]byte{{up, lo}, {lo, up}} {
		fn(append([]byte{}, pair[0]...), "one case throughout")
		for p := 0; p < n; p++ {
			fn(mk(pair[0], pair[1], p, p+1), fmt.Sprintf("the other case at position %d only", p))
		}
		for w := 1; w <= 4 && w <= n; w++ {
			fn(mk(pair[0], pair[1], n-w, n), fmt.Sprintf("the other case in the last %d", w))
			fn(mk(pair[0], pair[1], 0, w), fmt.Sprintf("the other case in the first %d", w))
		}
		if n >= 6 {
			fn(mk(pair[0], pair[1], n/3, 2*n/3), "the other case in the middle third")
		}
	}
}

func caseMaskUnit(alpha string, maxLenQ, maxLenT int, check func(k *K, v []byte)) func(c *Ctx) {
	return func(c *Ctx) {
		for l := 1; l <= c.N(maxLenQ, maxLenT); l++ {
			c.Case(int64(l), func(k *K) {
				r := k.Rand()
				s := randSeq(r, []byte(alpha), l)
				caseMasks(s, func(v []byte, what string) {
					if k.Failed() {
						return
					}
					k.Input("seq", v)
					k.Input("case_pattern", what)
					check(k, v)
					k.Count("case_masked_sequences", 1)
					k.Evals(1)
				})
				k.Nontrivial([]byte(fmt.Sprint("casemask", l)), s)
			})
		}
	}
}

// "bigdst" units (C12–C14): the destination is a LARGE buffer that is reused —
// capacity 2^18, 2^18+1, 300 000, 2^20 bytes — and the next result needs a
// little or a lot more than it has (1.05x, 1.26x, 1.5x, 2.1x, 4x), or just
// fits, with and without a prefix to keep. Growth policies change with size
// ("large buffers grow by a quarter"); the spare-capacity sweeps elsewhere
// stay with small buffers.
type bigDstCall struct {
	name  string
	alpha string
	per   func(outLen int) int // input length that yields outLen output bytes
	run   func(dst, src []byte) []byte
	ref   func(src []byte) []byte
}

func bigDstUnit(calls []bigDstCall) func(c *Ctx) {
	return func(c *Ctx) {
		caps := []int{1 << 18, 1<<18 + 1, 300000}
		if c.Thorough {
			caps = append(caps, 1<<20, 1<<22+3)
		}
		idx := int64(0)
		for _, call := range calls {
			for _, cp := range caps {
				c.Case(idx, func(k *K) {
					r := k.Rand()
					k.Input("call", call.name)
					k.Input("dst_capacity", cp)
					for _, factor := range []float64{0.5, 1, 1.05, 1.26, 1.5, 2.1, 4} {
						for _, plen := range []int{0, 5} {
							out := int(float64(cp)*factor) - plen
							src := randSeq(r, []byte(call.alpha), call.per(out))
							want := call.ref(src)
							dst := make([]byte, plen, cp)
							copy(dst, "keep!")
							if plen == 0 && r.IntN(2) == 0 { // a buffer that a previous call filled, cut back to length 0
								dst = call.run(make([]byte, 0, cp), randSeq(r, []byte(call.alpha), call.per(cp)))[:0]
							}
							var got []byte
							if pv := catch(func() { got = call.run(dst, src) }); pv != nil {
								k.Failf("panic", "%s into a destination of capacity %d (length %d) for a result of %d bytes panicked: %v", call.name, cap(dst), plen, len(want), pv)
								return
							}
							if len(got) != plen+len(want) || string(got[:plen]) != "keep!"[:plen] || !bytes.Equal(got[plen:], want) {
								k.Failf("big-destination", "%s into a destination of capacity %d (length %d): the result has %d bytes, want %d + %d; first difference at %d", call.name, cp, plen, len(got), plen, len(want), firstDiff(got[min(plen, len(got)):], want))
								return
							}
							k.Count("big_destination_calls", 1)
							k.Evals(1)
						}
					}
					k.Nontrivial([]byte(fmt.Sprint("bigdst", call.name, cp)))
				})
				idx++
			}
		}
	}
}

var bigDstC12 = []bigDstCall{{"ReverseComplement", dna10, func(o int) int { return o }, func(d, s []byte) []byte { return sequtil.ReverseComplement(d, s) }, refRevComp}}
var bigDstC13 = []bigDstCall{
	{"DNATo2Bit", dna8, func(o int) int { return 4 * o }, func(d, s []byte) []byte { return sequtil.DNATo2Bit(d, s) }, refPack},
	{"DNAFrom2Bit", "\x00\x1b\xe4\xff\x5a\xa5\x80\x7f", func(o int) int { return o / 4 }, func(d, s []byte) []byte { return sequtil.DNAFrom2Bit(d, s) }, refUnpack},
}
var bigDstC14 = []bigDstCall{{"Translate", dna8, func(o int) int { return 3 * o }, func(d, s []byte) []byte { return sequtil.Translate(d, s) }, refTranslate}}
