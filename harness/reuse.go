package main

// "bufreuse" units: the caller keeps ONE buffer and refills it in place between
// calls — the usual way to read a file chunk by chunk, a contig after a
// substitution, the next read into the same slice. The second and later calls
// see the same pointer and the same length with different content: anything the
// library remembers about an argument by its identity (a cached reverse
// complement, a memoised alphabet pass, "same input as last time") is stale
// then. Lengths from a few bytes to 2^17, so that caches reserved for large
// inputs are reached too; every call is compared with its oracle.

import (
	"bytes"
	"fmt"
	"hash/fnv"
	"math/rand/v2"

	"github.com/fluhus/biostuff/align"
	"github.com/fluhus/biostuff/mash"
	"github.com/fluhus/biostuff/regions"
	"github.com/fluhus/biostuff/sequtil"
)

var reuseLengths = []int{7, 300, 5000, 65536, 70001, 1<<17 + 3}

type reuseCall struct {
	name  string
	alpha string
	call  func(buf []byte) string // digest of what the library returns
	want  func(buf []byte) string // digest of what the oracle says
}

func digestItems(items func(yield func([]byte) bool)) string {
	h := fnv.New64a()
	n := 0
	items(func(b []byte) bool {
		h.Write(b)
		h.Write([]byte{0})
		n++
		return true
	})
	return fmt.Sprintf("%d items, fnv %x", n, h.Sum64())
}

func reuseUnit(calls []reuseCall) Unit {
	return Unit{Name: "bufreuse", QShards: 2, TShards: 4, Run: func(c *Ctx) {
		idx := int64(0)
		for _, rc := range calls {
			for _, n := range reuseLengths {
				c.Case(idx, func(k *K) {
					r := k.Rand()
					buf := make([]byte, n)
					k.Input("call", rc.name)
					k.Input("buffer_bytes", n)
					for round := 0; round < 4; round++ {
						// refill in place: fresh content, or the old content with a few substitutions
						if round == 0 || round == 2 {
							copy(buf, seqOrRuns(r, []byte(rc.alpha), n))
						} else {
							for j := 0; j < 1+n/5000; j++ {
								buf[r.IntN(n)] = rc.alpha[r.IntN(len(rc.alpha))]
							}
						}
						if got, want := rc.call(buf), rc.want(buf); got != want {
							k.Input("round", round)
							k.Failf("buffer-reuse", "%s on a buffer of %d bytes that the caller refilled in place (call %d on the same memory): result %.200s, the reference says %.200s", rc.name, n, round+1, got, want)
							return
						}
						k.Count("reused_buffer_calls", 1)
						k.Evals(1)
					}
					k.Nontrivial([]byte(rc.name), []byte(fmt.Sprint(n)))
				})
				idx++
			}
		}
	}}
}

var reuseRC = []reuseCall{
	{"sequtil.ReverseComplement", dna10,
		func(b []byte) string { return string(sequtil.ReverseComplement(nil, b)) },
		func(b []byte) string { return string(refRevComp(b)) }},
	{"sequtil.CanonicalSubsequences (k = 21)", dna10,
		func(b []byte) string { return digestItems(sequtil.CanonicalSubsequences(b, 21)) },
		func(b []byte) string {
			return digestItems(func(yield func([]byte) bool) {
				for i := 0; i+21 <= len(b); i++ {
					yield(refCanonical(b[i : i+21]))
				}
			})
		}},
	{"sequtil.CanonicalSubsequences (k = 4)", "ACGT",
		func(b []byte) string { return digestItems(sequtil.CanonicalSubsequences(b, 4)) },
		func(b []byte) string {
			return digestItems(func(yield func([]byte) bool) {
				for i := 0; i+4 <= len(b); i++ {
					yield(refCanonical(b[i : i+4]))
				}
			})
		}},
}

var reusePack = []reuseCall{
	{"sequtil.DNATo2Bit", dna8,
		func(b []byte) string { return string(sequtil.DNATo2Bit(nil, b)) },
		func(b []byte) string { return string(refPack(b)) }},
	{"sequtil.DNAFrom2Bit", "\x00\x1b\xff\xe4\x5a",
		func(b []byte) string { return string(sequtil.DNAFrom2Bit(nil, b)) },
		func(b []byte) string { return string(refUnpack(b)) }},
}

var reuseAmino = []reuseCall{
	{"sequtil.Translate", dna8,
		func(b []byte) string { return string(sequtil.Translate(nil, b[:len(b)/3*3])) },
		func(b []byte) string { return string(refTranslate(b[:len(b)/3*3])) }},
	{"sequtil.TranslateReadingFrames", dna8,
		func(b []byte) string {
			fr := sequtil.TranslateReadingFrames(b)
			return string(bytes.Join(fr[:], []byte("|")))
		},
		func(b []byte) string {
			var fr [3][]byte
			for f := 0; f < 3 && f <= len(b); f++ {
				sub := b[f:]
				fr[f] = refTranslate(sub[:len(sub)/3*3])
			}
			return string(bytes.Join(fr[:], []byte("|")))
		}},
}

var reuseMash = []reuseCall{
	{"mash.Sequences (compared with the sketch of a fresh copy of the buffer)", "ACGTacgtN",
		func(b []byte) string { return fmt.Sprint(mash.Sequences(200, 15, b).View()) },
		func(b []byte) string { return fmt.Sprint(mash.Sequences(200, 15, append([]byte{}, b...)).View()) }},
}

var reuseAlignMatrix = align.SubstitutionMatrix{}

func init() {
	for _, x := range []byte("acgt") {
		for _, y := range []byte("acgt") {
			v := -3.0
			if x == y {
				v = 4
			}
			reuseAlignMatrix[[2]byte{x, y}] = v
		}
		reuseAlignMatrix[[2]byte{x, align.Gap}] = -2
		reuseAlignMatrix[[2]byte{align.Gap, x}] = -2
	}
	reuseAlignMatrix[[2]byte{align.Gap, align.Gap}] = 0
}

// For the aligners the buffer holds a (first 2/3) and b (last third, at most 400 symbols).
func reuseSplit(buf []byte) (a, b []byte) {
	nb := min(len(buf)/3, 400)
	return buf[:len(buf)-nb], buf[len(buf)-nb:]
}

var reuseAlign = []reuseCall{
	{"align.Global / align.Local (a and b live in one reused buffer)", "acgt",
		func(buf []byte) string {
			a, b := reuseSplit(buf)
			if len(a) > 3000 {
				a = a[:3000]
			}
			steps, score := align.Global(a, b, reuseAlignMatrix)
			rs, ca, cb, prob := rescore(a, b, reuseAlignMatrix, steps, 0, 0)
			ls, ai, bi, lscore := align.Local(a, b, reuseAlignMatrix)
			lrs, lprob := lscore, ""
			if len(ls) > 0 { // (an empty local alignment has no start offsets)
				lrs, _, _, lprob = rescore(a, b, reuseAlignMatrix, ls, ai, bi)
			}
			return fmt.Sprintf("Global %v (steps re-score to %v, consume %d,%d of %d,%d %s); Local's steps re-score to its score: %v %s", score, rs, ca, cb, len(a), len(b), prob, lrs == lscore, lprob)
		},
		func(buf []byte) string {
			a, b := reuseSplit(buf)
			if len(a) > 3000 {
				a = a[:3000]
			}
			g := gotohGlobal(a, b, reuseAlignMatrix)
			return fmt.Sprintf("Global %v (steps re-score to %v, consume %d,%d of %d,%d ); Local's steps re-score to its score: true ", g, g, len(a), len(b), len(a), len(b))
		}},
}

// regionsReuse: starts and ends live in two int slices that are refilled in place.
func regionsReuse(c *Ctx) {
	for i, n := range []int{5, 200, 3000, 70000} {
		c.Case(int64(i), func(k *K) {
			r := k.Rand()
			starts, ends := make([]int, n, 2*n+5), make([]int, n, 2*n+5)
			k.Input("intervals", n)
			for round := 0; round < 4; round++ {
				for j := range starts {
					if round%2 == 0 || r.IntN(50) == 0 {
						starts[j] = r.IntN(4 * n)
						ends[j] = starts[j] + r.IntN(12) - 2
					}
				}
				snapS, snapE := append([]int{}, starts...), append([]int{}, ends...)
				ix := regions.NewIndex(starts, ends)
				if !sameInts(starts, snapS) || !sameInts(ends, snapE) {
					k.Failf("input-memory-modified", "NewIndex modified its arguments (slices with spare capacity, refilled in place by the caller; call %d)", round+1)
					return
				}
				for q := 0; q < 300; q++ {
					p := r.IntN(4*n+20) - 10
					if !checkAt(k, ix, snapS, snapE, p) {
						return
					}
				}
				k.Count("reused_buffer_calls", 1)
			}
			k.Nontrivial([]byte(fmt.Sprint("regions-reuse", n)))
		})
	}
}

var _ = rand.Int

// roundLensUnit: every call of the list on inputs of every round length (see
// roundLengths) up to 2^17 (thorough 2^21), compared with its oracle.
func roundLensUnit(calls []reuseCall) Unit {
	return Unit{Name: "roundlens", QShards: 4, TShards: 8, Run: func(c *Ctx) {
		lens := roundLengths(c.N(1<<17, 1<<21))
		idx := int64(0)
		for _, rc := range calls {
			for _, n := range lens {
				c.Case(idx, func(k *K) {
					r := k.Rand()
					buf := seqOrRuns(r, []byte(rc.alpha), n)
					k.Input("call", rc.name)
					k.Input("input_bytes", n)
					if got, want := rc.call(buf), rc.want(buf); got != want {
						d := firstDiff([]byte(got), []byte(want))
						k.Failf("round-length", "%s on an input of %d bytes: the result (%d bytes) differs from the reference (%d bytes) at byte %d: %.60q vs %.60q", rc.name, n, len(got), len(want), d, got[min(d, len(got)):], want[min(d, len(want)):])
						return
					}
					k.Count("round_length_calls", 1)
					k.Nontrivial([]byte(rc.name), []byte(fmt.Sprint(n)))
				})
				idx++
			}
		}
	}}
}
