package main

// readerZoo: the same bytes offered through io.Readers of many dynamic types
// and in many states — fresh, partly consumed, seeked, a section of something
// larger, limited, buffered, a file. A decoder may look at what else its source
// can do (Size, Len, Seek, WriteTo, ReadByte, a concrete *bufio.Reader or
// *os.File) and take another path; Size() of a strings.Reader is its TOTAL
// length, not what is left to read. Whatever the source is, what is decoded is
// what is left to read from it.

import (
	"bufio"
	"bytes"
	"fmt"
	"io"
	"math/rand/v2"
	"os"
	"path/filepath"
	"strings"
	"testing/iotest"

	"github.com/fluhus/biostuff/formats/smtext"
)

type zooReader struct {
	name string
	mk   func() io.Reader
}

// readerZoo returns constructors of readers whose REMAINING content is x.
// dir may be "" (no file-backed readers).
func readerZoo(r *rand.Rand, x []byte, dir string) []zooReader {
	pre := []byte("# a title line the caller has already read\n>>>\x00")
	suf := []byte("\ntrailing bytes beyond the section\n")
	px := append(append([]byte{}, pre...), x...)
	pxs := append(append([]byte{}, px...), suf...)
	zoo := []zooReader{
		{"strings.Reader", func() io.Reader { return strings.NewReader(string(x)) }},
		{"bytes.Buffer", func() io.Reader { return bytes.NewBuffer(append([]byte{}, x...)) }},
		{"bytes.Reader, partly consumed", func() io.Reader {
			br := bytes.NewReader(px)
			io.CopyN(io.Discard, br, int64(len(pre)))
			return br
		}},
		{"strings.Reader, seeked forward", func() io.Reader {
			sr := strings.NewReader(string(px))
			sr.Seek(int64(len(pre)), io.SeekStart)
			return sr
		}},
		{"bytes.Buffer, partly consumed", func() io.Reader {
			b := bytes.NewBuffer(append([]byte{}, px...))
			b.Next(len(pre))
			return b
		}},
		{"io.SectionReader in the middle of something larger", func() io.Reader {
			return io.NewSectionReader(bytes.NewReader(pxs), int64(len(pre)), int64(len(x)))
		}},
		{"io.SectionReader, partly consumed", func() io.Reader {
			s := io.NewSectionReader(bytes.NewReader(pxs), 0, int64(len(px)))
			io.CopyN(io.Discard, s, int64(len(pre)))
			return s
		}},
		{"io.LimitedReader", func() io.Reader {
			return io.LimitReader(bytes.NewReader(append(append([]byte{}, x...), suf...)), int64(len(x)))
		}},
		{"*bufio.Reader of 16 bytes", func() io.Reader { return bufio.NewReaderSize(bytes.NewReader(x), 16) }},
		{"*bufio.Reader of 64 KiB, partly consumed", func() io.Reader {
			b := bufio.NewReaderSize(bytes.NewReader(px), 1<<16)
			b.Discard(len(pre))
			return b
		}},
		{"*bufio.Reader of 128 KiB", func() io.Reader { return bufio.NewReaderSize(bytes.NewReader(x), 1<<17) }},
		{"*bufio.Reader of 1 MiB", func() io.Reader { return bufio.NewReaderSize(bytes.NewReader(x), 1<<20) }},
		{"io.MultiReader of three parts", func() io.Reader {
			a, b := len(x)/3, 2*len(x)/3
			return io.MultiReader(bytes.NewReader(x[:a]), strings.NewReader(string(x[a:b])), bytes.NewBuffer(append([]byte{}, x[b:]...)))
		}},
		{"iotest.OneByteReader", func() io.Reader { return iotest.OneByteReader(bytes.NewReader(x)) }},
		{"iotest.HalfReader", func() io.Reader { return iotest.HalfReader(bytes.NewReader(x)) }},
		{"iotest.DataErrReader", func() io.Reader { return iotest.DataErrReader(bytes.NewReader(x)) }},
		{"io.TeeReader", func() io.Reader { return io.TeeReader(bytes.NewReader(x), io.Discard) }},
		{"a plain io.Reader (no other methods)", func() io.Reader { return struct{ io.Reader }{bytes.NewReader(x)} }},
	}
	zoo = append(zoo, zooReader{"a source whose Seek method always fails", func() io.Reader { return &failingSeeker{bytes.NewReader(x)} }})
	zoo = append(zoo,
		zooReader{"a refilling stream buffer whose Len() is what it holds right now (37 bytes at most)", func() io.Reader { return &streamBuf{data: x, window: 37} }},
		zooReader{"a refilling stream buffer whose Len() and Size() are what it holds right now (4096 bytes at most)", func() io.Reader { return &sizedStreamBuf{streamBuf{data: x, window: 4096}} }},
		zooReader{"a source with a Len() that counts what is left plus what follows its section", func() io.Reader { return &overLen{bytes.NewReader(x), len(suf)} }})
	zoo = append(zoo,
		zooReader{"a hesitant source: every other Read returns (0, nil), the others deliver 3 bytes", func() io.Reader { return &hesitant{data: x, chunk: 3, every: 2} }},
		zooReader{"a hesitant source: two empty Reads (0, nil) before every piece of 61 bytes", func() io.Reader { return &hesitant{data: x, chunk: 61, every: 3} }})
	if len(x) < 60000 { // fits a pipe's buffer: written at once, then the write end is closed
		zoo = append(zoo, zooReader{"the read end of an os.Pipe (an *os.File that cannot seek)", func() io.Reader {
			pr, pw, err := os.Pipe()
			if err != nil {
				return bytes.NewReader(x)
			}
			pw.Write(x)
			pw.Close()
			return pr
		}})
	}
	if dir != "" {
		path := filepath.Join(dir, fmt.Sprintf("zoo-%d", r.Uint64()))
		if os.WriteFile(path, pxs, 0o644) == nil {
			zoo = append(zoo,
				zooReader{"*os.File, seeked, behind an io.LimitedReader", func() io.Reader {
					f, err := os.Open(path)
					if err != nil {
						return bytes.NewReader(x)
					}
					f.Seek(int64(len(pre)), io.SeekStart)
					return io.LimitReader(f, int64(len(x)))
				}},
				zooReader{"io.SectionReader of an *os.File", func() io.Reader {
					f, err := os.Open(path)
					if err != nil {
						return bytes.NewReader(x)
					}
					return io.NewSectionReader(f, int64(len(pre)), int64(len(x)))
				}})
		}
	}
	return zoo
}

// c06ReaderZoo: every format, well-formed and arbitrary inputs, decoded through
// every reader of the zoo and compared with the decode from a fresh bytes.Reader.
func c06ReaderZoo(c *Ctx) { zooCases(c, c06Formats, c.N(60, 1500)) }

// zooUnit is the same for the formats of one property.
func zooUnit(formats ...string) func(c *Ctx) {
	return func(c *Ctx) { zooCases(c, formats, c.N(60, 1500)) }
}

func zooCases(c *Ctx, formats []string, per int) {
	dir, _ := os.MkdirTemp("", "c06-zoo-")
	defer os.RemoveAll(dir)
	idx := int64(0)
	for _, f := range formats {
		cd := codecByName(f)
		for i := 0; i < per; i++ {
			c.Case(idx, func(k *K) {
				r := k.Rand()
				x := c06Input(r, f)
				gen := f
				if gen == "samh" {
					gen = "sam"
				}
				if i%10 == 9 {
					x = wellFormedLong(r, gen)
				}
				if i%30 == 14 { // a line several times longer than the largest buffer in the zoo
					x = giantText(r, f, 300000)
				}
				k.Input("format", f)
				k.Input("input", func() string { return describeText(x) })
				ref, over := collect(cd.seq(bytes.NewReader(x)), len(x)+8)
				if over {
					return
				}
				for _, z := range readerZoo(r, x, dir) {
					src := z.mk()
					got, over := collect(cd.seq(src), len(x)+8)
					if cl, ok := src.(io.Closer); ok {
						cl.Close()
					}
					if over || !sameTrace(got, ref) {
						k.Input("reader", z.name)
						k.Failf("reader-type-dependence", "%s: decoding the same %d bytes from %s differs from decoding them from a fresh bytes.Reader:\n got  %.1200s\n want %.1200s", f, len(x), z.name, traceString(got), traceString(ref))
						return
					}
					k.Count("zoo_decodes", 1)
					k.Evals(1)
				}
				if len(ref) >= 2 {
					k.Nontrivial([]byte(f), x)
				}
			})
			idx++
		}
	}
}

// ncbiThroughZoo reads a table text through one reader of the zoo.
func ncbiThroughZoo(k *K, r *rand.Rand, text []byte) (zname string, m map[[2]byte]float64, err error) {
	zoo := readerZoo(r, text, "")
	z := zoo[r.IntN(len(zoo))]
	mm, err := smtext.ReadNCBI(z.mk())
	k.Count("tables_read_through_the_reader_zoo", 1)
	return z.name, mm, err
}

// failingSeeker has a Seek method (so it passes an io.Seeker type assertion)
// that fails, as the Seek of a pipe, a terminal or a socket does.
type failingSeeker struct{ r io.Reader }

func (f *failingSeeker) Read(p []byte) (int, error) { return f.r.Read(p) }
func (f *failingSeeker) Seek(int64, int) (int64, error) {
	return 0, &os.PathError{Op: "seek", Path: "|0", Err: fmt.Errorf("illegal seek")}
}

// streamBuf is a buffer in front of a stream (a socket's receive buffer, a ring
// buffer being filled by another part of the program): Len() is the number of
// bytes it holds NOW — more arrive as it is read. It satisfies the same
// interface{ Len() int } as *bytes.Buffer and *strings.Reader.
type streamBuf struct {
	data   []byte
	window int
}

func (s *streamBuf) Len() int { return min(len(s.data), s.window) }
func (s *streamBuf) Read(p []byte) (int, error) {
	if len(s.data) == 0 {
		return 0, io.EOF
	}
	n := copy(p, s.data[:s.Len()])
	s.data = s.data[n:]
	return n, nil
}

type sizedStreamBuf struct{ streamBuf }

func (s *sizedStreamBuf) Size() int64 { return int64(s.Len()) }

// overLen: Len() of a view into something larger that reports the rest of the
// underlying storage (as a Len of the whole backing buffer would).
type overLen struct {
	io.Reader
	extra int
}

func (o *overLen) Len() int { return o.Reader.(*bytes.Reader).Len() + o.extra }

// hesitant answers some Read calls with (0, nil) — "nothing happened", which
// io.Reader allows (a non-blocking source with nothing ready yet) and which
// callers must treat as such; never 100 of them in a row (where bufio gives
// up with io.ErrNoProgress), but hundreds over the whole stream.
type hesitant struct {
	data         []byte
	chunk, every int
	calls        int
}

func (h *hesitant) Read(p []byte) (int, error) {
	h.calls++
	if len(p) == 0 {
		return 0, nil
	}
	if h.calls%h.every != 0 {
		return 0, nil
	}
	if len(h.data) == 0 {
		return 0, io.EOF
	}
	n := copy(p, h.data[:min(h.chunk, len(h.data))])
	h.data = h.data[n:]
	return n, nil
}
