package main

// C03 — SAM alignments, tags, headers, flags.

import (
	"bytes"
	"fmt"
	"io"
	"math/rand/v2"
	"strings"

	"github.com/fluhus/biostuff/formats/sam"
)

var samTextExcl = setOf("\t\r\n")

func genSamText(r *rand.Rand, maxLen int) string {
	n := 0
	switch r.IntN(6) {
	case 0:
		n = 0
	case 1:
		n = 1
	default:
		n = r.IntN(maxLen + 1)
	}
	b := randBytesExcl(r, n, samTextExcl)
	// Bias towards double quotes in first / middle / last position.
	if n > 0 {
		switch r.IntN(8) {
		case 0:
			b[0] = '"'
		case 1:
			b[n-1] = '"'
		case 2:
			b[n/2] = '"'
		case 3:
			b[0], b[n-1] = '"', '"'
		}
	}
	return string(b)
}

const tagFirst = "ABCDEFGHIJKLMNOPQRSTUVWXYZabcdefghijklmnopqrstuvwxyz"
const tagSecond = tagFirst + "0123456789"

func genTagValue(r *rand.Rand) any {
	switch r.IntN(5) {
	case 0:
		return byte('!' + r.IntN('~'-'!'+1))
	case 1:
		return randInt(r)
	case 2:
		return randFloat(r, true)
	case 3:
		return genSamText(r, 20)
	default:
		n := r.IntN(6)
		if r.IntN(4) == 0 {
			n = 0
		}
		b := make([]byte, n)
		for i := range b {
			b[i] = byte(r.IntN(256))
		}
		return b
	}
}

func genSAM(r *rand.Rand) *sam.SAM {
	s := &sam.SAM{
		Qname: genSamText(r, 20),
		Flag:  sam.Flag(randInt(r)),
		Rname: genSamText(r, 12),
		Pos:   randInt(r),
		Mapq:  randInt(r),
		Cigar: genSamText(r, 12),
		Rnext: genSamText(r, 8),
		Pnext: randInt(r),
		Tlen:  randInt(r),
		Seq:   genSamText(r, 60),
		Qual:  genSamText(r, 60),
	}
	for strings.HasPrefix(s.Qname, "@") {
		s.Qname = genSamText(r, 20)
	}
	if r.IntN(3) == 0 {
		s.Flag = sam.Flag(r.IntN(4096))
	}
	nt := 0
	if r.IntN(3) > 0 {
		nt = r.IntN(9)
	}
	if r.IntN(16) == 0 { // many tags: more fields on one line than a fixed-size field buffer would hold (16, 32, 64 …)
		nt = pick(r, []int{4, 5, 6, 20, 21, 22, 23, 52, 53, 54, 100}) + r.IntN(3)
	}
	if nt > 0 || r.IntN(2) == 0 {
		s.Tags = map[string]any{}
	}
	for i := 0; i < nt; i++ {
		name := string([]byte{tagFirst[r.IntN(len(tagFirst))], tagSecond[r.IntN(len(tagSecond))]})
		s.Tags[name] = genTagValue(r)
	}
	return s
}

// samWrite writes one record both ways and checks the line shape.
func samWrite(k *K, s *sam.SAM) []byte {
	var w bytes.Buffer
	if err := s.Write(&w); err != nil {
		k.Failf("write-error", "Write returned %v", err)
	}
	m, err := s.MarshalText()
	if err != nil {
		k.Failf("marshal-error", "MarshalText returned %v", err)
	}
	if !bytes.Equal(w.Bytes(), m) {
		k.Failf("write-vs-marshal", "Write and MarshalText differ: %q vs %q", w.Bytes(), m)
	}
	writerZoo(k, []func(io.Writer) error{s.Write}, m)
	txt := w.Bytes()
	if len(txt) == 0 || txt[len(txt)-1] != '\n' || bytes.Count(txt, []byte("\n")) != 1 || bytes.ContainsRune(txt, '\r') {
		k.Failf("one-line", "record does not occupy exactly one LF-terminated line: %q", txt)
		return txt
	}
	// Tag order: names ascending.
	fields := strings.Split(string(txt[:len(txt)-1]), "\t")
	if len(fields) != 11+len(s.Tags) {
		k.Failf("field-count", "line has %d fields, want 11+%d tags: %q", len(fields), len(s.Tags), txt)
		return txt
	}
	prev := ""
	for _, f := range fields[11:] {
		if len(f) < 5 || f[2] != ':' || f[4] != ':' {
			k.Failf("tag-shape", "tag %q is not NN:T:value", f)
			return txt
		}
		if prev != "" && f[:2] <= prev {
			k.Failf("tag-order", "tags not written in ascending order: %q after %q", f[:2], prev)
			return txt
		}
		prev = f[:2]
	}
	return txt
}

func init() {
	register(&Property{
		ID:    "C03",
		Level: "exploration",
		Rule: "SAM records from seeded generators (text fields: any bytes but TAB/CR/LF, biased to double quotes at first/middle/last position; hostile ints; 0..8 tags of types A,i,f,Z,H incl. NaN/Inf/-0/empty) " +
			"round-tripped one by one and in files of header lines + records through ReaderHeader and Reader; flags: all 4096 values x 12 accessors x 12 setters x {true,false} exhaustively; " +
			"non-trivial = a record with at least one tag or a double quote in a field, or a file with at least one header and one record; distinct by hash of the written text",
		Assumptions: []string{"text fields free of TAB/CR/LF; query names do not start with '@'; tag names match [A-Za-z][A-Za-z0-9]; A tag values are printable ASCII '!'..'~'",
			"header lines start with '@' and are free of CR/LF (they may contain TABs and quotes)"},
		MinEvents: map[string]int64{"records_roundtripped": 1000, "files": 100, "flag_assertions": 4096 * 36},
		Units: []Unit{
			{Name: "records", TShards: 8, Run: c03Records},
			{Name: "files", TShards: 4, Run: c03Files},
			{Name: "flags", Run: c03Flags},
			{Name: "long", TShards: 4, Run: c03Long},
			{Name: "numbers", QShards: 4, TShards: 12, Run: c03Numbers},
			{Name: "sizes", TShards: 6, Run: c03Sizes},
			{Name: "prefixes", Run: prefixUnit("sam", false, 0)},
			{Name: "edges", Run: edgeUnit("sam")},
			{Name: "lexicon", TShards: 4, Run: lexiconUnit("sam")},
			{Name: "mixedsizes", QShards: 4, TShards: 8, Run: mixedSizesUnit("sam")},
			{Name: "fieldlens", TShards: 4, Run: lengthUnit("sam")},
			{Name: "parallel", Race: true, Run: codecParallel("sam", "samh")},
			{Name: "histories", Run: codecHistories("sam", "samh")},
			{Name: "readerzoo", TShards: 4, Run: zooUnit("sam", "samh")},
			{Name: "exactsizes", QShards: 2, TShards: 4, Run: exactSizeUnit("sam")},
			{Name: "tiny", TShards: 4, Run: tinyUnit("sam")},
			firstCallUnit(append(firstCodec("sam"), firstCodec("samh")...)),
		},
	})
}

func c03Records(c *Ctx) {
	n := c.N(20000, 1000000)
	for i := 0; i < n; i++ {
		c.Case(int64(i), func(k *K) {
			r := k.Rand()
			s := genSAM(r)
			k.Input("record", func() string { return samKey(s) })
			want := samKey(s)
			txt := samWrite(k, s)
			k.Input("text", txt)
			cnt := 0
			for got, err := range sam.Reader(bytes.NewReader(txt)) {
				if err != nil {
					k.Failf("roundtrip", "reader error: %v", err)
					return
				}
				cnt++
				if cnt > 1 {
					k.Failf("roundtrip", "more than one record decoded from one written line")
					return
				}
				if g := samKey(got); g != want {
					k.Failf("roundtrip", "decoded %s\nwant    %s", g, want)
					return
				}
			}
			if cnt != 1 {
				k.Failf("roundtrip", "decoded %d records from one written line", cnt)
			}
			k.Count("records_roundtripped", 1)
			k.Count("tags_roundtripped", int64(len(s.Tags)))
			for _, v := range s.Tags {
				k.Count("tag_"+tagKey(v)[:1], 1)
			}
			if len(s.Tags) > 0 || bytes.ContainsRune(txt, '"') {
				k.Nontrivial(txt)
			}
		})
	}
}

func genSamHeader(r *rand.Rand) string {
	b := randBytesExcl(r, r.IntN(30), noCRLF)
	switch r.IntN(6) {
	case 0:
		return "@CO\t\"" + string(b) + "\""
	case 1:
		return "@HD\tVN:1.6\tSO:" + string(b)
	case 2:
		return "@"
	case 3:
		return "@SQ\tSN:" + string(b) + "\tLN:" + fmt.Sprint(r.IntN(1e6))
	}
	return "@" + string(b)
}

func c03Files(c *Ctx) {
	n := c.N(2000, 100000)
	for i := 0; i < n; i++ {
		c.Case(int64(i), func(k *K) {
			r := k.Rand()
			nh, nr := r.IntN(5), r.IntN(8)
			if r.IntN(60) == 0 { // many records
				nr = 300 + r.IntN(2000)
				k.Count("many_record_files", 1)
			}
			var text bytes.Buffer
			var want []item
			var wantRecs []item
			// One file in four is COHERENT the way real files are: the header declares reference sequences (SN, with
			// alternative names AN, M5, AS, UR), read groups and programs, and the records name them — by the primary
			// name, by an alias, by a name of another kind, by a name that differs only in case. A reader that relates
			// records to the header it has seen returns what is WRITTEN in the record.
			var refNames, groupIDs []string
			if r.IntN(4) == 0 {
				nh = 2 + r.IntN(5)
				k.Count("coherent_files", 1)
			}
			coherent := 0
			for j := 0; j < nh; j++ {
				h := genSamHeader(r)
				if refNames != nil || (nh >= 2 && k.Idx%4 == 0) {
					switch coherent % 4 {
					case 0:
						h = "@HD\tVN:1.6\tSO:coordinate"
						refNames = []string{}
					case 1, 2:
						sn := pick(r, []string{"chr1", "chr2", "chrM", "1", "NC_000001.11", "scaffold_12", "HLA-A*01:01"}) + pick(r, []string{"", "", "_alt", ".2"})
						alts := []string{strings.TrimPrefix(sn, "chr") + "x", "NC_0000" + fmt.Sprint(10+r.IntN(80)) + ".1", strings.ToUpper(sn) + "_"}
						h = "@SQ\tSN:" + sn + "\tLN:" + fmt.Sprint(1+r.IntN(1e8)) + "\tAN:" + strings.Join(alts[:1+r.IntN(3)], ",")
						if r.IntN(2) == 0 { // AN before SN
							h = "@SQ\tAN:" + alts[0] + "\tSN:" + sn + "\tLN:5"
						}
						refNames = append(refNames, sn, alts[0], alts[1], strings.ToLower(sn), "*", "=", sn+" ")
					default:
						id := pick(r, []string{"grp1", "A", "lane.3", "chr1"})
						h = "@RG\tID:" + id + "\tSM:s\tPL:ILLUMINA"
						groupIDs = append(groupIDs, id, id+"x", strings.ToUpper(id))
					}
					coherent++
				}
				text.WriteString(h)
				text.WriteByte('\n')
				want = append(want, item{Key: fmt.Sprintf("HDR{%q}", h)})
			}
			var ms []func() ([]byte, error)
			var ws []func(io.Writer) error
			for j := 0; j < nr; j++ {
				s := genSAM(r)
				if len(refNames) > 0 {
					s.Rname, s.Rnext = strings.TrimSpace(pick(r, refNames)), strings.TrimSpace(pick(r, refNames))
					if len(groupIDs) > 0 && r.IntN(2) == 0 {
						if s.Tags == nil {
							s.Tags = map[string]any{}
						}
						s.Tags["RG"] = pick(r, groupIDs)
					}
				}
				for reps := 1 + r.IntN(8)/7*(1+r.IntN(3)); reps > 0; reps-- { // now and then the same line two to four times in a row
					ms = append(ms, s.MarshalText)
					ws = append(ws, s.Write)
					want = append(want, item{Key: samKey(s)})
					wantRecs = append(wantRecs, item{Key: samKey(s)})
				}
			}
			// all records marshalled first (results held), then written and compared
			text.Write(heldMarshalCheck(k, ms, ws))
			k.Input("text", func() string { return describeText(text.Bytes()) })
			got, over := collect(codecByName("samh").seq(bytes.NewReader(text.Bytes())), len(want)+5)
			if over || !sameTrace(got, want) {
				k.Failf("file-readerheader", "ReaderHeader items differ:\n got  %s\n want %s", traceString(got), traceString(want))
			}
			got, over = collect(codecByName("sam").seq(bytes.NewReader(text.Bytes())), len(want)+5)
			if over || !sameTrace(got, wantRecs) {
				k.Failf("file-reader", "Reader items differ:\n got  %s\n want %s", traceString(got), traceString(wantRecs))
			}
			// the same file with its final line end stripped (header-only files, and files that end in a header, too)
			if t := text.Bytes(); len(t) > 0 && !k.Failed() {
				t2 := bytes.TrimSuffix(t, []byte("\n"))
				got, over := collect(codecByName("samh").seq(bytes.NewReader(t2)), len(want)+5)
				if over || !sameTrace(got, want) {
					k.Failf("file-readerheader", "ReaderHeader on the file WITHOUT its final newline (%d header lines, %d records):\n got  %s\n want %s", nh, nr, traceString(got), traceString(want))
				}
				got, over = collect(codecByName("sam").seq(bytes.NewReader(t2)), len(want)+5)
				if over || !sameTrace(got, wantRecs) {
					k.Failf("file-reader", "Reader on the file WITHOUT its final newline:\n got  %s\n want %s", traceString(got), traceString(wantRecs))
				}
				k.Count("files_without_final_newline", 1)
			}
			k.Count("files", 1)
			k.Count("header_lines", int64(nh))
			k.Count("file_records", int64(nr))
			if nh > 0 && nr > 0 {
				k.Nontrivial(text.Bytes())
			}
		})
	}
}

type flagBit struct {
	name  string
	bit   int
	get   func(sam.Flag) bool
	set   func(*sam.Flag, bool)
	konst sam.Flag
}

// Bits as assigned by the SAM specification (section 1.4, FLAG).
var flagBits = []flagBit{
	{"Multiple", 0x1, sam.Flag.Multiple, (*sam.Flag).SetMultiple, sam.FlagMultiple},
	{"Each", 0x2, sam.Flag.Each, (*sam.Flag).SetEach, sam.FlagEach},
	{"Unmapped", 0x4, sam.Flag.Unmapped, (*sam.Flag).SetUnmapped, sam.FlagUnmapped},
	{"Unmapped2", 0x8, sam.Flag.Unmapped2, (*sam.Flag).SetUnmapped2, sam.FlagUnmapped2},
	{"ReverseComplement", 0x10, sam.Flag.ReverseComplement, (*sam.Flag).SetReverseComplement, sam.FlagReverseComplement},
	{"ReverseComplement2", 0x20, sam.Flag.ReverseComplement2, (*sam.Flag).SetReverseComplement2, sam.FlagReverseComplement2},
	{"First", 0x40, sam.Flag.First, (*sam.Flag).SetFirst, sam.FlagFirst},
	{"Last", 0x80, sam.Flag.Last, (*sam.Flag).SetLast, sam.FlagLast},
	{"Secondary", 0x100, sam.Flag.Secondary, (*sam.Flag).SetSecondary, sam.FlagSecondary},
	{"NotPassing", 0x200, sam.Flag.NotPassing, (*sam.Flag).SetNotPassing, sam.FlagNotPassing},
	{"Duplicate", 0x400, sam.Flag.Duplicate, (*sam.Flag).SetDuplicate, sam.FlagDuplicate},
	{"Supplementary", 0x800, sam.Flag.Supplementary, (*sam.Flag).SetSupplementary, sam.FlagSupplementary},
}

func c03Flags(c *Ctx) {
	// Constants.
	c.Case(0, func(k *K) {
		for _, fb := range flagBits {
			if int(fb.konst) != fb.bit {
				k.Failf("flag-constant", "Flag%s = %#x, SAM specification says %#x", fb.name, int(fb.konst), fb.bit)
			}
			k.Count("flag_assertions", 1)
		}
	})
	// All 4096 values, in 16 batches.
	for batch := 0; batch < 16; batch++ {
		c.Case(int64(1+batch), func(k *K) {
			for f := batch * 256; f < (batch+1)*256; f++ {
				checkFlagValue(k, f)
				k.Evals(1)
				k.DistinctBC(1)
			}
		})
	}
	c.Exhaustive("flags: all 4096 flag values x 12 accessors x 12 setters x {true,false}")
	// Values with bits above 0x800 (setters must leave them alone too).
	c.Case(17, func(k *K) {
		r := k.Rand()
		for i := 0; i < 2000; i++ {
			f := r.IntN(1<<40) | 1<<12<<r.IntN(20)
			checkFlagValue(k, f)
			k.Evals(1)
		}
	})
}

func checkFlagValue(k *K, f int) {
	for _, fb := range flagBits {
		want := f&fb.bit != 0
		if got := fb.get(sam.Flag(f)); got != want {
			k.Input("flag", f)
			k.Failf("flag-accessor", "Flag(%#x).%s() = %v, bit %#x is %v", f, fb.name, got, fb.bit, want)
		}
		k.Count("flag_assertions", 1)
		for _, v := range []bool{true, false} {
			g := sam.Flag(f)
			fb.set(&g, v)
			wantF := f &^ fb.bit
			if v {
				wantF |= fb.bit
			}
			if int(g) != wantF {
				k.Input("flag", f)
				k.Failf("flag-setter", "Flag(%#x).Set%s(%v) gives %#x, want %#x", f, fb.name, v, int(g), wantF)
			}
			k.Count("flag_assertions", 1)
		}
	}
}

// c03Long: records and header lines longer than the usual I/O buffers.
func c03Long(c *Ctx) {
	n := c.N(150, 6000)
	for i := 0; i < n; i++ {
		c.Case(int64(i), func(k *K) {
			r := k.Rand()
			var text bytes.Buffer
			var want, wantRecs []item
			nh := r.IntN(3)
			for j := 0; j < nh; j++ {
				h := genSamHeader(r)
				if r.IntN(3) == 0 {
					h = "@CO\t" + string(longText(r, longSize(r), noCRLF))
				}
				text.WriteString(h + "\n")
				want = append(want, item{Key: fmt.Sprintf("HDR{%q}", h)})
			}
			nr := 1 + r.IntN(3)
			long := r.IntN(nr)
			for j := 0; j < nr; j++ {
				s := genSAM(r)
				if j == long {
					l := longSize(r)
					switch r.IntN(4) {
					case 0:
						s.Seq, s.Qual = string(longText(r, l, nil)), string(longText(r, l, nil))
					case 1:
						s.Qname = "q" + string(longText(r, l, nil))
					case 2:
						if s.Tags == nil {
							s.Tags = map[string]any{}
						}
						s.Tags["ZZ"] = string(longText(r, l, nil))
					default:
						if s.Tags == nil {
							s.Tags = map[string]any{}
						}
						h := make([]byte, l/2)
						for q := range h {
							h[q] = byte(r.IntN(256))
						}
						s.Tags["XH"] = h
					}
				}
				line := samWrite(k, s)
				text.Write(line)
				want = append(want, item{Key: samKey(s)})
				wantRecs = append(wantRecs, item{Key: samKey(s)})
				k.Count("long_line_bytes_max", 0)
			}
			k.Input("text", func() string { return describeText(text.Bytes()) })
			got, over := collect(codecByName("samh").seq(bytes.NewReader(text.Bytes())), len(want)+5)
			if over || !sameTrace(got, want) {
				k.Failf("long-readerheader", "file with a long line: ReaderHeader items differ:\n got  %.1500s\n want %.1500s", traceString(got), traceString(want))
			}
			got, over = collect(codecByName("sam").seq(bytes.NewReader(text.Bytes())), len(want)+5)
			if over || !sameTrace(got, wantRecs) {
				k.Failf("long-reader", "file with a long line: Reader items differ:\n got  %.1500s\n want %.1500s", traceString(got), traceString(wantRecs))
			}
			k.Count("long_line_files", 1)
			k.Count("records_roundtripped", int64(nr))
			k.Nontrivial(text.Bytes())
		})
	}
}

// c03Sizes sweeps Seq/Qual lengths densely around the points where the
// written line crosses multiples of the usual buffer sizes.
func c03Sizes(c *Ctx) {
	spans := [][2]int{{1900, 2200}}
	if c.Thorough {
		spans = [][2]int{{1900, 2200}, {3950, 4250}, {8050, 8250}, {32600, 32900}}
	}
	idx := int64(0)
	for _, sp := range spans {
		for l := sp[0]; l <= sp[1]; l++ {
			c.Case(idx, func(k *K) {
				r := k.Rand()
				first := genSAM(r)
				first.Seq, first.Qual = string(longText(r, l, nil)), string(longText(r, l, nil))
				second := genSAM(r)
				k.Input("seq_len", l)
				var ms []func() ([]byte, error)
				var ws []func(io.Writer) error
				var want []item
				for _, rec := range []*sam.SAM{first, second} {
					ms = append(ms, rec.MarshalText)
					ws = append(ws, rec.Write)
					want = append(want, item{Key: samKey(rec)})
				}
				text := heldMarshalCheck(k, ms, ws)
				if n := bytes.Count(text, []byte("\n")); n != 2 {
					k.Failf("one-line", "two records written as %d lines", n)
				}
				got, over := collect(codecByName("sam").seq(bytes.NewReader(text)), 5)
				if over || !sameTrace(got, want) {
					k.Failf("roundtrip", "records around a buffer-size boundary decoded differently:\n got  %.800s\n want %.800s", traceString(got), traceString(want))
				}
				k.Count("records_roundtripped", 2)
				k.Count("size_sweep_cases", 1)
				k.Nontrivial([]byte(fmt.Sprint(l)), text[:min(64, len(text))])
			})
			idx++
		}
	}
}

// c03Numbers: the numeric fields and tags swept systematically — one record per
// decimal exponent (−330 … 309) whose 3000 `f` tags are short decimal numbers of
// every digit count 1..17 at that exponent, whose `i` tags and integer fields
// (Flag, Pos, Mapq, Pnext, Tlen) are integers of every digit count, next to
// powers of two and of ten. Compared field by field (floats by their bits).
func c03Numbers(c *Ctx) {
	per := c.N(60, 170) // f tags per digit count and record (17 x per <= 3224 tag names minus the i tags)
	idx := int64(0)
	var names []string
	for _, a := range tagFirst {
		for _, b := range tagSecond {
			names = append(names, string([]rune{a, b}))
		}
	}
	for exp := -330; exp <= 309; exp++ {
		c.Case(idx, func(k *K) {
			r := k.Rand()
			s := genSAM(r)
			s.Flag, s.Pos, s.Mapq, s.Pnext, s.Tlen = sam.Flag(digitInt(r)), digitInt(r), digitInt(r), digitInt(r), digitInt(r)
			s.Tags = map[string]any{}
			perm := r.Perm(len(names))
			ni := 0
			for digits := 1; digits <= 17; digits++ {
				for j := 0; j < per; j++ {
					s.Tags[names[perm[ni]]] = decimalFloat(r, digits, exp-digits+1)
					ni++
				}
			}
			for j := 0; j < 200; j++ {
				s.Tags[names[perm[ni]]] = digitInt(r)
				ni++
			}
			k.Input("decimal_exponent", exp)
			want := samKey(s)
			m, err := s.MarshalText()
			if err != nil {
				k.Failf("marshal-error", "MarshalText returned %v", err)
				return
			}
			cnt := 0
			for got, err := range sam.Reader(bytes.NewReader(m)) {
				cnt++
				if err != nil || cnt > 1 {
					k.Failf("roundtrip", "a record with %d numeric tags around 1e%d does not read back: item %d, err=%v", len(s.Tags), exp, cnt, err)
					return
				}
				if g := samKey(got); g != want {
					// name the first tag that differs
					for name, v := range s.Tags {
						if gv, ok := got.Tags[name]; !ok || tagKey(gv) != tagKey(v) {
							k.Input("tag", name)
							k.Failf("roundtrip", "tag %s = %s reads back as %s (written line has %d bytes)", name, tagKey(v), tagKey(gv), len(m))
							return
						}
					}
					k.Failf("roundtrip", "an integer field does not read back: Flag %d Pos %d Mapq %d Pnext %d Tlen %d -> %d %d %d %d %d", s.Flag, s.Pos, s.Mapq, s.Pnext, s.Tlen, got.Flag, got.Pos, got.Mapq, got.Pnext, got.Tlen)
					return
				}
			}
			if cnt != 1 {
				k.Failf("roundtrip", "decoded %d records from one written line", cnt)
				return
			}
			k.Count("records_roundtripped", 1)
			k.Count("tags_roundtripped", int64(len(s.Tags)))
			k.Count("decimal_float_tags", int64(17*per))
			k.Count("digit_int_tags", 200)
			k.Evals(int64(len(s.Tags)))
			k.Nontrivial([]byte(fmt.Sprint("numbers", exp)))
		})
		idx++
	}
}
