package main

// C10: pinned witnesses of the open known finding.

import (
	"encoding/json"
	"fmt"
	"math/rand/v2"
	"os"
	"path/filepath"

	"github.com/fluhus/biostuff/align"
)

type c10Witness struct {
	Function string       `json:"function"`
	A        string       `json:"a"`
	B        string       `json:"b"`
	Matrix   [][3]float64 `json:"matrix"` // [x, y, score], 255 = gap
	Returned float64      `json:"returned_on_pinned_tree"`
	Optimum  float64      `json:"optimum"`
}

func (w c10Witness) matrix() align.SubstitutionMatrix {
	m := align.SubstitutionMatrix{}
	for _, e := range w.Matrix {
		m[[2]byte{byte(e[0]), byte(e[1])}] = e[2]
	}
	return m
}

type c10File struct {
	ID        string       `json:"id"`
	Signature string       `json:"signature"`
	Witnesses []c10Witness `json:"witnesses"`
}

func c10Witnesses(c *Ctx) {
	dir := os.Getenv("VERIF_DIR")
	if dir == "" {
		dir = "/verif"
	}
	b, err := os.ReadFile(filepath.Join(dir, "known_findings", "C10.json"))
	if err != nil {
		c.Info("witnesses", "known_findings/C10.json not readable: "+err.Error())
		return
	}
	var f c10File
	if err := json.Unmarshal(b, &f); err != nil {
		c.Info("witnesses", "known_findings/C10.json not parseable: "+err.Error())
		return
	}
	for i, w := range f.Witnesses {
		c.Case(int64(i), func(k *K) {
			m := w.matrix()
			a, bb := []byte(w.A), []byte(w.B)
			k.Input("witness", fmt.Sprintf("%s(%q,%q)", w.Function, w.A, w.B))
			k.Input("matrix", matrixDesc(m))
			o := alignOpts{validity: true, optimal: true, knownC10: true, local: w.Function == "Local"}
			before := k.c.Rep.Known["single-state-recurrence"]
			var n0 int64
			if before != nil {
				n0 = before.Count
			}
			alignCase(k, a, bb, m, o)
			after := k.c.Rep.Known["single-state-recurrence"]
			if after != nil && after.Count > n0 {
				k.Count("witnesses_still_reproducing", 1)
			} else if !k.Failed() {
				k.Count("witnesses_now_optimal", 1)
			}
			k.Nontrivial(a, bb, []byte(matrixString(m)))
		})
	}
}

// cmdC10Witness searches for small witnesses of the single-state defect and
// prints them as JSON (development aid; not used by any registered command).
func cmdC10Witness() int {
	r := rand.New(rand.NewPCG(7, 7))
	strs := allStrings([]byte("ab"), 4)
	var out []c10Witness
	seen := map[string]bool{}
	for mi := 0; mi < 200 && len(out) < 8; mi++ {
		m, _ := c10Gen(r, mi, []byte("ab"))
		for _, a := range strs {
			for _, b := range strs {
				for _, fn := range []string{"Global", "Local"} {
					var got, opt float64
					if fn == "Global" {
						_, got = align.Global(a, b, m)
						opt = gotohGlobal(a, b, m)
					} else {
						_, _, _, got = align.Local(a, b, m)
						opt = gotohLocal(a, b, m)
					}
					key := fn + string(a) + "/" + string(b)
					if got < opt && !seen[key] && len(out) < 8 && (fn == "Local" || len(out) < 5) {
						seen[key] = true
						w := c10Witness{Function: fn, A: string(a), B: string(b), Returned: got, Optimum: opt}
						for kk, v := range m {
							w.Matrix = append(w.Matrix, [3]float64{float64(kk[0]), float64(kk[1]), v})
						}
						out = append(out, w)
					}
				}
			}
		}
	}
	f := c10File{ID: "single-state-recurrence",
		Signature: "align.Global / align.Local with m[Gap,Gap] != 0: the returned score equals the single-state recurrence R (one score per cell; a gap step pays gap-open iff the predecessor cell's recorded step is not the same gap kind; ties match >= deletion >= insertion; Local clamps negatives to a step-less zero and reports the first maximum) and is below the affine optimum",
		Witnesses: out}
	b, _ := json.MarshalIndent(f, "", " ")
	fmt.Println(string(b))
	return 0
}
