package main

// C16 — the interval index.

import (
	"fmt"
	"math"
	"math/rand/v2"
	"runtime"
	"sync"
	"sync/atomic"

	"github.com/fluhus/biostuff/regions"
)

func refAt(starts, ends []int, i int) []int {
	var out []int
	for x := range starts {
		if starts[x] <= i && i < ends[x] {
			out = append(out, x)
		}
	}
	return out
}

func sameInts(a, b []int) bool {
	if len(a) != len(b) {
		return false
	}
	for i := range a {
		if a[i] != b[i] {
			return false
		}
	}
	return true
}

// heldAt remembers a result of At that the monitor keeps, untouched, while
// further queries run: a result that is really a recycled buffer changes
// under the monitor's feet.
type heldAt struct {
	pos  int
	got  []int
	want []int
	prev []int // an even earlier result, scribbled over up to its capacity once newer results exist
}

func (h *heldAt) verify(k *K) bool {
	if h.got != nil && !sameInts(h.got, h.want) {
		k.Failf("at-result-not-stable", "the slice returned by At(%d) was %v when returned and reads %v after later At calls", h.pos, h.want, h.got)
		return false
	}
	return true
}

// checkAt queries position i, compares with the scan, scribbles over the
// result and queries again.
func checkAt(k *K, idx *regions.Index, starts, ends []int, i int) bool {
	return checkAtHeld(k, idx, starts, ends, i, nil)
}

func checkAtHeld(k *K, idx *regions.Index, starts, ends []int, i int, held *heldAt) bool {
	want := refAt(starts, ends, i)
	if held != nil && len(want) > 0 {
		// a result kept untouched across the following queries
		h := idx.At(i)
		if sameInts(h, want) {
			if !held.verify(k) {
				return false
			}
			older := held.got
			*held = heldAt{pos: i, got: h, want: want, prev: older}
			if older != nil {
				// the caller appends to / fills an older result up to its capacity:
				// newer results and later answers must not change
				full := older[:cap(older)]
				for j := range full {
					full[j] = -999
				}
				_ = append(older, 77, 78, 79)
				if !sameInts(h, want) {
					k.Failf("at-results-share-memory", "writing into the spare capacity of an earlier At result changed a later result: At(%d) reads %v, want %v", i, h, want)
					return false
				}
			}
		}
	}
	got := idx.At(i)
	if !sameInts(got, want) {
		k.Input("query", i)
		k.Failf("at", "At(%d) = %v, brute-force scan gives %v (starts %v ends %v)", i, got, want, starts, ends)
		return false
	}
	if len(got) > 0 {
		k.Count("nonempty_answers", 1)
		if shares, ok := sharesMemory(idx, got); ok && shares {
			k.Input("query", i)
			k.Failf("at-aliases-index", "the slice returned by At(%d) shares memory with the index", i)
			return false
		}
		for j := range got {
			got[j] = -12345 - j
		}
		got = append(got[:0], 777)
		again := idx.At(i)
		if !sameInts(again, want) {
			k.Input("query", i)
			k.Failf("at-not-private", "after overwriting the slice returned by At(%d), At(%d) = %v, want %v", i, i, again, want)
			return false
		}
	}
	k.Count("queries", 1)
	return true
}

func init() {
	register(&Property{
		ID:    "C16",
		Level: "exploration",
		Rule: "every ordered list of up to 3 (quick) / 4 (thorough) intervals with start,end in 0..4 (including start==end and start>end) queried at every position -1..5; random sets of up to 300 intervals with negative and extreme coordinates queried at every endpoint +-1, MinInt, MaxInt; " +
			"every answer compared with a brute-force scan, then overwritten and re-queried; NewIndex with unequal lengths must panic; one index shared by 16 goroutines under the Go race detector; " +
			"non-trivial = interval list with at least 2 intervals of which at least one is non-empty; distinct by construction in the exhaustive scope, by hash otherwise",
		Assumptions: []string{"nil and empty results are equal", "the race-detector run is part of both tiers (a separate -race build of the harness)"},
		MinEvents:   map[string]int64{"queries": 50000, "nonempty_answers": 10000, "length_mismatch_panics": 20, "concurrent_queries": 50000, "overlapping_calls_observed": 1},
		Units: []Unit{
			{Name: "exhaustive", QShards: 2, TShards: 8, Run: c16Exhaustive},
			{Name: "random", TShards: 4, Run: c16Random},
			{Name: "mismatch", Run: c16Mismatch},
			{Name: "concurrent", Race: true, Run: c16Concurrent},
			firstCallUnit(firstRegions),
			firstParallelUnit(parRegions),
			{Name: "bufreuse", Run: regionsReuse},
			{Name: "many", TShards: 2, Run: c16Many},
			{Name: "profiles", TShards: 4, Run: c16Profiles},
			{Name: "pileups", TShards: 2, Run: c16Pileups},
			{Name: "scales", QShards: 4, TShards: 8, Run: c16Scales},
			{Name: "tilings", QShards: 4, TShards: 8, Run: c16Tilings},
			{Name: "covered", TShards: 4, Run: c16Covered},
			{Name: "manyprocs", QShards: 2, TShards: 4, Run: c16ManyProcs},
		},
	})
}

func c16Exhaustive(c *Ctx) {
	maxN := c.N(3, 4)
	const R = 5 // coordinates 0..4
	idx := int64(0)
	for n := 0; n <= maxN; n++ {
		total := int(pow(R*R, n))
		// batch: 625 lists per case
		const batch = 625
		for lo := 0; lo < total; lo += batch {
			c.Case(idx, func(k *K) {
				starts := make([]int, n)
				ends := make([]int, n)
				cnt := int64(0)
				for code := lo; code < min(total, lo+batch); code++ {
					x := code
					nonEmpty := 0
					for j := 0; j < n; j++ {
						starts[j] = x % R
						x /= R
						ends[j] = x % R
						x /= R
						if starts[j] < ends[j] {
							nonEmpty++
						}
					}
					s0, e0 := append([]int{}, starts...), append([]int{}, ends...)
					ix := regions.NewIndex(starts, ends)
					k.Count("indexes_built", 1)
					if !sameInts(starts, s0) || !sameInts(ends, e0) {
						k.Failf("newindex-modifies-input", "NewIndex modified its arguments")
						return
					}
					k.Input("starts", s0)
					k.Input("ends", e0)
					if !indexStructure(k, ix) {
						return
					}
					for q := -1; q <= R; q++ {
						if !checkAt(k, ix, starts, ends, q) {
							return
						}
					}
					cnt++
					if n >= 2 && nonEmpty >= 1 {
						k.DistinctBC(1)
					}
				}
				k.Evals(cnt - 1)
			})
			idx++
		}
	}
	c.Exhaustive(fmt.Sprintf("exhaustive: all ordered lists of 0..%d intervals with start,end in 0..4, queried at every position -1..5", maxN))
	// The same over the ends of the integer range: every list of up to 2 (thorough:
	// 3) intervals with start, end in {MinInt, MinInt+1, -1, 0, 1, MaxInt-1, MaxInt},
	// queried at each of these coordinates (sentinels and overflow live here).
	ext := []int{math.MinInt, math.MinInt + 1, -1, 0, 1, math.MaxInt - 1, math.MaxInt}
	E := len(ext)
	for n := 1; n <= c.N(2, 3); n++ {
		total := int(pow(E*E, n))
		const batch = 2401
		for lo := 0; lo < total; lo += batch {
			c.Case(idx, func(k *K) {
				starts := make([]int, n)
				ends := make([]int, n)
				cnt := int64(0)
				for code := lo; code < min(total, lo+batch); code++ {
					x := code
					for j := 0; j < n; j++ {
						starts[j] = ext[x%E]
						x /= E
						ends[j] = ext[x%E]
						x /= E
					}
					ix := regions.NewIndex(starts, ends)
					k.Count("indexes_built", 1)
					k.Input("starts", append([]int{}, starts...))
					k.Input("ends", append([]int{}, ends...))
					for _, q := range ext {
						if !checkAt(k, ix, starts, ends, q) {
							return
						}
					}
					cnt++
				}
				k.Evals(cnt - 1)
				k.DistinctBC(cnt)
			})
			idx++
		}
	}
	c.Exhaustive(fmt.Sprintf("exhaustive: all ordered lists of 1..%d intervals over 7 coordinates at the ends of the int range, queried at each of them", c.N(2, 3)))
}

var extremeCoords = []int{math.MinInt, math.MinInt + 1, -1000000, -2, -1, 0, 1, 2, 1000000, math.MaxInt - 1, math.MaxInt}

func genIntervals(r *rand.Rand) (starts, ends []int) {
	n := r.IntN(20)
	if r.IntN(10) == 0 {
		n = r.IntN(301)
	}
	span := pick(r, []int{5, 30, 1000, 1 << 40})
	for i := 0; i < n; i++ {
		var s, e int
		switch r.IntN(8) {
		case 0:
			s, e = pick(r, extremeCoords), pick(r, extremeCoords)
		case 1:
			s = r.IntN(span) - span/2
			e = s // empty
		case 2:
			s = r.IntN(span) - span/2
			e = s - r.IntN(5) // inverted
		case 3:
			if len(starts) > 0 { // duplicate or nested
				j := r.IntN(len(starts))
				s, e = starts[j], ends[j]
				if r.IntN(2) == 0 && e-s > 2 && e > s {
					s, e = s+1, e-1
				}
			}
		default:
			s = r.IntN(span) - span/2
			e = s + r.IntN(max(1, span/3))
		}
		starts = append(starts, s)
		ends = append(ends, e)
	}
	return
}

func queryPoints(r *rand.Rand, starts, ends []int) []int {
	qs := []int{math.MinInt, math.MaxInt, 0, -1, 1}
	add := func(x int) {
		qs = append(qs, x)
		if x > math.MinInt {
			qs = append(qs, x-1)
		}
		if x < math.MaxInt {
			qs = append(qs, x+1)
		}
	}
	lo, hi := math.MaxInt, math.MinInt
	for i := range starts {
		add(starts[i])
		add(ends[i])
		lo = min(lo, starts[i], ends[i])
		hi = max(hi, starts[i], ends[i])
	}
	if len(starts) > 0 {
		if lo > math.MinInt {
			qs = append(qs, lo-1) // one below the minimum
		}
		if hi < math.MaxInt {
			qs = append(qs, hi+1) // one above the maximum
		}
	}
	for i := 0; i < 20; i++ {
		qs = append(qs, int(r.Uint64()))
		qs = append(qs, r.IntN(2000)-1000)
	}
	return qs
}

func c16Random(c *Ctx) {
	n := c.N(3000, 200000)
	for i := 0; i < n; i++ {
		c.Case(int64(i), func(k *K) {
			r := k.Rand()
			starts, ends := genIntervals(r)
			if k.Idx%2 == 1 && len(starts) > 0 {
				// starts and ends as adjacent windows of one array (capacity running on)
				pool := make([]int, 0, 2*len(starts)+3)
				pool = append(append(append(pool, starts...), ends...), 111, 222, 333)
				snap := append([]int{}, pool...)
				n := len(starts)
				starts, ends = pool[:n], pool[n:2*n]
				defer func() {
					if !sameInts(pool, snap) {
						k.Failf("input-memory-modified", "NewIndex/At wrote into the array its arguments were carved from: %v -> %v", snap, pool)
					}
				}()
			}
			k.Input("starts", starts)
			k.Input("ends", ends)
			ix := regions.NewIndex(starts, ends)
			k.Count("indexes_built", 1)
			if !indexStructure(k, ix) {
				return
			}
			nonEmpty := 0
			for j := range starts {
				if starts[j] < ends[j] {
					nonEmpty++
				} else {
					k.Count("empty_or_inverted_intervals", 1)
				}
			}
			// a second, independent index queried in between (state must not leak between instances)
			starts2, ends2 := genIntervals(r)
			ix2 := regions.NewIndex(starts2, ends2)
			var held, held2 heldAt
			for _, q := range queryPoints(r, starts, ends) {
				if !checkAtHeld(k, ix, starts, ends, q, &held) {
					return
				}
				if r.IntN(3) == 0 {
					if !checkAtHeld(k, ix2, starts2, ends2, q, &held2) {
						return
					}
				}
			}
			if !held.verify(k) || !held2.verify(k) {
				return
			}
			k.Count("held_results_verified", 1)
			if len(starts) >= 2 && nonEmpty >= 1 {
				k.Nontrivial([]byte(fmt.Sprint(starts)), []byte(fmt.Sprint(ends)))
			}
		})
	}
}

func c16Mismatch(c *Ctx) {
	c.Case(0, func(k *K) {
		for a := 0; a <= 4; a++ {
			for b := 0; b <= 4; b++ {
				starts, ends := make([]int, a), make([]int, b)
				for i := range ends {
					ends[i] = 3
				}
				p := expectPanic(func() { regions.NewIndex(starts, ends) })
				k.Input("lengths", fmt.Sprintf("%d,%d", a, b))
				if a != b && !p {
					k.Failf("missing-panic", "NewIndex with %d starts and %d ends did not panic", a, b)
					return
				}
				if a == b && p {
					k.Failf("unexpected-panic", "NewIndex with %d starts and %d ends panicked", a, b)
					return
				}
				if a != b {
					k.Count("length_mismatch_panics", 1)
				}
				k.Evals(1)
			}
		}
		// nil vs empty
		if expectPanic(func() { regions.NewIndex(nil, []int{}) }) {
			k.Failf("unexpected-panic", "NewIndex(nil, []int{}) panicked")
		}
		if got := regions.NewIndex(nil, nil).At(0); len(got) != 0 {
			k.Failf("at", "empty index: At(0) = %v", got)
		}
		k.DistinctBC(25)
	})
	c.Exhaustive("mismatch: all length pairs 0..4 x 0..4")
}

// c16Concurrent shares one index among 16 goroutines (run under -race).
func c16Concurrent(c *Ctx) {
	total := c.N(100000, 6000000)
	const G = 16
	rounds := 4
	per := total / G / rounds
	for round := 0; round < rounds; round++ {
		c.Case(int64(round), func(k *K) {
			r := k.Rand()
			var starts, ends []int
			for len(starts) < 50 {
				starts, ends = genIntervals(r)
			}
			for i := range starts { // keep coordinates small so that answers are non-trivial
				starts[i] = r.IntN(200)
				ends[i] = starts[i] + r.IntN(60) - 5
			}
			ix := regions.NewIndex(starts, ends)
			k.Input("starts", starts)
			k.Input("ends", ends)
			// No At call before the goroutines start: the very first queries of
			// every piece of the index happen concurrently (lazily built state
			// would be written there). Expected answers come from the scan.
			var inflight, maxInflight, overlapped atomic.Int64
			var hist [G + 1]atomic.Int64
			var mu sync.Mutex
			var firstErr string
			var wg sync.WaitGroup
			for g := 0; g < G; g++ {
				wg.Add(1)
				seed := r.Uint64()
				go func(g int) {
					defer wg.Done()
					lr := rand.New(rand.NewPCG(seed, uint64(g)))
					for i := 0; i < per; i++ {
						q := lr.IntN(265) - 2
						n := inflight.Add(1)
						if n > 1 {
							overlapped.Add(1)
						}
						if n <= G {
							hist[n].Add(1)
						}
						for {
							m := maxInflight.Load()
							if n <= m || maxInflight.CompareAndSwap(m, n) {
								break
							}
						}
						got := ix.At(q)
						inflight.Add(-1)
						want := refAt(starts, ends, q)
						if !sameInts(got, want) {
							mu.Lock()
							if firstErr == "" {
								firstErr = fmt.Sprintf("concurrent At(%d) = %v, want %v", q, got, want)
							}
							mu.Unlock()
							return
						}
						for j := range got {
							got[j] = -1 // scribble
						}
					}
				}(g)
			}
			wg.Wait()
			if firstErr != "" {
				k.Failf("concurrent-at", "%s", firstErr)
				return
			}
			// later answers unchanged
			for q := -2; q <= 262; q++ {
				if got, want := ix.At(q), refAt(starts, ends, q); !sameInts(got, want) {
					k.Failf("concurrent-changed-answers", "after concurrent use At(%d) = %v, want %v", q, got, want)
					return
				}
			}
			k.Count("concurrent_queries", int64(per*G))
			k.Count("overlapping_calls_observed", overlapped.Load())
			k.Evals(int64(per*G) - 1)
			h := map[string]int64{}
			for i := 1; i <= G; i++ {
				if v := hist[i].Load(); v > 0 {
					h[fmt.Sprint(i)] = v
				}
			}
			k.c.Info(fmt.Sprintf("inflight_histogram_round%d", round), h)
			k.c.Info(fmt.Sprintf("max_inflight_round%d", round), maxInflight.Load())
			k.Nontrivial([]byte(fmt.Sprint(starts)), []byte(fmt.Sprint(ends)))
		})
	}
}

// c16Many: indexes over tens of thousands of intervals (interval NUMBERS beyond
// 2^15, 2^16 and the UTF-16 surrogate range — anything that packs the numbers
// of a set into bytes, runes or strings breaks there), laid out so that the
// expected answer of every query is known without a scan: interval x covers
// [2x, 2x+1), every wide interval number n+j covers [wideStart_j, wideEnd_j).
func c16Many(c *Ctx) {
	sizes := []int{70000}
	if c.Thorough {
		sizes = []int{70000, 140000, 1<<20 + 5}
	}
	for i, n := range sizes {
		for variant := 0; variant < 2; variant++ {
			c.Case(int64(2*i+variant), func(k *K) {
				r := k.Rand()
				starts, ends := make([]int, 0, n+8), make([]int, 0, n+8)
				for x := 0; x < n; x++ {
					starts, ends = append(starts, 2*x), append(ends, 2*x+1)
				}
				type wide struct{ lo, hi int }
				var wides []wide
				if variant == 1 {
					for j := 0; j < 6; j++ {
						lo := r.IntN(2 * n)
						hi := lo + 1 + r.IntN(2*n-lo)
						wides = append(wides, wide{lo, hi})
						starts, ends = append(starts, lo), append(ends, hi)
					}
				}
				k.Input("intervals", len(starts))
				k.Input("wide_intervals", fmt.Sprint(wides))
				ix := regions.NewIndex(starts, ends)
				queries := []int{-1, 0, 1, 2*n - 2, 2*n - 1, 2 * n}
				for _, x := range []int{127, 128, 255, 256, 32767, 32768, 55295, 55296, 55297, 56000, 57343, 57344, 65535, 65536, 65537, n - 1} {
					if x < n {
						queries = append(queries, 2*x, 2*x+1)
					}
				}
				for q := 0; q < 3000; q++ {
					queries = append(queries, r.IntN(2*n))
				}
				step := 1
				if n > 200000 {
					step = 7
				}
				for q := 0; q < 2*n; q += step {
					queries = append(queries, q)
				}
				for _, q := range queries {
					var want []int
					if q >= 0 && q < 2*n && q%2 == 0 {
						want = append(want, q/2)
					}
					for j, w := range wides {
						if w.lo <= q && q < w.hi {
							want = append(want, n+j)
						}
					}
					got := ix.At(q)
					if !sameInts(got, want) {
						k.Input("query", q)
						k.Failf("at", "index over %d intervals: At(%d) = %v, want %v", len(starts), q, got, want)
						return
					}
				}
				k.Count("indexes_built", 1)
				k.Count("queries_on_large_indexes", int64(len(queries)))
				k.Evals(int64(len(queries) - 1))
				k.Nontrivial([]byte(fmt.Sprint("many", n, variant)))
			})
		}
	}
}

// c16Profiles: interval sets generated from a DEPTH PROFILE — the number of
// intervals open at once is walked through a list of targets (0, 1, 15..17,
// 63..65, 255..257, 1000 …, up and down several times), opening new intervals
// and closing randomly chosen open ones at advancing coordinates. Uniformly
// drawn endpoints give one hump; a set of open intervals that changes its
// representation with its size (small array <-> map, inline <-> spilled) is only
// exercised by pile-ups that come and go without the depth reaching zero.
// Interval numbers are shuffled; every coordinate with an event, and its
// neighbours, is queried against the scan.
func c16Profiles(c *Ctx) {
	n := c.N(60, 1500)
	levels := []int{0, 1, 2, 7, 8, 9, 15, 16, 17, 31, 32, 33, 63, 64, 65, 66, 100, 127, 128, 129, 255, 256, 257, 300, 1000}
	for i := 0; i < n; i++ {
		c.Case(int64(i), func(k *K) {
			r := k.Rand()
			maxLevel := len(levels)
			if i%3 != 0 {
				maxLevel = 19 // mostly up to 127 open at once
			}
			phases := 3 + r.IntN(8)
			var starts, ends []int
			open := []int{} // interval numbers currently open
			pos := r.IntN(5)
			var profile []int
			for ph := 0; ph < phases; ph++ {
				target := levels[r.IntN(maxLevel)]
				if ph == phases-1 && r.IntN(2) == 0 {
					target = 0
				}
				profile = append(profile, target)
				for len(open) != target {
					if len(open) < target {
						open = append(open, len(starts))
						starts, ends = append(starts, pos), append(ends, -1)
					} else {
						j := r.IntN(len(open))
						ends[open[j]] = pos
						open[j] = open[len(open)-1]
						open = open[:len(open)-1]
					}
					if r.IntN(3) > 0 { // several events may share one coordinate
						pos += 1 + r.IntN(2)
					}
				}
				pos += r.IntN(3)
			}
			for _, x := range open { // whatever is still open ends somewhere later
				pos += r.IntN(2)
				ends[x] = pos + 1
			}
			for j := range ends {
				if ends[j] <= starts[j] { // opened and closed at one coordinate: an empty interval, legal, never reported
					k.Count("empty_or_inverted_intervals", 1)
				}
			}
			// shuffle the interval numbers
			perm := r.Perm(len(starts))
			s2, e2 := make([]int, len(starts)), make([]int, len(starts))
			for j, pj := range perm {
				s2[pj], e2[pj] = starts[j], ends[j]
			}
			starts, ends = s2, e2
			k.Input("depth_profile", profile)
			k.Input("starts", starts)
			k.Input("ends", ends)
			ix := regions.NewIndex(starts, ends)
			k.Count("indexes_built", 1)
			k.Count("profile_indexes", 1)
			// every coordinate that carries an event, and its two neighbours (at most 1500 of them for big sets)
			qs := map[int]bool{-1: true, pos + 2: true}
			for j := range starts {
				for d := -1; d <= 1; d++ {
					qs[starts[j]+d] = true
					qs[ends[j]+d] = true
				}
			}
			nq := 0
			for q := range qs {
				if nq > 1500 && len(starts) > 1500 {
					break
				}
				nq++
				if !checkAt(k, ix, starts, ends, q) {
					return
				}
			}
			k.Count("profile_queries", int64(nq))
			if len(starts) >= 2 {
				k.Nontrivial([]byte(fmt.Sprint(starts)), []byte(fmt.Sprint(ends)))
			}
		})
	}
}

// c16Pileups: positions covered by thousands of intervals (2047, 2048, 2049,
// 3000 at once; the profiles unit stops at 1000), built and queried with
// the process restricted to ONE CPU for every other case — work that NewIndex
// hands to helper goroutines is then still pending when it returns unless it
// really waits for it; with sixteen idle CPUs the helpers always win the race.
// Layouts: a staircase (interval x covers [x, n + x): every depth from 1 to n), and, on one CPU, nearly
// identical intervals (a handful of pieces, each n deep, built in microseconds).
func c16Pileups(c *Ctx) {
	depths := []int{2047, 2048, 2049, 3000} // (the index stores every piece's set: memory grows with the square of the depth)
	if c.Thorough {
		depths = append(depths, 4095, 4096, 4097)
	}
	idx := int64(0)
	type dv struct{ n, variant int }
	var cases []dv
	for _, n := range depths {
		cases = append(cases, dv{n, 0}, dv{n, 1})
	}
	// tens of thousands deep: only in the cheap layout (a handful of pieces), on one CPU and on all of them
	for _, n := range []int{65535, 65536, 65537, 70000, 1<<17 + 1} {
		cases = append(cases, dv{n, 1}, dv{n, 2})
	}
	for _, cs := range cases {
		{
			n, variant := cs.n, cs.variant
			c.Case(idx, func(k *K) {
				r := k.Rand()
				if variant == 1 {
					defer runtime.GOMAXPROCS(runtime.GOMAXPROCS(1))
					k.Count("cases_on_one_cpu", 1)
				}
				starts, ends := make([]int, n), make([]int, n)
				perm := r.Perm(n)        // interval NUMBERS in random order: number perm[x] covers [x, n+x)
				for x := 0; x < n; x++ { // interval perm[x] covers [s(x), s(x) + n) with s(x) = x (staircase) or x mod 3
					sx := x
					if variant >= 1 {
						sx = x % 3
					}
					starts[perm[x]], ends[perm[x]] = sx, n+sx
				}
				k.Input("pile_up_depth", n)
				k.Input("one_cpu", variant == 1)
				ix := regions.NewIndex(starts, ends)
				for _, q := range []int{n - 1, n, 0, n / 2, n + n/2, 2*n - 2, 2*n - 1, -1, r.IntN(2 * n), r.IntN(2 * n)} {
					want := make([]int, 0, n)
					for num := 0; num < n; num++ {
						if starts[num] <= q && q < ends[num] {
							want = append(want, num)
						}
					}
					got := ix.At(q)
					if !sameInts(got, want) {
						first := 0
						for first < len(got) && first < len(want) && got[first] == want[first] {
							first++
						}
						k.Failf("at", "pile-up of %d intervals: At(%d) returns %d numbers, want %d ascending; first difference at index %d", n, q, len(got), len(want), first)
						return
					}
					k.Evals(1)
				}
				k.Count("pileup_indexes", 1)
				k.Nontrivial([]byte(fmt.Sprint("pileup", n, variant)))
			})
			idx++
		}
	}
}

// c16Scales: a few hundred to a few thousand overlapping intervals whose
// coordinates SPAN 2^e, for every e from 8 to 62, around a random origin
// (negative ones too): tilings, overlapping windows and random intervals. The
// random units use small coordinates or the very ends of the int range; a sort
// through packed keys, a radix pass, a bucket width or a float conversion goes
// wrong for one particular magnitude in between (2^24, 2^31, 2^52, 2^53 …).
// Every boundary and its neighbours is queried against the scan.
func c16Scales(c *Ctx) {
	idx := int64(0)
	for e := 8; e <= 62; e++ {
		for variant := 0; variant < 2; variant++ {
			c.Case(idx, func(k *K) {
				r := k.Rand()
				n := pick(r, []int{520, 600, 1100, 2100})
				if variant == 1 && k.c.Thorough {
					n = pick(r, []int{5000, 70000})
				}
				span := uint64(1)<<uint(e) + uint64(r.Int64N(1<<uint(e-1)))
				origin := int(r.Int64N(1<<40)) - 1<<39
				if e >= 61 {
					origin = math.MinInt64/2 + r.IntN(1000)
				} else if r.IntN(3) == 0 {
					origin = -int(span / 2)
				}
				step := span / uint64(n)
				starts, ends := make([]int, n), make([]int, n)
				for j := 0; j < n; j++ {
					var st uint64
					if variant == 0 { // overlapping windows: step apart, 1.5 steps long
						st = uint64(j) * step
						starts[j], ends[j] = origin+int(st), origin+int(st+step+step/2)
					} else { // random
						st = uint64(r.Int64N(int64(span - step)))
						starts[j], ends[j] = origin+int(st), origin+int(st+uint64(r.Int64N(int64(2*step+2))))
					}
				}
				r.Shuffle(n, func(a, b int) { starts[a], starts[b] = starts[b], starts[a]; ends[a], ends[b] = ends[b], ends[a] })
				k.Input("intervals", n)
				k.Input("span_bits", e)
				k.Input("origin", origin)
				ix := regions.NewIndex(starts, ends)
				qs := 0
				for j := 0; j < n && qs < 1500; j += 1 + n/500 {
					for _, q := range []int{starts[j] - 1, starts[j], starts[j] + 1, ends[j] - 1, ends[j], ends[j] + 1} {
						if !checkAt(k, ix, starts, ends, q) {
							return
						}
						qs++
					}
				}
				k.Count("scale_indexes", 1)
				k.Nontrivial([]byte(fmt.Sprint("scales", e, variant, n)))
			})
			idx++
		}
	}
}

// c16Tilings: regular layouts (features every `step` positions, each `width`
// long — exons, tiles, windows) of about a thousand and a few thousand
// intervals, every combination of count, step, width, origin and a last
// interval stretched by 0..5: the covered span, the number of intervals and the
// number of distinct endpoints are in every simple ratio to each other
// (equal, double, exact multiples, one off a multiple). Queried at both extremes
// (smallest start, largest end, +-1), at a sample of endpoints and inside gaps.
func c16Tilings(c *Ctx) {
	var counts []int
	for n := 1000; n <= 1100; n++ {
		counts = append(counts, n)
	}
	if c.Thorough {
		for n := 2030; n <= 2070; n++ {
			counts = append(counts, n)
		}
		for n := 4080; n <= 4110; n++ {
			counts = append(counts, n)
		}
		counts = append(counts, 8192, 16384, 65536)
	} else {
		counts = append(counts, 2047, 2048, 2049, 4096)
	}
	for ci, n := range counts {
		c.Case(int64(ci), func(k *K) {
			r := k.Rand()
			origin := pick(r, []int{0, 0, 1, -7, 1000003})
			for step := 2; step <= 5; step++ {
				for width := 1; width <= step; width++ {
					for stretch := 0; stretch <= 5; stretch++ {
						starts, ends := make([]int, n), make([]int, n)
						for x := 0; x < n; x++ {
							starts[x], ends[x] = origin+step*x, origin+step*x+width
						}
						ends[n-1] += stretch
						ix := regions.NewIndex(starts, ends)
						lo, hi := starts[0], ends[n-1]
						queries := []int{lo - 1, lo, lo + 1, hi - 2, hi - 1, hi, hi + 1, (lo + hi) / 2, lo + (hi-lo)/3}
						for q := 0; q < 6; q++ {
							x := r.IntN(n)
							queries = append(queries, starts[x]-1, starts[x], ends[x]-1, ends[x])
						}
						for _, q := range queries {
							// the reference answer of a tiling is known in closed form
							var want []int
							if x := (q - origin) / step; q >= origin && x < n && q < ends[x] {
								want = append(want, x)
							} else if q >= starts[n-1] && q < ends[n-1] {
								want = append(want, n-1)
							}
							var got []int
							if pv := catch(func() { got = ix.At(q) }); pv != nil {
								k.Input("layout", fmt.Sprintf("%d intervals [%d+%d*x, +%d), the last one stretched by %d", n, origin, step, width, stretch))
								k.Failf("panic", "At(%d) on %d tiled intervals spanning [%d,%d) panicked: %v", q, n, lo, hi, pv)
								return
							}
							if !sameInts(got, want) {
								k.Input("layout", fmt.Sprintf("%d intervals [%d+%d*x, +%d), the last one stretched by %d", n, origin, step, width, stretch))
								k.Failf("at", "At(%d) on %d tiled intervals spanning [%d,%d) = %v, want %v", q, n, lo, hi, got, want)
								return
							}
						}
						k.Count("indexes_built", 1)
						k.Count("queries", int64(len(queries)))
						k.Count("queries_on_tilings", int64(len(queries)))
						k.Evals(int64(len(queries)))
					}
				}
			}
			k.Nontrivial([]byte(fmt.Sprint("tilings", n)))
		})
	}
}

// c16Covered: features UNDER deep coverage — D identical or nested wide
// intervals (D = 0, 1, 1023 … 1025, 1500, 2100: read pile-ups) over a range that
// also holds a few dozen small features: abutting ones (one ends exactly where
// the next starts), overlapping ones, ones that start or end together with
// others, ones that begin or end where the cover does. An index that updates
// the open set from piece to piece sees starts and ends coincide while the set
// is deep.
func c16Covered(c *Ctx) {
	depths := []int{0, 1, 1023, 1024, 1025, 1500, 2100, 4095, 4096, 4097, 5000}
	if c.Thorough {
		depths = append(depths, 2047, 2048, 2049, 8191, 8192, 8193, 10000, 20000)
	}
	idx := int64(0)
	for _, d := range depths {
		for layout := 0; layout < c.N(6, 24); layout++ {
			c.Case(idx, func(k *K) {
				r := k.Rand()
				span := 100 + r.IntN(400)
				var starts, ends []int
				small := 10 + r.IntN(40)
				feature := func() {
					w := 1 + r.IntN(span/4)
					var s int
					switch r.IntN(5) {
					case 0: // abuts an earlier feature or the cover
						if len(ends) > 0 {
							s = ends[r.IntN(len(ends))]
						}
					case 1: // ends where an earlier one starts
						if len(starts) > 0 {
							s = starts[r.IntN(len(starts))] - w
						}
					case 2: // starts together with an earlier one
						if len(starts) > 0 {
							s = starts[r.IntN(len(starts))]
						}
					default:
						s = r.IntN(span)
					}
					starts, ends = append(starts, s), append(ends, s+w)
				}
				// features before, between and after the cover intervals (their numbers interleave)
				for i := 0; i < small/2; i++ {
					feature()
				}
				for i := 0; i < d; i++ {
					lo, hi := 0, span
					if layout%3 == 1 { // nested covers
						lo, hi = min(i%7, span/2), span-min(i%5, span/2-1)
					}
					if layout%3 == 2 && i%2 == 1 { // two covers that abut in the middle
						lo = span / 2
					} else if layout%3 == 2 {
						hi = span / 2
					}
					starts, ends = append(starts, lo), append(ends, hi)
				}
				for i := small / 2; i < small; i++ {
					feature()
				}
				k.Input("cover_depth", d)
				k.Input("features", small)
				k.Input("intervals", func() string { return fmt.Sprint(starts, ends) })
				ix := regions.NewIndex(starts, ends)
				qs := map[int]bool{-1: true, span + 1: true}
				for i := range starts {
					for dd := -1; dd <= 1; dd++ {
						qs[starts[i]+dd], qs[ends[i]+dd] = true, true
					}
				}
				for q := range qs {
					if !checkAt(k, ix, starts, ends, q) {
						return
					}
				}
				k.Count("covered_indexes", 1)
				k.Count("queries_under_cover", int64(len(qs)))
				k.Nontrivial([]byte(fmt.Sprint("covered", d, layout)), []byte(fmt.Sprint(starts[:min(len(starts), 30)])))
			})
			idx++
		}
	}
}

// c16ManyProcs: tens of thousands of disjoint features (32 769 … 70 003: more
// than 2^16 distinct coordinates) indexed with GOMAXPROCS set to 3, 4, 5 and 7
// — an index that is built by several workers splits its pieces by the number
// of CPUs, and the counts above leave every remainder. Queried at the edges of
// the first and the LAST features (where a dropped remainder would be) and at a
// sample in between, against the closed-form answer.
func c16ManyProcs(c *Ctx) {
	sizes := []int{32769, 40001, 65537, 70001, 70002, 70003}
	if c.Thorough {
		sizes = append(sizes, 131073, 200003, 1<<20+7)
	}
	idx := int64(0)
	for _, n := range sizes {
		for _, procs := range []int{3, 4, 5, 7} {
			c.Case(idx, func(k *K) {
				r := k.Rand()
				starts, ends := make([]int, n), make([]int, n)
				for x := 0; x < n; x++ {
					starts[x], ends[x] = 10*x, 10*x+5
				}
				k.Input("intervals", n)
				k.Input("GOMAXPROCS", procs)
				old := runtime.GOMAXPROCS(procs)
				ix := regions.NewIndex(starts, ends)
				runtime.GOMAXPROCS(old)
				var xs []int
				for d := 0; d < 12; d++ {
					xs = append(xs, d, n-1-d, r.IntN(n))
				}
				for _, x := range xs {
					for _, q := range []int{10*x - 1, 10 * x, 10*x + 4, 10*x + 5} {
						var want []int
						if q >= 0 && q%10 < 5 && q/10 < n {
							want = []int{q / 10}
						}
						if got := ix.At(q); !sameInts(got, want) {
							k.Failf("at", "index over %d disjoint intervals built with GOMAXPROCS=%d: At(%d) = %v, want %v", n, procs, q, got, want)
							return
						}
						k.Count("queries", 1)
						k.Evals(1)
					}
				}
				k.Count("indexes_built", 1)
				k.Nontrivial([]byte(fmt.Sprint("manyprocs", n, procs)))
			})
			idx++
		}
	}
}
