package main

// "firstparallel" units (-race build): every case is a process of its own in
// which the FIRST calls into the library are made by eight goroutines at the
// same moment, on LONG inputs (prepared beforehand by harness code only). State
// that the library sets up on first use — a table built lazily behind a
// sync.Once, an atomic pointer or a double-checked lock, a pool, a cache for
// "large" inputs — is then being built while other callers arrive: a result
// that differs from the oracle in any goroutine, or a race report, is a
// violation. (The statements hold for every call, whatever runs at the same
// time; the goroutines share nothing but the library.)

import (
	"bytes"
	"fmt"
	"math/rand/v2"
	"sync"

	"github.com/fluhus/biostuff/align"
	"github.com/fluhus/biostuff/formats/newick"
	"github.com/fluhus/biostuff/mash"
	"github.com/fluhus/biostuff/regions"
	"github.com/fluhus/biostuff/sequtil"
	"github.com/fluhus/biostuff/trie"
)

// parCase prepares one goroutine's call: prep runs before the starting gun and
// must not touch the library; the returned function makes the call(s) and
// returns "" or what is wrong.
type parCase struct {
	name string
	prep func(g int, r *rand.Rand) func() string
}

func runParallelPrepared(k *K, goroutines int, pc parCase) {
	r := k.Rand()
	calls := make([]func() string, goroutines)
	for g := range calls {
		calls[g] = pc.prep(g, rand.New(rand.NewPCG(r.Uint64(), r.Uint64())))
	}
	errs := make([]string, goroutines)
	var wg sync.WaitGroup
	start := make(chan struct{})
	for g := 0; g < goroutines; g++ {
		wg.Add(1)
		go func() {
			defer wg.Done()
			defer func() {
				if p := recover(); p != nil {
					errs[g] = fmt.Sprintf("panic: %v", p)
				}
			}()
			<-start
			errs[g] = calls[g]()
		}()
	}
	close(start)
	wg.Wait()
	for g, e := range errs {
		if e != "" {
			k.Failf("first-parallel", "%s, called by %d goroutines at once as the first library calls of a fresh process: goroutine %d: %s", pc.name, goroutines, g, e)
			return
		}
	}
	k.Count("parallel_goroutines", int64(goroutines))
}

func firstParallelUnit(cases []parCase) Unit {
	return Unit{Name: "firstparallel", Race: true, QShards: len(cases), TShards: len(cases), Run: func(c *Ctx) {
		for i, pc := range cases {
			c.Case(int64(i), func(k *K) {
				k.Input("first_calls_of_the_process", pc.name)
				runParallelPrepared(k, 8, pc)
				k.Count("first_parallel_cases", 1)
				k.Nontrivial([]byte("firstparallel"), []byte(pc.name))
			})
		}
		c.Exhaustive(fmt.Sprintf("firstparallel: each of %d long calls as the first, concurrent library calls of its own process", len(cases)))
	}}
}

func short(b []byte) string {
	if len(b) > 60 {
		return fmt.Sprintf("%q… (%d bytes)", b[:60], len(b))
	}
	return fmt.Sprintf("%q", b)
}

func firstDiff(a, b []byte) int {
	for i := 0; i < len(a) && i < len(b); i++ {
		if a[i] != b[i] {
			return i
		}
	}
	return min(len(a), len(b))
}

const parLong = 1<<17 + 5

var parSequtilRC = []parCase{
	{"sequtil.ReverseComplement on 2^17 bases", func(g int, r *rand.Rand) func() string {
		s := seqOrRuns(r, []byte(dna10), parLong+g)
		want := refRevComp(s)
		return func() string {
			if got := sequtil.ReverseComplement(nil, s); !bytes.Equal(got, want) {
				return fmt.Sprintf("result differs from the reference at byte %d: %s", firstDiff(got, want), short(got[max(0, firstDiff(got, want)-10):]))
			}
			return ""
		}
	}},
	{"sequtil.ReverseComplementString on 2^17 bases", func(g int, r *rand.Rand) func() string {
		s := seqOrRuns(r, []byte(dna10), parLong+g)
		want := string(refRevComp(s))
		str := string(s)
		return func() string {
			if got := sequtil.ReverseComplementString(str); got != want {
				return fmt.Sprintf("result differs from the reference at byte %d", firstDiff([]byte(got), []byte(want)))
			}
			return ""
		}
	}},
	{"sequtil.CanonicalSubsequences on 2^17 bases", func(g int, r *rand.Rand) func() string {
		s := seqOrRuns(r, []byte(dna10), parLong+g)
		kk := []int{1, 5, 21, 31, 32, 33, 64, 100}[g%8]
		return func() string {
			j := 0
			for kmer := range sequtil.CanonicalSubsequences(s, kk) {
				if j+kk > len(s) || !bytes.Equal(kmer, refCanonical(s[j:j+kk])) {
					return fmt.Sprintf("k=%d: item %d = %q, want %q", kk, j, kmer, refCanonical(s[j:j+kk]))
				}
				j++
			}
			if j != len(s)-kk+1 {
				return fmt.Sprintf("k=%d: %d items, want %d", kk, j, len(s)-kk+1)
			}
			return ""
		}
	}},
}

var parSequtilPack = []parCase{
	{"sequtil.DNATo2Bit on 2^17 bases", func(g int, r *rand.Rand) func() string {
		s := seqOrRuns(r, []byte(dna8), parLong+g)
		want := refPack(s)
		return func() string {
			if got := sequtil.DNATo2Bit(nil, s); !bytes.Equal(got, want) {
				return fmt.Sprintf("result differs from the reference at byte %d", firstDiff(got, want))
			}
			return ""
		}
	}},
	{"sequtil.DNAFrom2Bit on 2^16 packed bytes", func(g int, r *rand.Rand) func() string {
		p := make([]byte, 1<<16+g)
		for i := range p {
			p[i] = byte(r.IntN(256))
		}
		if g%3 == 0 {
			p = runSeq(r, []byte{0, 0x1b, 0xff, byte(r.IntN(256))}, len(p))
		}
		want := refUnpack(p)
		return func() string {
			if got := sequtil.DNAFrom2Bit(nil, p); !bytes.Equal(got, want) {
				d := firstDiff(got, want)
				return fmt.Sprintf("result differs from the reference at byte %d: %s, want %s", d, short(got[d:]), short(want[d:]))
			}
			return ""
		}
	}},
	{"sequtil.Ntoi / Iton", func(g int, r *rand.Rand) func() string {
		return func() string {
			for b := 0; b < 256; b++ {
				if sequtil.Ntoi(byte(b)) != refCode(byte(b)) {
					return fmt.Sprintf("Ntoi(%d) = %d", b, sequtil.Ntoi(byte(b)))
				}
			}
			if string([]byte{sequtil.Iton(0), sequtil.Iton(1), sequtil.Iton(2), sequtil.Iton(3)}) != "ACGT" {
				return "Iton(0..3) is not ACGT"
			}
			return ""
		}
	}},
}

var parSequtilAmino = []parCase{
	{"sequtil.Translate on 3 x 2^16 bases", func(g int, r *rand.Rand) func() string {
		s := seqOrRuns(r, []byte(dna8), 3*(1<<16+g))
		want := refTranslate(s)
		return func() string {
			if got := sequtil.Translate(nil, s); !bytes.Equal(got, want) {
				return fmt.Sprintf("result differs from the reference at residue %d", firstDiff(got, want))
			}
			return ""
		}
	}},
	{"sequtil.TranslateReadingFrames on 2^20 bases", func(g int, r *rand.Rand) func() string {
		s := seqOrRuns(r, []byte(dna8), 1<<20+g)
		var want [3][]byte
		for f := 0; f < 3; f++ {
			sub := s[f:]
			want[f] = refTranslate(sub[:len(sub)/3*3])
		}
		return func() string {
			got := sequtil.TranslateReadingFrames(s)
			for f := 0; f < 3; f++ {
				if !bytes.Equal(got[f], want[f]) {
					return fmt.Sprintf("frame %d differs from the reference at residue %d (lengths %d, %d)", f, firstDiff(got[f], want[f]), len(got[f]), len(want[f]))
				}
			}
			return ""
		}
	}},
	{"sequtil.TranslateReadingFrames on 2^20 bases, a bad base among the first or last three", func(g int, r *rand.Rand) func() string {
		s := randSeq(r, []byte(dna8), 1<<20+g)
		pos := []int{0, 1, 2, len(s) - 1, len(s) - 2, len(s) - 3, 3, len(s) / 2}[g%8]
		s[pos] = 'N'
		return func() string {
			if !expectPanic(func() { sequtil.TranslateReadingFrames(s) }) {
				return fmt.Sprintf("no panic although base %d of %d is 'N'", pos, len(s))
			}
			return ""
		}
	}},
}

var parMash = []parCase{
	{"mash.Sequences over several sequences of 2^20 bases in all, both cases", func(g int, r *rand.Rand) func() string {
		var seqs, upper [][]byte
		for i := 0; i < 3; i++ {
			s := randSeq(r, []byte("ACGTacgtNn"), 1<<19)
			seqs = append(seqs, s)
			upper = append(upper, bytes.ToUpper(s))
		}
		return func() string {
			a := append([]uint64{}, mash.Sequences(1000, 21, seqs...).View()...)
			b := mash.Sequences(1000, 21, upper...).View()
			if !sameU64(a, b) {
				return "the sketch of soft-masked sequences differs from the sketch of their upper-case form"
			}
			mh := mash.Sequences(1000, 21, seqs[0])
			mash.Add(mh, 21, seqs[1])
			mash.Add(mh, 21, seqs[2])
			if !sameU64(mh.View(), a) {
				return "the sketch built with Add, sequence by sequence, differs from the one built in one call"
			}
			return ""
		}
	}},
}

var parAlign = []parCase{
	{"align.Global and align.Local on tables of 2^20 cells", func(g int, r *rand.Rand) func() string {
		nm := shippedMatrices()[g%len(shippedMatrices())]
		a, b := relatedPair(r, proteinAlphabet, 1100)
		for len(a) < 1000 || len(b) < 1000 {
			a, b = relatedPair(r, proteinAlphabet, 1100)
		}
		want := gotohGlobal(a, b, nm.m)
		return func() string {
			steps, score := align.Global(a, b, nm.m)
			if sc, ca, cb, prob := rescore(a, b, nm.m, steps, 0, 0); prob != "" || ca != len(a) || cb != len(b) || sc != score {
				return fmt.Sprintf("%s: Global's steps do not re-score to its score (%v vs %v, consumed %d/%d of %d/%d) %s", nm.name, sc, score, ca, cb, len(a), len(b), prob)
			}
			if score != want {
				return fmt.Sprintf("%s: Global returned %v, the optimum is %v", nm.name, score, want)
			}
			lsteps, ai, bi, lscore := align.Local(a, b, nm.m)
			if sc, _, _, prob := rescore(a, b, nm.m, lsteps, ai, bi); prob != "" || sc != lscore {
				return fmt.Sprintf("%s: Local's steps do not re-score to its score (%v vs %v) %s", nm.name, sc, lscore, prob)
			}
			return ""
		}
	}},
}

var parRegions = []parCase{
	{"regions.NewIndex over 50000 intervals, then At", func(g int, r *rand.Rand) func() string {
		n := 50000 + g
		starts, ends := make([]int, n), make([]int, n)
		for i := range starts {
			starts[i] = 3 * i
			ends[i] = 3*i + 1 + r.IntN(8)
		}
		return func() string {
			ix := regions.NewIndex(starts, ends)
			for q := 0; q < 2000; q++ {
				p := r.IntN(3 * n)
				var want []int
				for x := max(0, p/3-4); x <= p/3 && x < n; x++ {
					if starts[x] <= p && p < ends[x] {
						want = append(want, x)
					}
				}
				if got := ix.At(p); !sameInts(got, want) {
					return fmt.Sprintf("At(%d) = %v, want %v", p, got, want)
				}
			}
			return ""
		}
	}},
}

var parTrie = []parCase{
	{"trie.Add / Has / ForEach / Delete on 20000 members", func(g int, r *rand.Rand) func() string {
		keys := make([][]byte, 20000)
		set := map[string]bool{}
		for i := range keys {
			keys[i] = append(randSeq(r, []byte("ACGT"), 12), byte(i), byte(i>>8), 0xfe) // no key is a prefix of another
			set[string(keys[i])] = true
		}
		return func() string {
			t := trie.New()
			for _, key := range keys {
				t.Add(key)
			}
			n := 0
			bad := ""
			t.ForEach(func(b []byte) bool {
				n++
				if !set[string(b)] {
					bad = fmt.Sprintf("ForEach reported a non-member %q", b)
				}
				return bad == ""
			})
			if bad != "" || n != len(set) {
				return fmt.Sprintf("ForEach reported %d members, want %d %s", n, len(set), bad)
			}
			for i, key := range keys {
				if !t.Has(key) || !t.Has(key[:5]) || t.Has(append(key[:len(key):len(key)], 1)) {
					return fmt.Sprintf("Has is wrong at member %d", i)
				}
			}
			for i, key := range keys {
				if i%2 == 0 && !t.Delete(key) {
					return fmt.Sprintf("Delete of member %d returned false", i)
				}
			}
			for i, key := range keys {
				if t.Has(key) != (i%2 == 1) {
					return fmt.Sprintf("after deleting every other member, Has(member %d) = %v", i, t.Has(key))
				}
			}
			return ""
		}
	}},
}

var parTree = []parCase{
	{"Node.PreOrder / PostOrder on trees of 300000 nodes", func(g int, r *rand.Rand) func() string {
		var root *newick.Node
		if g%2 == 0 {
			root, _ = randomTree(r, 300000, g%4)
		} else {
			root, _ = armsTree(70000, 3, 70000)
		}
		wantPre, wantPost := refPreOrder(root), refPostOrder(root)
		return func() string {
			i := 0
			for n := range root.PreOrder() {
				if i >= len(wantPre) || n != wantPre[i] {
					return fmt.Sprintf("PreOrder differs from the reference at position %d", i)
				}
				i++
			}
			if i != len(wantPre) {
				return fmt.Sprintf("PreOrder yields %d nodes, want %d", i, len(wantPre))
			}
			i = 0
			for n := range root.PostOrder() {
				if i >= len(wantPost) || n != wantPost[i] {
					return fmt.Sprintf("PostOrder differs from the reference at position %d", i)
				}
				i++
			}
			if i != len(wantPost) {
				return fmt.Sprintf("PostOrder yields %d nodes, want %d", i, len(wantPost))
			}
			return ""
		}
	}},
}
