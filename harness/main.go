package main

// Driver / worker entry points.
//
//	harness run    -prop C01 -tier quick -seed 1 -verif /verif [-racebin path] [-hooks on|off]
//	harness worker -prop C01 -unit roundtrip -tier quick -seed 1 -shard 0 -nshards 1 -only -1 -out file [-trace file]
//	harness replay -file /verif/replay/C01/x.json -verif /verif [-racebin path]
//	harness list

import (
	"bufio"
	"context"
	"crypto/sha256"
	"encoding/binary"
	"encoding/hex"
	"encoding/json"
	"flag"
	"fmt"
	"os"
	"os/exec"
	"path/filepath"
	"runtime"
	"sort"
	"strconv"
	"strings"
	"sync"
	"syscall"
	"time"
)

func main() {
	if len(os.Args) < 2 {
		fmt.Fprintln(os.Stderr, "usage: harness run|worker|replay|list ...")
		os.Exit(2)
	}
	switch os.Args[1] {
	case "run":
		os.Exit(cmdRun(os.Args[2:]))
	case "worker":
		os.Exit(cmdWorker(os.Args[2:]))
	case "replay":
		os.Exit(cmdReplay(os.Args[2:]))
	case "c10witness":
		os.Exit(cmdC10Witness())
	case "filefault":
		os.Exit(cmdFileFault(os.Args[2:]))
	case "needsrace":
		// exit 0 if the property has a unit that wants the -race build
		if len(os.Args) > 2 && registry[os.Args[2]] != nil {
			for _, u := range registry[os.Args[2]].Units {
				if u.Race {
					os.Exit(0)
				}
			}
		}
		os.Exit(1)
	case "list":
		ids := sortedKeys(registry)
		for _, id := range ids {
			var us []string
			for _, u := range registry[id].Units {
				us = append(us, u.Name)
			}
			fmt.Println(id, strings.Join(us, " "))
		}
	default:
		fmt.Fprintln(os.Stderr, "unknown command", os.Args[1])
		os.Exit(2)
	}
}

// ---------------------------------------------------------------- worker

func cmdWorker(args []string) int {
	fs := flag.NewFlagSet("worker", flag.ExitOnError)
	prop := fs.String("prop", "", "")
	unit := fs.String("unit", "", "")
	tier := fs.String("tier", "quick", "")
	seed := fs.Int64("seed", 1, "")
	shard := fs.Int("shard", 0, "")
	nshards := fs.Int("nshards", 1, "")
	only := fs.Int64("only", -1, "")
	out := fs.String("out", "", "")
	trace := fs.String("trace", "", "")
	fs.Parse(args)

	p := registry[*prop]
	if p == nil {
		fmt.Fprintln(os.Stderr, "unknown property", *prop)
		return 2
	}
	var u *Unit
	for i := range p.Units {
		if p.Units[i].Name == *unit {
			u = &p.Units[i]
		}
	}
	if u == nil {
		fmt.Fprintln(os.Stderr, "unknown unit", *unit)
		return 2
	}
	rep := &Report{Property: *prop, Unit: *unit, Shard: *shard, NShards: *nshards,
		Counters: map[string]int64{}, Known: map[string]*Known{}, Exhaustive: map[string]bool{},
		Info: map[string]any{}}
	c := &Ctx{Prop: *prop, Unit: *unit, Thorough: *tier == "thorough", Seed: *seed,
		Shard: *shard, NShards: *nshards, Only: *only, Rep: rep, digests: map[uint64]struct{}{}}
	if *trace != "" {
		f, err := os.Create(*trace)
		if err == nil {
			c.Trace = f
			defer f.Close()
		}
	}
	startWatchdog(c, *tier == "thorough", u.StallSec)
	if p.SelfTest != nil {
		if err := p.SelfTest(); err != nil {
			rep.SelfTestFail = err.Error()
		}
	}
	if rep.SelfTestFail == "" {
		u.Run(c)
	}
	rep.Done = true
	if err := writeReport(*out, rep, c.digests); err != nil {
		fmt.Fprintln(os.Stderr, "cannot write report:", err)
		return 2
	}
	return 0
}

// startWatchdog protects the machine and the run from a library that loops or
// allocates without bound inside a single call (where no monitor gets control
// back): the worker exits with a distinctive status when its heap passes a
// limit or when one case makes no progress for a long time. The driver then
// re-runs the shard in trace mode to pin the case (kind crash / hang).
func startWatchdog(c *Ctx, thorough bool, stallSec int) {
	limitMB := int64(6144)
	if v, err := strconv.ParseInt(os.Getenv("VERIF_MEM_LIMIT_MB"), 10, 64); err == nil && v > 0 {
		limitMB = v
	}
	stall := 5 * time.Minute
	if thorough {
		stall = 15 * time.Minute
	}
	if stallSec > 0 { // units whose cases take milliseconds say so; still two orders of magnitude of slack
		stall = time.Duration(stallSec) * time.Second
		if thorough {
			stall *= 3
		}
	}
	go func() {
		last := int64(-2)
		lastChange := time.Now()
		var ms runtime.MemStats
		for {
			time.Sleep(100 * time.Millisecond)
			runtime.ReadMemStats(&ms)
			if int64(ms.HeapAlloc>>20) > limitMB || int64(ms.StackInuse>>20) > limitMB {
				fmt.Fprintf(os.Stderr, "WATCHDOG: memory limit exceeded (heap %d MiB, stacks %d MiB, limit %d MiB) while running case %d\n",
					ms.HeapAlloc>>20, ms.StackInuse>>20, limitMB, c.curCase.Load())
				os.Exit(3)
			}
			cur := c.curCase.Load()
			if cur != last {
				last, lastChange = cur, time.Now()
			} else if time.Since(lastChange) > stall {
				fmt.Fprintf(os.Stderr, "WATCHDOG: case %d made no progress for %v\n", cur, stall)
				os.Exit(4)
			}
		}
	}()
}

func writeReport(path string, rep *Report, digests map[uint64]struct{}) error {
	b, err := json.Marshal(rep)
	if err != nil {
		return err
	}
	df, err := os.Create(path + ".digests")
	if err != nil {
		return err
	}
	w := bufio.NewWriter(df)
	var buf [8]byte
	for d := range digests {
		binary.LittleEndian.PutUint64(buf[:], d)
		w.Write(buf[:])
	}
	if err := w.Flush(); err != nil {
		return err
	}
	df.Close()
	tmp := path + ".tmp"
	if err := os.WriteFile(tmp, b, 0o644); err != nil {
		return err
	}
	return os.Rename(tmp, path)
}

// ---------------------------------------------------------------- driver

type job struct {
	unit    *Unit
	shard   int
	nshards int
	only    int64
}

type jobResult struct {
	job     job
	rep     *Report
	digests []uint64
	crash   *Violation // synthesized violation for crash / hang
	retried bool
	wall    float64
	err     string // infrastructure problem (inconclusive)
}

type runEnv struct {
	self     string
	racebin  string
	workdir  string
	prop     *Property
	tier     string
	seed     int64
	timeout  time.Duration
	thorough bool
}

func (e *runEnv) workerCmd(ctx context.Context, j job, out, trace string) *exec.Cmd {
	bin := e.self
	if j.unit.Race && e.racebin != "" {
		bin = e.racebin
	}
	args := []string{"worker", "-prop", e.prop.ID, "-unit", j.unit.Name, "-tier", e.tier,
		"-seed", strconv.FormatInt(e.seed, 10), "-shard", strconv.Itoa(j.shard),
		"-nshards", strconv.Itoa(j.nshards), "-only", strconv.FormatInt(j.only, 10), "-out", out}
	if trace != "" {
		args = append(args, "-trace", trace)
	}
	cmd := exec.CommandContext(ctx, bin, args...)
	cmd.Cancel = func() error { return cmd.Process.Signal(syscall.SIGQUIT) }
	cmd.WaitDelay = 10 * time.Second
	return cmd
}

// runJob executes one worker; on a crash or watchdog kill it re-runs the job in
// trace mode to pin the case.
func (e *runEnv) runJob(j job) jobResult {
	res := jobResult{job: j}
	base := filepath.Join(e.workdir, fmt.Sprintf("%s.%d", j.unit.Name, j.shard))
	t0 := time.Now()
	rep, digests, logtail, timedOut := e.attempt(j, base, "", e.timeout)
	if rep != nil {
		res.rep, res.digests = rep, digests
		res.wall = time.Since(t0).Seconds()
		return res
	}
	// Crash or timeout: re-run alone in trace mode with a much larger budget.
	res.retried = true
	trace := base + ".trace"
	rep2, digests2, logtail2, timedOut2 := e.attempt(j, base+".retry", trace, e.timeout*5)
	res.wall = time.Since(t0).Seconds()
	if rep2 != nil {
		if timedOut {
			// Load, not behaviour: results of the retry are used.
			res.rep, res.digests = rep2, digests2
			return res
		}
		// Crashed once, passed on retry: nondeterministic crash. Report it,
		// the library is deterministic and single-threaded.
		res.rep, res.digests = rep2, digests2
		res.crash = &Violation{Property: e.prop.ID, Unit: j.unit.Name, Index: -1, Kind: "crash-nondeterministic",
			Message: "worker crashed once and completed on retry; first log tail:\n" + logtail, Seed: e.seed, Tier: e.tier}
		return res
	}
	idx := int64(-1)
	if b, err := os.ReadFile(trace); err == nil && len(b) >= 20 {
		idx, _ = strconv.ParseInt(strings.TrimLeft(strings.TrimSpace(string(b[:20])), "0"), 10, 64)
		if strings.TrimLeft(strings.TrimSpace(string(b[:20])), "0") == "" {
			idx = 0
		}
	}
	kind := "crash"
	if timedOut2 {
		kind = "hang"
	}
	if idx < 0 {
		res.err = fmt.Sprintf("worker %s/%d failed before its first case (%s); log tail:\n%s", j.unit.Name, j.shard, kind, logtail2)
		return res
	}
	res.crash = &Violation{Property: e.prop.ID, Unit: j.unit.Name, Index: idx, Kind: kind,
		Message: fmt.Sprintf("worker died (%s) while running case %d; log tail:\n%s", kind, idx, logtail2),
		Seed:    e.seed, Tier: e.tier}
	return res
}

func (e *runEnv) attempt(j job, base, trace string, timeout time.Duration) (*Report, []uint64, string, bool) {
	out := base + ".json"
	os.Remove(out)
	ctx, cancel := context.WithTimeout(context.Background(), timeout)
	defer cancel()
	cmd := e.workerCmd(ctx, j, out, trace)
	logf, err := os.Create(base + ".log")
	if err != nil {
		return nil, nil, err.Error(), false
	}
	cmd.Stdout, cmd.Stderr = logf, logf
	env := os.Environ()
	if j.unit.Race {
		env = append(env, "GORACE=halt_on_error=0 exitcode=0 log_path="+base+".race")
	}
	cmd.Env = env
	runErr := cmd.Run()
	logf.Close()
	timedOut := ctx.Err() == context.DeadlineExceeded
	if ee, ok := runErr.(*exec.ExitError); ok && ee.ExitCode() == 4 {
		timedOut = true // stalled case, see startWatchdog
	}
	b, rerr := os.ReadFile(out)
	if rerr == nil && runErr == nil {
		rep := &Report{}
		if json.Unmarshal(b, rep) == nil && rep.Done {
			var digests []uint64
			if db, err := os.ReadFile(out + ".digests"); err == nil {
				for i := 0; i+8 <= len(db); i += 8 {
					digests = append(digests, binary.LittleEndian.Uint64(db[i:]))
				}
			}
			if j.unit.Race {
				n := countRaceReports(base + ".race")
				rep.Counters["race_reports"] += int64(n)
				if n > 0 {
					rep.NViolations++
					rep.Violations = append(rep.Violations, Violation{Property: e.prop.ID, Unit: j.unit.Name, Index: -1,
						Kind: "data-race", Message: fmt.Sprintf("%d race report(s):\n%s", n, tailOfRace(base+".race")), Seed: e.seed, Tier: e.tier})
				}
			}
			return rep, digests, "", timedOut
		}
	}
	return nil, nil, tailFile(base+".log", 4000), timedOut
}

func countRaceReports(prefix string) int {
	files, _ := filepath.Glob(prefix + ".*")
	n := 0
	for _, f := range files {
		b, err := os.ReadFile(f)
		if err == nil {
			n += strings.Count(string(b), "WARNING: DATA RACE")
		}
	}
	return n
}

func tailOfRace(prefix string) string {
	files, _ := filepath.Glob(prefix + ".*")
	for _, f := range files {
		b, err := os.ReadFile(f)
		if err == nil && len(b) > 0 {
			if len(b) > 4000 {
				b = b[:4000]
			}
			return string(b)
		}
	}
	return ""
}

func tailFile(path string, n int) string {
	b, err := os.ReadFile(path)
	if err != nil {
		return ""
	}
	if len(b) > n {
		// keep the head too: a panic message comes first, the dump after it
		return string(b[:n/2]) + "\n…\n" + string(b[len(b)-n/2:])
	}
	return string(b)
}

func cmdRun(args []string) int {
	fs := flag.NewFlagSet("run", flag.ExitOnError)
	propID := fs.String("prop", "", "")
	tier := fs.String("tier", "quick", "")
	seed := fs.Int64("seed", 1, "")
	verif := fs.String("verif", "/verif", "")
	racebin := fs.String("racebin", "", "")
	hooks := fs.String("hooks", "on", "")
	workdir := fs.String("workdir", "", "")
	covinfo := fs.String("covdir", "", "GOCOVERDIR of a -cover build; anchor-function coverage is embedded in the evidence (optional)")
	outdir := fs.String("out", "", "directory for evidence/ and replay/ (default: the verif directory)")
	fs.Parse(args)
	if *outdir == "" {
		*outdir = *verif
	}

	p := registry[*propID]
	if p == nil {
		fmt.Fprintln(os.Stderr, "unknown property", *propID)
		return 2
	}
	self, _ := os.Executable()
	wd := *workdir
	if wd == "" {
		d, err := os.MkdirTemp("", "verif-run-")
		if err != nil {
			fmt.Fprintln(os.Stderr, err)
			return 2
		}
		wd = d
		defer os.RemoveAll(d)
	}
	env := &runEnv{self: self, racebin: *racebin, workdir: wd, prop: p, tier: *tier, seed: *seed,
		thorough: *tier == "thorough"}
	env.timeout = 20 * time.Minute
	if env.thorough {
		env.timeout = 90 * time.Minute
	}
	t0 := time.Now()

	var jobs []job
	for i := range p.Units {
		u := &p.Units[i]
		if u.Thorough && !env.thorough {
			continue
		}
		n := u.QShards
		if env.thorough {
			n = u.TShards
		}
		if n < 1 {
			n = 1
		}
		for s := 0; s < n; s++ {
			jobs = append(jobs, job{unit: u, shard: s, nshards: n, only: -1})
		}
	}
	results := runJobs(env, jobs)
	return finish(env, results, *verif, *outdir, *hooks, *covinfo, time.Since(t0).Seconds(), false)
}

func runJobs(env *runEnv, jobs []job) []jobResult {
	results := make([]jobResult, len(jobs))
	sem := make(chan struct{}, max(2, runtime.NumCPU()))
	var wg sync.WaitGroup
	for i := range jobs {
		wg.Add(1)
		go func(i int) {
			defer wg.Done()
			sem <- struct{}{}
			defer func() { <-sem }()
			results[i] = env.runJob(jobs[i])
		}(i)
	}
	wg.Wait()
	return results
}

// openFindings reads the ids of open known findings of a property.
func openFindings(verif, prop string) map[string]string {
	m := map[string]string{}
	b, err := os.ReadFile(filepath.Join(verif, "KNOWN_FINDINGS.txt"))
	if err != nil {
		return m
	}
	for _, line := range strings.Split(string(b), "\n") {
		line = strings.TrimSpace(line)
		if !strings.HasPrefix(line, "open:") {
			continue
		}
		f := strings.Fields(line)
		var pid, id string
		for _, w := range f {
			if strings.HasPrefix(w, "property=") {
				pid = strings.TrimPrefix(w, "property=")
			}
			if strings.HasPrefix(w, "id=") {
				id = strings.TrimPrefix(w, "id=")
			}
		}
		if pid == prop && id != "" {
			m[id] = line
		}
	}
	return m
}

func finish(env *runEnv, results []jobResult, verif, outdir, hooks, covinfo string, wall float64, replay bool) int {
	p := env.prop
	var evals, distinctBC, nviol int64
	digests := map[uint64]struct{}{}
	counters := map[string]map[string]int64{}
	total := map[string]int64{}
	var samples []Sample
	var viols []Violation
	known := map[string]*Known{}
	exhaustive := map[string]bool{}
	info := map[string]any{}
	var inconclusive []string
	retries := 0
	unitWall := map[string]float64{}
	for _, r := range results {
		if r.retried {
			retries++
		}
		if r.err != "" {
			inconclusive = append(inconclusive, r.err)
		}
		if r.crash != nil {
			viols = append(viols, *r.crash)
			nviol++
		}
		if r.rep == nil {
			continue
		}
		unitWall[r.job.unit.Name] += r.wall
		rep := r.rep
		if rep.SelfTestFail != "" {
			inconclusive = append(inconclusive, fmt.Sprintf("oracle self-test failed in %s: %s", rep.Unit, rep.SelfTestFail))
		}
		evals += rep.Evaluations
		distinctBC += rep.DistinctBC
		nviol += rep.NViolations
		for _, d := range r.digests {
			digests[d] = struct{}{}
		}
		cm := counters[rep.Unit]
		if cm == nil {
			cm = map[string]int64{}
			counters[rep.Unit] = cm
		}
		for k, v := range rep.Counters {
			cm[k] += v
			total[k] += v
		}
		if len(samples) < 12 {
			samples = append(samples, rep.Samples...)
		}
		viols = append(viols, rep.Violations...)
		for id, kn := range rep.Known {
			if known[id] == nil {
				known[id] = &Known{What: kn.What, Witness: kn.Witness}
			}
			known[id].Count += kn.Count
		}
		for k := range rep.Exhaustive {
			exhaustive[k] = true
		}
		for k, v := range rep.Info {
			info[rep.Unit+"."+k] = v
		}
	}
	// A sub-space is exhaustive only if every shard of its unit completed.
	for _, r := range results {
		if r.rep == nil {
			for k := range exhaustive {
				if strings.HasPrefix(k, r.job.unit.Name+":") {
					delete(exhaustive, k)
				}
			}
		}
	}

	// Known findings: only those listed as open in KNOWN_FINDINGS.txt are tolerated.
	open := openFindings(verif, p.ID)
	var knownLines []string
	for _, id := range sortedKeys(known) {
		kn := known[id]
		if _, ok := open[id]; ok {
			knownLines = append(knownLines, fmt.Sprintf("KNOWN-FINDING: property=%s id=%s %s (matched %d executions this run)", p.ID, id, kn.What, kn.Count))
		} else {
			nviol++
			viols = append(viols, Violation{Property: p.ID, Unit: "known-findings", Index: -1, Kind: "unlisted-finding",
				Message: fmt.Sprintf("finding %q matched %d executions but is not listed as open in KNOWN_FINDINGS.txt: %s", id, kn.Count, kn.What),
				Inputs:  kn.Witness, Seed: env.seed, Tier: env.tier})
		}
	}

	// Minimum event counts (only meaningful for full runs).
	if !replay {
		for _, name := range sortedKeys(p.MinEvents) {
			minv := p.MinEvents[name]
			if strings.HasPrefix(name, "thorough:") {
				if !env.thorough {
					continue
				}
			}
			key := strings.TrimPrefix(name, "thorough:")
			if total[key] < minv {
				inconclusive = append(inconclusive, fmt.Sprintf("event %q observed %d times, need at least %d", key, total[key], minv))
			}
		}
	}

	distinct := int64(len(digests)) + distinctBC

	// Replay files and VIOLATION lines.
	sort.SliceStable(viols, func(i, j int) bool {
		if viols[i].Unit != viols[j].Unit {
			return viols[i].Unit < viols[j].Unit
		}
		return viols[i].Index < viols[j].Index
	})
	var replayPaths []string
	seen := map[string]bool{}
	for _, v := range viols {
		key := fmt.Sprintf("%s/%s/%d", v.Unit, v.Kind, v.Index)
		if seen[key] {
			continue
		}
		seen[key] = true
		if len(replayPaths) >= 6 {
			continue
		}
		b, _ := json.MarshalIndent(v, "", " ")
		sum := sha256.Sum256(b)
		dir := filepath.Join(outdir, "replay", p.ID)
		os.MkdirAll(dir, 0o755)
		path := filepath.Join(dir, fmt.Sprintf("%s-%s.json", v.Unit, hex.EncodeToString(sum[:6])))
		if err := os.WriteFile(path, append(b, '\n'), 0o644); err != nil {
			fmt.Fprintln(os.Stderr, "cannot write replay file:", err)
		}
		replayPaths = append(replayPaths, path)
		msg := v.Message
		if i := strings.IndexByte(msg, '\n'); i >= 0 {
			msg = msg[:i]
		}
		if len(msg) > 300 {
			msg = msg[:300] + "…"
		}
		fmt.Printf("VIOLATION property=%s replay=%s\n", p.ID, path)
		fmt.Printf("  unit=%s case=%d kind=%s: %s\n", v.Unit, v.Index, v.Kind, msg)
	}
	if nviol > int64(len(replayPaths)) {
		fmt.Printf("  (%d violating executions in total; %d replay files written)\n", nviol, len(replayPaths))
	}
	for _, l := range knownLines {
		fmt.Println(l)
	}
	for _, m := range inconclusive {
		fmt.Printf("INCONCLUSIVE property=%s %s\n", p.ID, m)
	}

	if !replay {
		var exh []string
		for k := range exhaustive {
			exh = append(exh, k)
		}
		sort.Strings(exh)
		sampleList := make([]any, 0, len(samples))
		for _, s := range samples {
			sampleList = append(sampleList, s)
		}
		if len(sampleList) == 0 {
			sampleList = append(sampleList, "no sample recorded")
		}
		cov := map[string]any{
			"evaluations":          evals,
			"distinct_nontrivial":  distinct,
			"rule":                 p.Rule,
			"samples":              sampleList,
			"exhaustive":           false,
			"exhaustive_subspaces": exh,
			"events_per_unit":      counters,
			"events_total":         total,
			"workers":              len(results),
			"worker_retries":       retries,
			"unit_wall_s":          unitWall,
			"hooks":                hooks,
			"info":                 info,
		}
		if len(known) > 0 {
			cov["known_findings"] = known
		}
		if len(inconclusive) > 0 {
			cov["inconclusive"] = inconclusive
		}
		if covinfo != "" {
			cov["anchor_coverage"] = anchorCoverage(verif, covinfo, p.ID)
		}
		assumptions := p.Assumptions
		if assumptions == nil {
			assumptions = []string{}
		}
		ev := map[string]any{
			"property_id": p.ID,
			"tier":        env.tier,
			"seed":        env.seed,
			"level":       p.Level,
			"coverage":    cov,
			"assumptions": assumptions,
			"wall_s":      wall,
			"violations":  nviol,
		}
		b, _ := json.MarshalIndent(ev, "", " ")
		os.MkdirAll(filepath.Join(outdir, "evidence"), 0o755)
		if err := os.WriteFile(filepath.Join(outdir, "evidence", p.ID+".json"), append(b, '\n'), 0o644); err != nil {
			fmt.Fprintln(os.Stderr, "cannot write evidence:", err)
			return 2
		}
	}
	fmt.Printf("SUMMARY property=%s tier=%s seed=%d evaluations=%d distinct_nontrivial=%d violations=%d known=%d wall=%.1fs\n",
		p.ID, env.tier, env.seed, evals, distinct, nviol, len(knownLines), wall)
	if nviol > 0 {
		return 1
	}
	if len(inconclusive) > 0 {
		return 2
	}
	return 0
}

// anchorCoverage merges the coverage counters written by the workers of a
// -cover build and returns the statement coverage of every function in the
// property's anchored files.
func anchorCoverage(verif, covdir, prop string) map[string]string {
	anchors := map[string]bool{}
	if b, err := os.ReadFile(filepath.Join(verif, "properties.jsonl")); err == nil {
		for _, line := range strings.Split(string(b), "\n") {
			var p struct {
				ID      string `json:"id"`
				Anchors struct {
					Files []string `json:"files"`
				} `json:"anchors"`
			}
			if json.Unmarshal([]byte(line), &p) == nil && p.ID == prop {
				for _, f := range p.Anchors.Files {
					anchors[f] = true
				}
			}
		}
	}
	cmd := exec.Command("go", "tool", "covdata", "func", "-i="+covdir)
	cmd.Env = append(os.Environ(), "GOFLAGS=-mod=mod", "GOTOOLCHAIN=local")
	out, err := cmd.Output()
	m := map[string]string{}
	if err != nil {
		m["error"] = "go tool covdata failed: " + err.Error()
		return m
	}
	const prefix = "github.com/fluhus/biostuff/"
	for _, line := range strings.Split(string(out), "\n") {
		f := strings.Fields(line)
		if len(f) != 3 || !strings.HasPrefix(f[0], prefix) {
			continue
		}
		loc := strings.TrimPrefix(f[0], prefix) // file.go:line:
		file := loc
		if i := strings.Index(loc, ":"); i >= 0 {
			file = loc[:i]
		}
		if anchors[file] {
			m[file+" "+f[1]] = f[2]
		}
	}
	return m
}

// ---------------------------------------------------------------- replay

func cmdReplay(args []string) int {
	fs := flag.NewFlagSet("replay", flag.ExitOnError)
	file := fs.String("file", "", "")
	verif := fs.String("verif", "/verif", "")
	racebin := fs.String("racebin", "", "")
	outdir := fs.String("out", "", "")
	fs.Parse(args)
	if *outdir == "" {
		*outdir = *verif
	}
	b, err := os.ReadFile(*file)
	if err != nil {
		fmt.Fprintln(os.Stderr, err)
		return 2
	}
	var v Violation
	if err := json.Unmarshal(b, &v); err != nil {
		fmt.Fprintln(os.Stderr, "bad replay file:", err)
		return 2
	}
	p := registry[v.Property]
	if p == nil {
		fmt.Fprintln(os.Stderr, "unknown property", v.Property)
		return 2
	}
	self, _ := os.Executable()
	wd, err := os.MkdirTemp("", "verif-replay-")
	if err != nil {
		fmt.Fprintln(os.Stderr, err)
		return 2
	}
	defer os.RemoveAll(wd)
	env := &runEnv{self: self, racebin: *racebin, workdir: wd, prop: p, tier: v.Tier, seed: v.Seed,
		thorough: v.Tier == "thorough", timeout: 30 * time.Minute}
	var jobs []job
	for i := range p.Units {
		u := &p.Units[i]
		if u.Name != v.Unit {
			continue
		}
		if v.Index >= 0 {
			jobs = append(jobs, job{unit: u, shard: 0, nshards: 1, only: v.Index})
		} else {
			n := u.QShards
			if env.thorough {
				n = u.TShards
			}
			if n < 1 {
				n = 1
			}
			for s := 0; s < n; s++ {
				jobs = append(jobs, job{unit: u, shard: s, nshards: n, only: -1})
			}
		}
	}
	if len(jobs) == 0 {
		fmt.Fprintf(os.Stderr, "replay: unit %q not found in %s\n", v.Unit, v.Property)
		return 2
	}
	fmt.Printf("replaying property=%s unit=%s case=%d seed=%d tier=%s\n", v.Property, v.Unit, v.Index, v.Seed, v.Tier)
	results := runJobs(env, jobs)
	rc := finish(env, results, *verif, *outdir, "n/a", "", 0, true)
	if rc == 0 {
		fmt.Println("NOT REPRODUCED on the current tree")
	}
	return rc
}
