package main

// C08 — alignments are valid and score what they claim.
// C09 — zero gap-open => optimal.
// C10 — non-zero gap-open => optimal (one open known finding).

import (
	"bytes"
	"fmt"
	"math"
	"math/rand/v2"
	"sort"

	"github.com/fluhus/biostuff/align"
)

func stepsString(s []align.Step) string {
	b := make([]byte, len(s))
	for i, x := range s {
		switch x {
		case align.Match:
			b[i] = 'M'
		case align.Deletion:
			b[i] = 'D'
		case align.Insertion:
			b[i] = 'I'
		default:
			b[i] = '?'
		}
	}
	return string(b)
}

func matrixDesc(m align.SubstitutionMatrix) func() string {
	return func() string {
		if len(m) > 200 {
			return fmt.Sprintf("matrix with %d entries, gap-open %v", len(m), m[[2]byte{gapB, gapB}])
		}
		return matrixString(m)
	}
}

func copyMatrix(m align.SubstitutionMatrix) map[[2]byte]float64 {
	c := make(map[[2]byte]float64, len(m))
	for k, v := range m {
		c[k] = v
	}
	return c
}

type alignOpts struct {
	validity   bool // C08 monitors
	optimal    bool // compare with the Gotoh optimum
	knownC10   bool // sub-optimal results that match the single-state model are the known finding
	local      bool // also run Local (matrix must have non-positive gap scores and gap-open)
	localScore bool // run Local and judge its score only (C09: any zero-gap-open matrix, gap scores of any sign)
	snapshotM  bool
	propForMsg string
}

// alignCase runs Global (and Local) on one input and applies the monitors.
func alignCase(k *K, a, b []byte, m align.SubstitutionMatrix, o alignOpts) {
	// Every other case passes a and b as windows of one buffer (in either
	// order), with capacity running on into the neighbouring data.
	if (len(a)+len(b))%2 == 1 && len(a)+len(b) < 2000 {
		r := k.Rand()
		var ar *arenaT
		if r.IntN(2) == 0 {
			ar = newArena(r, a, b)
			a, b = ar.parts[0], ar.parts[1]
		} else {
			ar = newArena(r, b, a)
			b, a = ar.parts[0], ar.parts[1]
		}
		k.Count("arena_cases", 1)
		defer func() { arenaFail(k, ar, "Global/Local") }()
	}
	a0, b0 := append([]byte{}, a...), append([]byte{}, b...)
	var m0 map[[2]byte]float64
	if o.snapshotM {
		m0 = copyMatrix(m)
	}
	steps, score := align.Global(a, b, m)
	k.Count("global_calls", 1)
	if o.validity {
		rs, ca, cb, prob := rescore(a, b, m, steps, 0, 0)
		switch {
		case prob != "":
			k.Failf("global-invalid-steps", "Global steps %s: %s", stepsString(steps), prob)
		case ca != len(a) || cb != len(b):
			k.Failf("global-not-global", "Global steps %s consume %d of %d characters of a and %d of %d of b", stepsString(steps), ca, len(a), cb, len(b))
		case rs != score:
			k.Failf("global-score-mismatch", "Global returned score %v but its steps %s score %v under the documented scoring", score, stepsString(steps), rs)
		}
		k.Count("global_rescored", 1)
		if len(steps) > 0 {
			k.Count("global_steps", int64(len(steps)))
		}
	}
	if o.optimal {
		opt := gotohGlobal(a, b, m)
		switch {
		case score > opt:
			k.Failf("global-above-optimum", "Global returned %v, above the optimum %v of all alignments", score, opt)
		case score < opt:
			if o.knownC10 && score == singleStateGlobal(a, b, m) {
				k.Input("function", "Global")
				k.Input("returned", score)
				k.Input("optimum", opt)
				k.KnownFinding("single-state-recurrence", "align.Global/Local with non-zero gap-open return the value of the single-state recurrence, below the affine optimum when two gap placements compete")
				k.Count("global_known_suboptimal", 1)
			} else {
				k.Failf("global-suboptimal", "Global returned %v (steps %s) but an alignment scoring %v exists", score, stepsString(steps), opt)
			}
		default:
			k.Count("global_optimal", 1)
		}
	}
	if o.local || o.localScore {
		lsteps, ai, bi, lscore := align.Local(a, b, m)
		k.Count("local_calls", 1)
		if o.localScore && !o.local {
			k.Count("local_any_sign_gap_calls", 1)
		}
		if o.validity && o.local {
			if len(lsteps) == 0 {
				if lscore != 0 {
					k.Failf("local-empty-score", "Local returned no steps but score %v", lscore)
				}
				k.Count("local_empty", 1)
			} else {
				rs, _, _, prob := rescore(a, b, m, lsteps, ai, bi)
				switch {
				case prob != "":
					k.Failf("local-invalid-steps", "Local steps %s from (%d,%d): %s", stepsString(lsteps), ai, bi, prob)
				case rs != lscore:
					k.Failf("local-score-mismatch", "Local returned score %v but its steps %s from (%d,%d) score %v", lscore, stepsString(lsteps), ai, bi, rs)
				case lscore <= 0:
					k.Failf("local-nonpositive", "Local returned steps %s with non-positive score %v", stepsString(lsteps), lscore)
				}
				k.Count("local_rescored", 1)
			}
		}
		if o.optimal {
			opt := gotohLocal(a, b, m)
			switch {
			case lscore > opt:
				k.Failf("local-above-optimum", "Local returned %v, above the optimum %v over all substring pairs", lscore, opt)
			case lscore < opt:
				if o.knownC10 && lscore == singleStateLocal(a, b, m) {
					k.Input("function", "Local")
					k.Input("returned", lscore)
					k.Input("optimum", opt)
					k.KnownFinding("single-state-recurrence", "align.Global/Local with non-zero gap-open return the value of the single-state recurrence, below the affine optimum when two gap placements compete")
					k.Count("local_known_suboptimal", 1)
				} else {
					k.Failf("local-suboptimal", "Local returned %v (steps %s from %d,%d) but a local alignment scoring %v exists", lscore, stepsString(lsteps), ai, bi, opt)
				}
			default:
				k.Count("local_optimal", 1)
			}
		}
	}
	if !bytes.Equal(a, a0) || !bytes.Equal(b, b0) {
		k.Failf("input-modified", "a or b was modified: a %q -> %q, b %q -> %q", a0, a, b0, b)
	}
	if o.snapshotM {
		if d := sameMatrix(m, m0); d != "" {
			k.Failf("matrix-modified", "the substitution matrix was modified: %s", d)
		}
	}
}

// smallScope runs every pair of strings over alpha up to maxLen with nm random
// matrices drawn by gen, as batch cases (one case per matrix).
func smallScope(c *Ctx, base int64, alpha []byte, maxLen, nm int, gen func(r *rand.Rand, mi int) (align.SubstitutionMatrix, bool), o alignOpts) int64 {
	strs := allStrings(alpha, maxLen)
	for mi := 0; mi < nm; mi++ {
		c.Case(base+int64(mi), func(k *K) {
			m, local := gen(k.Rand(), mi)
			oo := o
			oo.local = local
			if o.localScore && !local {
				oo.localScore = true
			} else {
				oo.localScore = false
			}
			oo.snapshotM = true
			k.Input("matrix", matrixDesc(m))
			for _, a := range strs {
				for _, b := range strs {
					k.Input("a", a)
					k.Input("b", b)
					alignCase(k, a, b, m, oo)
					k.Evals(1)
					oo.snapshotM = false
					if k.Failed() {
						return
					}
				}
			}
			k.DistinctBC(int64(len(strs)*len(strs)) - 1)
			k.Nontrivial([]byte(matrixString(m)))
		})
	}
	return base + int64(nm)
}

var proteinAlphabet = []byte("ABCDEFGHIKLMNPQRSTVWXYZ")

type namedMatrix struct {
	name string
	m    align.SubstitutionMatrix
}

func shippedMatrices() []namedMatrix {
	return []namedMatrix{{"PAM120", align.PAM120}, {"PAM160", align.PAM160}, {"PAM250", align.PAM250},
		{"BLOSUM45", align.BLOSUM45}, {"BLOSUM62", align.BLOSUM62}, {"BLOSUM80", align.BLOSUM80}}
}

func randSeq(r *rand.Rand, alpha []byte, n int) []byte {
	s := make([]byte, n)
	for i := range s {
		s[i] = alpha[r.IntN(len(alpha))]
	}
	return s
}

// relatedPair derives b from a by point edits so that real alignments exist.
func relatedPair(r *rand.Rand, alpha []byte, maxLen int) ([]byte, []byte) {
	a := randSeq(r, alpha, r.IntN(maxLen+1))
	if r.IntN(4) == 0 {
		return a, randSeq(r, alpha, r.IntN(maxLen+1))
	}
	if r.IntN(6) == 0 && len(a) > 0 {
		// one sequence is EXACTLY a prefix, a suffix or an inner part of the other (or the two are identical),
		// a being the longer or the shorter one, and usually long (>= 64): what a shortcut would test for
		if maxLen >= 100 && len(a) < 70 {
			a = randSeq(r, alpha, 64+r.IntN(maxLen-63))
		}
		cut := r.IntN(min(len(a), 6) + 1)
		var b []byte
		switch r.IntN(4) {
		case 0:
			b = a[:len(a)-cut]
		case 1:
			b = a[cut:]
		case 2:
			b = a[cut/2 : len(a)-(cut-cut/2)]
		default:
			b = a
		}
		b = append([]byte{}, b...)
		if r.IntN(2) == 0 {
			a, b = b, a
		}
		return a, b
	}
	b := append([]byte{}, a...)
	for e := r.IntN(1 + len(a)/3 + 2); e > 0; e-- {
		switch r.IntN(3) {
		case 0:
			if len(b) > 0 {
				b[r.IntN(len(b))] = alpha[r.IntN(len(alpha))]
			}
		case 1:
			if len(b) > 0 {
				i := r.IntN(len(b))
				j := min(len(b), i+1+r.IntN(4))
				b = append(b[:i], b[j:]...)
			}
		default:
			i := r.IntN(len(b) + 1)
			ins := randSeq(r, alpha, 1+r.IntN(4))
			b = append(b[:i], append(ins, b[i:]...)...)
		}
	}
	if len(b) > maxLen {
		b = b[:maxLen]
	}
	return a, b
}

// longGapCase builds a pair whose best alignment contains one long gap (two
// well-matching flanks around an insert of 129..600 characters in one of the
// sequences) and a matrix under which that is worthwhile. open: gap-open.
func longGapCase(r *rand.Rand, open float64) (a, b []byte, m align.SubstitutionMatrix) {
	alpha := []byte("acgt")
	m = align.SubstitutionMatrix{}
	for _, x := range alpha {
		for _, y := range alpha {
			v := -4.0
			if x == y {
				v = 5
			}
			m[[2]byte{x, y}] = v
		}
		ext := -float64(r.IntN(2)) / 4 // 0 or -0.25 per gapped character
		m[[2]byte{x, gapB}] = ext
		m[[2]byte{gapB, x}] = ext
	}
	m[[2]byte{gapB, gapB}] = open
	f1 := randSeq(r, []byte("acg"), 20+r.IntN(30))
	f2 := randSeq(r, []byte("acg"), 20+r.IntN(30))
	ins := bytes.Repeat([]byte("t"), pick(r, []int{127, 128, 129, 130, 150, 255, 256, 257, 300, 600}))
	long := append(append(append([]byte{}, f1...), ins...), f2...)
	short := append(append([]byte{}, f1...), f2...)
	if r.IntN(2) == 0 {
		return long, short, m
	}
	return short, long, m
}

func init() {
	register(&Property{
		ID:    "C08",
		Level: "exploration",
		Rule: "every pair of strings up to a length bound over 2-3 letter alphabets x random integer matrices (symmetric and asymmetric, m[x,Gap] != m[Gap,x], gap-open in {0,-1,-3,-7}; Local only with non-positive gap scores, Global with any sign), " +
			"plus random related pairs up to length 300 over the protein alphabet with every shipped matrix and Levenshtein over random bytes; each result is re-scored by an independent walker; " +
			"readers unit: the calls run while reader goroutines read the protected memory, -race build reports any write to it (also one undone before returning); " +
			"non-trivial = pair with both sequences non-empty; distinct by construction in the exhaustive scope, by hash of (a,b,matrix) otherwise",
		Assumptions: []string{"byte 255 never occurs in sequences", "matrix entries are integers or dyadic fractions so that every summation order gives the same float",
			"Local is exercised only with non-positive gap scores and gap-open; when Local returns no steps its offsets are unspecified and not checked"},
		MinEvents: map[string]int64{"global_rescored": 10000, "local_rescored": 3000, "local_empty": 100},
		SelfTest:  alignSelfTest,
		Units: []Unit{
			{Name: "small", QShards: 4, TShards: 12, Run: c08Small},
			{Name: "random", QShards: 2, TShards: 8, Run: c08Random},
			{Name: "shipped", TShards: 4, Run: c08Shipped},
			{Name: "reuse", TShards: 4, Run: func(c *Ctx) { alignReuse(c, alignOpts{validity: true}, 0) }},
			{Name: "readers", Race: true, QShards: 2, TShards: 4, Run: c08Readers},
			{Name: "large", QShards: 4, TShards: 8, Run: func(c *Ctx) { alignLarge(c, alignOpts{validity: true}, c08Gen) }},
			{Name: "thin", QShards: 3, TShards: 5, Run: func(c *Ctx) { alignThin(c, alignOpts{validity: true}, -2) }},
			{Name: "needles", QShards: 4, TShards: 8, Run: alignNeedles},
			{Name: "srcviews", Run: srcViewUnit(alignViewCalls(-2))},
			{Name: "parallel", Race: true, Run: alignParallel},
			firstCallUnit(firstAlign("C08")),
			firstParallelUnit(parAlign),
			reuseUnit(reuseAlign),
			{Name: "lengthpairs", QShards: 4, TShards: 8, Run: func(c *Ctx) { alignLengthPairs(c, alignOpts{validity: true, local: true}, c08Gen) }},
			{Name: "easy", TShards: 4, Run: func(c *Ctx) { alignEasy(c, alignOpts{validity: true, local: true}, 0) }},
			{Name: "largecalls", QShards: 6, TShards: 8, StallSec: 120, Run: func(c *Ctx) { alignLargeCalls(c, alignOpts{validity: true, local: true}, c08Gen) }},
			{Name: "wide", QShards: 8, TShards: 10, Run: func(c *Ctx) { alignWide(c, alignOpts{validity: true, local: true}, c08Gen) }},
			{Name: "manycalls", QShards: 4, TShards: 6, Run: func(c *Ctx) { alignManyCalls(c, alignOpts{validity: true, local: true}, c08Gen) }},
		},
	})
	register(&Property{
		ID:    "C09",
		Level: "exploration",
		Rule: "matrices with zero gap-open: every pair of strings up to a length bound over 2-3 letter alphabets x random integer matrices, random pairs up to length 60, shipped matrices over the protein alphabet and Levenshtein over bytes; " +
			"Global/Local scores compared with an independent three-state DP optimum (cross-checked against brute-force enumeration of all alignments at worker start) and with an independent edit distance; " +
			"exhaustive table checks: all 65536 Levenshtein entries, all 24x24 entries of each shipped matrix; non-trivial = pair with both sequences non-empty / each table entry",
		Assumptions: []string{"Local is exercised only with non-positive gap scores", "table values are not tied to an external ground truth (only completeness, symmetry and zero gap-open)"},
		MinEvents:   map[string]int64{"global_optimal": 10000, "local_optimal": 3000, "table_entries_checked": 65536 + 6*576, "levenshtein_pairs": 500},
		SelfTest:    alignSelfTest,
		Units: []Unit{
			{Name: "small", QShards: 4, TShards: 12, Run: c09Small},
			{Name: "random", QShards: 2, TShards: 8, Run: c09Random},
			{Name: "levenshtein", TShards: 2, Run: c09Levenshtein},
			{Name: "shipped", TShards: 4, Run: c09Shipped},
			{Name: "tables", Run: c09Tables},
			{Name: "reuse", TShards: 4, Run: func(c *Ctx) { alignReuse(c, alignOpts{validity: true, optimal: true}, 1) }},
			{Name: "large", QShards: 4, TShards: 8, Run: func(c *Ctx) { alignLarge(c, alignOpts{validity: true, optimal: true}, c09Gen) }},
			{Name: "thin", QShards: 3, TShards: 5, Run: func(c *Ctx) { alignThin(c, alignOpts{validity: true, optimal: true}, 0) }},
			{Name: "srcviews", Run: srcViewUnit(alignViewCalls(0))},
			{Name: "lengthpairs", QShards: 4, TShards: 8, Run: func(c *Ctx) { alignLengthPairs(c, alignOpts{validity: true, optimal: true, local: true}, c09Gen) }},
			{Name: "easy", TShards: 4, Run: func(c *Ctx) { alignEasy(c, alignOpts{validity: true, optimal: true, local: true}, 1) }},
			{Name: "largecalls", QShards: 6, TShards: 8, StallSec: 120, Run: func(c *Ctx) { alignLargeCalls(c, alignOpts{validity: true, optimal: true, local: true}, c09Gen) }},
			{Name: "wide", QShards: 8, TShards: 10, Run: func(c *Ctx) { alignWide(c, alignOpts{validity: true, optimal: true, local: true}, c09Gen) }},
			{Name: "manycalls", QShards: 4, TShards: 6, Run: func(c *Ctx) { alignManyCalls(c, alignOpts{validity: true, optimal: true, local: true}, c09Gen) }},
			firstCallUnit(firstAlign("C09")),
			firstParallelUnit(parAlign),
			reuseUnit(reuseAlign),
		},
	})
	register(&Property{
		ID:    "C10",
		Level: "exploration",
		Rule: "matrices with gap-open in {-1,-2,-3,-7} and non-positive gap scores: every pair of strings up to a length bound over 2-3 letter alphabets x random integer matrices, plus random related pairs up to length 60; " +
			"scores compared with the independent three-state DP optimum; a sub-optimal score is tolerated only when it equals the independently implemented single-state recurrence of the open known finding; " +
			"non-trivial = pair with both sequences non-empty",
		Assumptions: []string{"open known finding single-state-recurrence (KNOWN_FINDINGS.txt): identified by call site (align.Global/Local, gap-open != 0) and mechanism (returned score equals the single-state recurrence value), not by an input list"},
		MinEvents:   map[string]int64{"global_calls": 10000, "local_calls": 3000},
		SelfTest:    alignSelfTest,
		Units: []Unit{
			{Name: "small", QShards: 4, TShards: 12, Run: c10Small},
			{Name: "random", QShards: 2, TShards: 8, Run: c10Random},
			{Name: "witnesses", Run: c10Witnesses},
			{Name: "reuse", TShards: 4, Run: func(c *Ctx) { alignReuse(c, alignOpts{validity: true, optimal: true, knownC10: true}, 2) }},
			{Name: "large", QShards: 4, TShards: 8, Run: func(c *Ctx) { alignLarge(c, alignOpts{validity: true, optimal: true, knownC10: true}, c10Gen) }},
			{Name: "thin", QShards: 3, TShards: 5, Run: func(c *Ctx) { alignThin(c, alignOpts{validity: true, optimal: true, knownC10: true}, -3) }},
			{Name: "srcviews", Run: srcViewUnit(alignViewCalls(-3))},
			{Name: "lengthpairs", QShards: 4, TShards: 8, Run: func(c *Ctx) {
				alignLengthPairs(c, alignOpts{validity: true, optimal: true, knownC10: true, local: true}, c10Gen)
			}},
			{Name: "easy", TShards: 4, Run: func(c *Ctx) { alignEasy(c, alignOpts{validity: true, optimal: true, knownC10: true, local: true}, 2) }},
			{Name: "largecalls", QShards: 6, TShards: 8, StallSec: 120, Run: func(c *Ctx) {
				alignLargeCalls(c, alignOpts{validity: true, optimal: true, knownC10: true, local: true}, c10Gen)
			}},
			{Name: "fractional", QShards: 4, TShards: 8, Run: c10Fractional},
			{Name: "wide", QShards: 8, TShards: 10, Run: func(c *Ctx) {
				alignWide(c, alignOpts{validity: true, optimal: true, knownC10: true, local: true}, c10Gen)
			}},
			{Name: "manycalls", QShards: 4, TShards: 6, Run: func(c *Ctx) {
				alignManyCalls(c, alignOpts{validity: true, optimal: true, knownC10: true, local: true}, c10Gen)
			}},
			firstCallUnit(firstAlign("C10")[4:]),
		},
	})
}

// scorescales: integer scores far beyond 2^24 and tiny dyadic scores; all sums
// stay exact in float64 (|sum| < 2^53 units), so the oracles remain exact.
// Powers of two far from 1 (2^-40 is below any "epsilon" a comparison might
// use, 2^-300 / 2^300 are near the ends of the exponent range) scale every
// score exactly, so the optimum scales with them.
var scoreScales = []float64{0, 0, 0, 0, 1000, 1e6, 3e9, 1.0 / (1 << 20), 1 << 30, 1.0 / (1 << 40), 1.0 / (1 << 40), 0x1p-300, 0x1p300}

func c08Gen(r *rand.Rand, mi int, alpha []byte) (align.SubstitutionMatrix, bool) {
	local := mi%2 == 0
	sp := matSpec{alpha: alpha, gapOpen: pick(r, []float64{0, -1, -3, -7}), sym: r.IntN(2) == 0, scale: pick(r, scoreScales)}
	if local {
		sp.gapSign = -1
	} else if r.IntN(3) == 0 {
		sp.gapOpen = pick(r, []float64{2, 1, -1, -1e9})
	}
	return genAlignMatrix(r, sp), local
}

func c08Small(c *Ctx) {
	o := alignOpts{validity: true}
	next := smallScope(c, 0, []byte("ab"), c.N(5, 6), c.N(40, 400), func(r *rand.Rand, mi int) (align.SubstitutionMatrix, bool) {
		return c08Gen(r, mi, []byte("ab"))
	}, o)
	c.Exhaustive(fmt.Sprintf("small: all pairs of strings of length <= %d over {a,b} per matrix", c.N(5, 6)))
	smallScope(c, next, []byte("abc"), c.N(3, 4), c.N(20, 200), func(r *rand.Rand, mi int) (align.SubstitutionMatrix, bool) {
		return c08Gen(r, mi, []byte("abc"))
	}, o)
	c.Exhaustive(fmt.Sprintf("small: all pairs of strings of length <= %d over {a,b,c} per matrix", c.N(3, 4)))
}

func c08Random(c *Ctx) {
	n := c.N(4000, 300000)
	for i := 0; i < n; i++ {
		c.Case(int64(i), func(k *K) {
			r := k.Rand()
			alpha := alignAlphabet(r)
			m, local := c08Gen(r, i, alpha)
			if r.IntN(5) == 0 {
				m = genAlignMatrix(r, matSpec{alpha: alpha, gapOpen: pick(r, []float64{0, -0.5, -2.25}), gapSign: -1, fraction: true})
				local = true
			}
			a, b := relatedPair(r, alpha, pick(r, []int{8, 20, 60, 140})) // (tables of more than 2^12 cells among them)
			if r.IntN(20) == 0 {
				b = a // the same slice passed twice
				k.Count("aliased_arguments", 1)
			}
			if k.c.Thorough && r.IntN(200) == 0 {
				a, b = relatedPair(r, alpha, 900) // a large table
				k.Count("large_tables", 1)
			}
			if r.IntN(40) == 0 {
				a, b, m = longGapCase(r, pick(r, []float64{0, -3, -7}))
				local = true
				k.Count("long_gap_cases", 1)
			}
			if r.IntN(6) == 0 && (len(a) == 0 || len(b) == 0 || &a[0] != &b[0]) {
				b, m = twoAlphabets(r, a, b, m)
				k.Count("two_alphabet_cases", 1)
			}
			k.Input("a", a)
			k.Input("b", b)
			k.Input("matrix", matrixDesc(m))
			alignCase(k, a, b, m, alignOpts{validity: true, local: local, snapshotM: true})
			if len(a) > 0 && len(b) > 0 {
				k.Nontrivial(a, b, []byte(matrixString(m)))
			}
		})
	}
}

func c08Shipped(c *Ctx) {
	n := c.N(900, 40000)
	ms := shippedMatrices()
	for i := 0; i < n; i++ {
		c.Case(int64(i), func(k *K) {
			r := k.Rand()
			if i%7 == 6 {
				a := randBytesExcl(r, r.IntN(40), setOf("\xff"))
				b := mutate(r, a, nil)
				b = bytes.ReplaceAll(b, []byte{255}, []byte{254})
				k.Input("matrix", "Levenshtein")
				k.Input("a", a)
				k.Input("b", b)
				alignCase(k, a, b, align.Levenshtein, alignOpts{validity: true, local: true})
				k.Nontrivial(a, b)
				return
			}
			nm := ms[i%len(ms)]
			a, b := relatedPair(r, proteinAlphabet, pick(r, []int{10, 60, 300}))
			k.Input("matrix", nm.name)
			k.Input("a", a)
			k.Input("b", b)
			alignCase(k, a, b, nm.m, alignOpts{validity: true, local: true, snapshotM: i < 30})
			if len(a) > 0 && len(b) > 0 {
				k.Nontrivial([]byte(nm.name), a, b)
			}
		})
	}
}

// ---------------------------------------------------------------- C09

func c09Gen(r *rand.Rand, mi int, alpha []byte) (align.SubstitutionMatrix, bool) {
	local := mi%2 == 0
	if mi%4 == 1 {
		// gap scores of any sign: Local's score is still judged (localScore), see c09 units
		local = false
	}
	sp := matSpec{alpha: alpha, gapOpen: 0, sym: r.IntN(2) == 0, scale: pick(r, scoreScales)}
	if local {
		sp.gapSign = -1
	}
	return genAlignMatrix(r, sp), local
}

func c09Small(c *Ctx) {
	o := alignOpts{validity: true, optimal: true, localScore: true}
	next := smallScope(c, 0, []byte("ab"), c.N(5, 6), c.N(40, 400), func(r *rand.Rand, mi int) (align.SubstitutionMatrix, bool) {
		return c09Gen(r, mi, []byte("ab"))
	}, o)
	c.Exhaustive(fmt.Sprintf("small: all pairs of strings of length <= %d over {a,b} per matrix", c.N(5, 6)))
	smallScope(c, next, []byte("abc"), c.N(3, 4), c.N(20, 200), func(r *rand.Rand, mi int) (align.SubstitutionMatrix, bool) {
		return c09Gen(r, mi, []byte("abc"))
	}, o)
	c.Exhaustive(fmt.Sprintf("small: all pairs of strings of length <= %d over {a,b,c} per matrix", c.N(3, 4)))
}

func c09Random(c *Ctx) {
	n := c.N(3000, 300000)
	for i := 0; i < n; i++ {
		c.Case(int64(i), func(k *K) {
			r := k.Rand()
			alpha := alignAlphabet(r)
			m, local := c09Gen(r, i, alpha)
			a, b := relatedPair(r, alpha, pick(r, []int{60, 60, 140}))
			if r.IntN(40) == 0 {
				a, b, m = longGapCase(r, 0)
				local = true
				k.Count("long_gap_cases", 1)
			}
			if r.IntN(6) == 0 {
				b, m = twoAlphabets(r, a, b, m)
				k.Count("two_alphabet_cases", 1)
			}
			k.Input("a", a)
			k.Input("b", b)
			k.Input("matrix", matrixDesc(m))
			alignCase(k, a, b, m, alignOpts{validity: true, optimal: true, local: local, localScore: !local})
			if len(a) > 0 && len(b) > 0 {
				k.Nontrivial(a, b, []byte(matrixString(m)))
			}
		})
	}
}

// twoAlphabets turns a case over one alphabet into the same case with a and b
// over DIFFERENT alphabets: every symbol of b is replaced by a twin (its other
// case where that is free, otherwise an unused byte), and the matrix keeps only
// the pairs an alignment of a with b can ask for — (x, twin(y)), (x, Gap),
// (Gap, twin(y)), (Gap, Gap) — with the scores of the original pairs. A matrix
// is a set of scored pairs; nothing says every symbol has a row, or that rows
// and columns carry the same symbols (an upper-case reference against
// lower-case reads). The optimum is that of the original case.
func twoAlphabets(r *rand.Rand, a, b []byte, m align.SubstitutionMatrix) ([]byte, align.SubstitutionMatrix) {
	used := map[byte]bool{align.Gap: true}
	for key := range m {
		used[key[0]], used[key[1]] = true, true
	}
	twin := map[byte]byte{}
	for key := range m {
		y := key[1]
		if y == align.Gap {
			continue
		}
		if _, ok := twin[y]; ok {
			continue
		}
		t := y ^ 0x20
		for used[t] {
			t = byte(r.IntN(255))
		}
		used[t] = true
		twin[y] = t
	}
	m2 := align.SubstitutionMatrix{}
	for key, v := range m {
		x, y := key[0], key[1]
		switch {
		case y == align.Gap:
			m2[[2]byte{x, y}] = v
		case x == align.Gap:
			m2[[2]byte{x, twin[y]}] = v
		default:
			m2[[2]byte{x, twin[y]}] = v
		}
	}
	b2 := make([]byte, len(b))
	for i, y := range b {
		b2[i] = twin[y]
	}
	return b2, m2
}

func c09Levenshtein(c *Ctx) {
	n := c.N(2000, 150000)
	for i := 0; i < n; i++ {
		c.Case(int64(i), func(k *K) {
			r := k.Rand()
			var a, b []byte
			if i%3 == 0 {
				a, b = relatedPair(r, []byte("ab"), 12)
			} else {
				a = randBytesExcl(r, r.IntN(50), setOf("\xff"))
				if r.IntN(3) == 0 { // text with multi-byte UTF-8 runes, in particular those of small code points
					for j := 1 + r.IntN(4); j > 0; j-- {
						cp := rune(pick(r, []int{0xFF, 0xFF, 0x80, 0xA0, 0x100, 0x7FF, 0x800, 0xFFFD, 0x10000, 0x80 + r.IntN(0x780)}))
						pos := r.IntN(len(a) + 1)
						a = append(a[:pos:pos], append([]byte(string(cp)), a[pos:]...)...)
					}
					k.Count("utf8_text_inputs", 1)
				}
				b = bytes.ReplaceAll(mutate(r, a, nil), []byte{255}, []byte{0})
				if r.IntN(5) == 0 {
					b = randBytesExcl(r, r.IntN(50), setOf("\xff"))
				}
			}
			k.Input("a", a)
			k.Input("b", b)
			_, score := align.Global(a, b, align.Levenshtein)
			if d := editDistance(a, b); score != float64(-d) {
				k.Failf("levenshtein", "Global with Levenshtein returned %v, edit distance is %d", score, d)
			}
			_, score2 := align.Global(b, a, align.Levenshtein)
			if score2 != score {
				k.Failf("levenshtein-asymmetric", "Global(a,b)=%v but Global(b,a)=%v with Levenshtein", score, score2)
			}
			k.Count("levenshtein_pairs", 1)
			alignCase(k, a, b, align.Levenshtein, alignOpts{validity: true, optimal: true, local: true})
			if len(a) > 0 && len(b) > 0 {
				k.Nontrivial(a, b)
			}
		})
	}
}

func c09Shipped(c *Ctx) {
	n := c.N(1200, 60000)
	ms := shippedMatrices()
	for i := 0; i < n; i++ {
		c.Case(int64(i), func(k *K) {
			r := k.Rand()
			nm := ms[i%len(ms)]
			a, b := relatedPair(r, proteinAlphabet, pick(r, []int{10, 40, 120}))
			k.Input("matrix", nm.name)
			k.Input("a", a)
			k.Input("b", b)
			alignCase(k, a, b, nm.m, alignOpts{validity: true, optimal: true, local: true})
			if i%16 < len(ms) {
				// A caller derives a private matrix from the shipped one and edits it:
				// the shipped matrix must stay what it was (symmetric, complete).
				snap := copyMatrix(nm.m)
				d := nm.m.Symmetrical()
				x, y := proteinAlphabet[r.IntN(len(proteinAlphabet))], proteinAlphabet[r.IntN(len(proteinAlphabet))]
				d[[2]byte{x, y}] += 3
				delete(d, [2]byte{y, align.Gap})
				if diff := sameMatrix(nm.m, snap); diff != "" {
					for key, v := range snap { // put it back: the other cases of this worker use it
						nm.m[key] = v
					}
					k.Failf("shipped-matrix-changed", "%s changed after a matrix derived from it with Symmetrical() was edited: %s", nm.name, diff)
				}
				k.Count("derived_matrix_edits", 1)
			}
			// Swapping the arguments leaves the scores unchanged.
			_, g1 := align.Global(a, b, nm.m)
			_, g2 := align.Global(b, a, nm.m)
			if g1 != g2 {
				k.Failf("swap-global", "%s: Global(a,b)=%v but Global(b,a)=%v", nm.name, g1, g2)
			}
			_, _, _, l1 := align.Local(a, b, nm.m)
			_, _, _, l2 := align.Local(b, a, nm.m)
			if l1 != l2 {
				k.Failf("swap-local", "%s: Local(a,b)=%v but Local(b,a)=%v", nm.name, l1, l2)
			}
			k.Count("swap_checks", 2)
			if len(a) > 0 && len(b) > 0 {
				k.Nontrivial([]byte(nm.name), a, b)
			}
		})
	}
}

func c09Tables(c *Ctx) {
	c.Case(0, func(k *K) {
		if len(align.Levenshtein) != 65536 {
			k.Failf("levenshtein-table", "Levenshtein has %d entries, want 65536", len(align.Levenshtein))
		}
		for x := 0; x < 256; x++ {
			for y := 0; y < 256; y++ {
				v, ok := align.Levenshtein[[2]byte{byte(x), byte(y)}]
				want := -1.0
				if x == y {
					want = 0
				}
				if !ok || v != want {
					k.Input("pair", fmt.Sprintf("(%d,%d)", x, y))
					k.Failf("levenshtein-table", "Levenshtein[%d,%d] = %v (present=%v), want %v", x, y, v, ok, want)
					return
				}
				k.Count("table_entries_checked", 1)
			}
		}
		k.Evals(65535)
		k.DistinctBC(65536)
	})
	c.Exhaustive("tables: all 65536 Levenshtein entries")
	// Every pair of adjacent byte values (x,y), x,y != 255, as a sequence: the
	// edit distances to "", to [x] and to [y,x] are known in closed form.
	for x := 0; x < 255; x++ {
		c.Case(int64(100+x), func(k *K) {
			for y := 0; y < 255; y++ {
				a := []byte{byte(x), byte(y)}
				for _, tc := range []struct {
					b    []byte
					want float64
				}{{nil, -2}, {[]byte{byte(x)}, -1}, {[]byte{byte(y), byte(x)}, map[bool]float64{true: 0, false: -2}[x == y]}, {a, 0}} {
					_, g := align.Global(a, tc.b, align.Levenshtein)
					_, g2 := align.Global(tc.b, a, align.Levenshtein)
					_, _, _, l := align.Local(a, tc.b, align.Levenshtein)
					if g != tc.want || g2 != tc.want || l != 0 {
						k.Input("a", a)
						k.Input("b", tc.b)
						k.Failf("levenshtein-pairs", "Levenshtein: Global(%q,%q)=%v, Global swapped=%v (want %v), Local=%v (want 0)", a, tc.b, g, g2, tc.want, l)
						return
					}
				}
			}
			k.Count("levenshtein_byte_pairs", 255)
			k.Evals(254)
			k.DistinctBC(255)
		})
	}
	c.Exhaustive("tables: all 65025 two-byte sequences (bytes != 255) aligned with Levenshtein against four partners")
	alpha := append(append([]byte{}, proteinAlphabet...), gapB)
	for i, nm := range shippedMatrices() {
		c.Case(int64(1+i), func(k *K) {
			k.Input("matrix", nm.name)
			if len(nm.m) != len(alpha)*len(alpha) {
				k.Failf("shipped-table", "%s has %d entries, want %d (24x24 over %s + gap)", nm.name, len(nm.m), len(alpha)*len(alpha), proteinAlphabet)
			}
			for _, x := range alpha {
				for _, y := range alpha {
					v, ok := nm.m[[2]byte{x, y}]
					if !ok {
						k.Failf("shipped-table", "%s has no entry for (%q,%q)", nm.name, x, y)
						return
					}
					if w := nm.m[[2]byte{y, x}]; w != v {
						k.Failf("shipped-table", "%s is not symmetric at (%q,%q): %v vs %v", nm.name, x, y, v, w)
						return
					}
					k.Count("table_entries_checked", 1)
				}
			}
			if v := nm.m[[2]byte{gapB, gapB}]; v != 0 {
				k.Failf("shipped-table", "%s has gap-open %v, want 0", nm.name, v)
			}
			for key := range nm.m {
				if bytes.IndexByte(alpha, key[0]) < 0 || bytes.IndexByte(alpha, key[1]) < 0 {
					k.Failf("shipped-table", "%s has a pair outside its alphabet: (%d,%d)", nm.name, key[0], key[1])
					return
				}
			}
			// digest of the table, information only
			keys := make([]string, 0, len(nm.m))
			for key, v := range nm.m {
				keys = append(keys, fmt.Sprintf("%d,%d=%v", key[0], key[1], v))
			}
			sort.Strings(keys)
			k.c.Info("digest_"+nm.name, fmt.Sprintf("%x", fnvSum(keys)))
			k.Evals(575)
			k.DistinctBC(576)
		})
	}
	c.Exhaustive("tables: all 24x24 entries of PAM120/160/250 and BLOSUM45/62/80")
}

// ---------------------------------------------------------------- C10

func c10Gen(r *rand.Rand, mi int, alpha []byte) (align.SubstitutionMatrix, bool) {
	sp := matSpec{alpha: alpha, gapOpen: pick(r, []float64{-1, -2, -3, -7}), sym: r.IntN(2) == 0, gapSign: -1, scale: pick(r, scoreScales)}
	return genAlignMatrix(r, sp), true
}

func c10Small(c *Ctx) {
	o := alignOpts{validity: true, optimal: true, knownC10: true}
	next := smallScope(c, 0, []byte("ab"), c.N(5, 6), c.N(40, 400), func(r *rand.Rand, mi int) (align.SubstitutionMatrix, bool) {
		return c10Gen(r, mi, []byte("ab"))
	}, o)
	c.Exhaustive(fmt.Sprintf("small: all pairs of strings of length <= %d over {a,b} per matrix", c.N(5, 6)))
	smallScope(c, next, []byte("abc"), c.N(3, 4), c.N(20, 200), func(r *rand.Rand, mi int) (align.SubstitutionMatrix, bool) {
		return c10Gen(r, mi, []byte("abc"))
	}, o)
	c.Exhaustive(fmt.Sprintf("small: all pairs of strings of length <= %d over {a,b,c} per matrix", c.N(3, 4)))
}

func c10Random(c *Ctx) {
	n := c.N(3000, 300000)
	for i := 0; i < n; i++ {
		c.Case(int64(i), func(k *K) {
			r := k.Rand()
			alpha := alignAlphabet(r)
			m, _ := c10Gen(r, i, alpha)
			a, b := relatedPair(r, alpha, pick(r, []int{60, 60, 140}))
			if r.IntN(40) == 0 {
				a, b, m = longGapCase(r, pick(r, []float64{-1, -3, -7}))
				k.Count("long_gap_cases", 1)
			}
			if r.IntN(6) == 0 {
				b, m = twoAlphabets(r, a, b, m)
				k.Count("two_alphabet_cases", 1)
			}
			k.Input("a", a)
			k.Input("b", b)
			k.Input("matrix", matrixDesc(m))
			alignCase(k, a, b, m, alignOpts{validity: true, optimal: true, knownC10: true, local: true})
			if len(a) > 0 && len(b) > 0 {
				k.Nontrivial(a, b, []byte(matrixString(m)))
			}
		})
	}
}

func fnvSum(parts []string) uint64 {
	var h uint64 = 14695981039346656037
	for _, p := range parts {
		for i := 0; i < len(p); i++ {
			h ^= uint64(p[i])
			h *= 1099511628211
		}
		h ^= 0xff
		h *= 1099511628211
	}
	return h
}

// alignReuse keeps ONE matrix object per case and edits its scores in place
// between calls (same keys, same map), as a user tuning penalties would: state
// cached inside the library per matrix object would go stale here. mode 0: any
// gap-open (C08), 1: zero gap-open (C09), 2: non-zero gap-open (C10).
func alignReuse(c *Ctx, o alignOpts, mode int) {
	n := c.N(300, 12000)
	for i := 0; i < n; i++ {
		c.Case(int64(i), func(k *K) {
			r := k.Rand()
			alpha := []byte("acgt")[:2+r.IntN(3)]
			sp := matSpec{alpha: alpha, gapSign: -1, sym: r.IntN(2) == 0}
			switch mode {
			case 0:
				sp.gapOpen = pick(r, []float64{0, -1, -3})
			case 1:
				sp.gapOpen = 0
			default:
				sp.gapOpen = pick(r, []float64{-1, -2, -3, -7})
			}
			m := genAlignMatrix(r, sp)
			keys := make([][2]byte, 0, len(m))
			for key := range m {
				keys = append(keys, key)
			}
			sortKeys(keys)
			a, b := relatedPair(r, alpha, 16)
			for round := 0; round < 8; round++ {
				// edit a few scores in place (never the gap-open cell's sign class)
				for e := 1 + r.IntN(4); e > 0; e-- {
					key := keys[r.IntN(len(keys))]
					switch {
					case key[0] == gapB && key[1] == gapB:
						if mode == 2 {
							m[key] = pick(r, []float64{-1, -2, -3, -7})
						} else if mode == 0 {
							m[key] = pick(r, []float64{0, -1, -3})
						}
					case key[0] == gapB || key[1] == gapB:
						m[key] = -float64(r.IntN(7))
					default:
						m[key] = float64(r.IntN(13) - 6)
					}
				}
				if r.IntN(3) == 0 {
					a, b = relatedPair(r, alpha, 16)
				}
				k.Input("round", round)
				k.Input("a", a)
				k.Input("b", b)
				k.Input("matrix", matrixString(m))
				oo := o
				oo.local = true
				alignCase(k, a, b, m, oo)
				k.Count("reuse_rounds", 1)
				k.Evals(1)
				if k.Failed() {
					return
				}
			}
			k.Nontrivial(a, b, []byte(matrixString(m)))
		})
	}
}

func sortKeys(keys [][2]byte) {
	sort.Slice(keys, func(i, j int) bool { return bytes.Compare(keys[i][:], keys[j][:]) < 0 })
}

// alignLarge: DP tables of 2^24 cells and more (4096 x 4096 and beyond, square
// and very skinny): index arithmetic, table budgets and anything else that
// depends on the table size rather than on the content. Related sequences, so
// that the alignments are real ones.
func alignLarge(c *Ctx, o alignOpts, gen func(r *rand.Rand, mi int, alpha []byte) (align.SubstitutionMatrix, bool)) {
	shapes := [][2]int{{4100, 4100}, {70000, 250}, {40000, 20}, {30020, 14}, {8, 1<<19 - 1}, {1<<19 + 1, 5}}
	if c.Thorough {
		shapes = [][2]int{{4100, 4100}, {70000, 250}, {250, 70000}, {4096, 4096}, {4095, 4097}, {9000, 2100}, {1 << 20, 17}, {3, 1 << 23}, {40000, 20}, {30020, 14}, {14, 30021}}
	}
	for i, sh := range shapes {
		c.Case(int64(i), func(k *K) {
			r := k.Rand()
			alpha := []byte("acgt")
			m, local := gen(r, 0, alpha)
			if i%2 == 1 {
				// odd integer scores in the hundreds and thousands (log-odds in millibits): every score fits any
				// narrow number type, the running sums of a long alignment (tens of millions) do not
				small := true
				for _, v := range m {
					if math.Abs(v) > 8 || v != math.Trunc(v) {
						small = false
					}
				}
				if small {
					f := pick(r, []float64{997, 1003, 331, 127})
					for key, v := range m {
						m[key] = v*f + float64(r.IntN(3)-1)*float64(int(v)%2) // (keeps the sign pattern; -0 stays 0)
					}
					k.Count("large_tables_with_odd_mid_sized_scores", 1)
				}
			}
			a := randSeq(r, alpha, sh[0])
			b := make([]byte, sh[1])
			for j := range b { // b follows a (stretched or squeezed to its own length) with mutations
				b[j] = a[j*len(a)/len(b)]
				if r.IntN(8) == 0 {
					b[j] = alpha[r.IntN(len(alpha))]
				}
			}
			// Before the valid call: five calls of the same (large) shape that PANIC on a symbol the matrix does not have
			// and are recovered by the caller. Whatever a call takes for a table of this size — a slot, a pooled table,
			// a lock — has to be given back on that path too; the valid call afterwards must run (a wait that never
			// ends is pinned by the watchdog).
			if (sh[0]+1)*(sh[1]+1) >= 1<<24 && i%2 == 0 {
				bad := append([]byte{}, a...)
				bad[0] = 0xFE
				for j := 0; j < 5; j++ {
					if j%2 == 0 {
						catch(func() { align.Global(bad, b, m) })
					} else {
						catch(func() { align.Local(b, bad, m) })
					}
				}
				k.Count("recovered_panics_on_large_tables", 5)
			}
			k.Input("len_a", sh[0])
			k.Input("len_b", sh[1])
			k.Input("cells", (sh[0]+1)*(sh[1]+1))
			k.Input("a_head", a[:min(len(a), 64)])
			k.Input("matrix", matrixDesc(m))
			oo := o
			oo.local = local
			alignCase(k, a, b, m, oo)
			k.Count("large_table_cases", 1)
			k.Nontrivial([]byte(fmt.Sprint(sh)), a[:min(len(a), 64)], []byte(matrixString(m)))
		})
	}
}

// c10Fractional: the scores people write in decimal — match 1, mismatch -1.1,
// gap extension -0.1 / -0.2, gap-open -0.2 … -0.6 — are not exactly
// representable, so the order in which a running score, an extension and the
// gap-open are added changes the last bit, and with it the outcome of the
// comparisons that are exact ties on paper. Every other unit uses integer or
// dyadic scores so that all its oracles are exact; here the oracles allow for
// rounding: the returned score must equal the score of the returned steps and
// reach the three-state optimum within 1e-9, and a result further below the
// optimum must be BIT-EQUAL to the single-state recurrence evaluated with the
// library's own order of additions (the open finding) — anything else is a
// worse alignment by a whole gap-open, not by an ulp.
func c10Fractional(c *Ctx) {
	vals := []float64{1, 0.7, -1.1, -0.1, -0.2, -0.3, -0.4, -0.6, -0.9, 2.3}
	strs := allStrings([]byte("ab"), c.N(5, 6))
	nm := c.N(30, 300)
	const tol = 1e-9
	for mi := 0; mi < nm; mi++ {
		c.Case(int64(mi), func(k *K) {
			r := k.Rand()
			m := align.SubstitutionMatrix{}
			match, mismatch := pick(r, []float64{1, 0.7, 2.3}), pick(r, []float64{-1.1, -0.9, -0.3})
			for _, x := range []byte("ab") {
				for _, y := range []byte("ab") {
					if x == y {
						m[[2]byte{x, y}] = match
					} else {
						m[[2]byte{x, y}] = mismatch
					}
				}
				ext := pick(r, []float64{-0.1, -0.2, -0.3, -0.6})
				m[[2]byte{x, gapB}], m[[2]byte{gapB, x}] = ext, ext
				if r.IntN(3) == 0 {
					m[[2]byte{gapB, x}] = pick(r, vals[3:9])
				}
			}
			m[[2]byte{gapB, gapB}] = pick(r, []float64{-0.2, -0.3, -0.4, -0.6, -1.1})
			k.Input("matrix", matrixDesc(m))
			known := func(which string) {
				k.KnownFinding("single-state-recurrence", "align.Global/Local with non-zero gap-open return the value of the single-state recurrence, below the affine optimum when two gap placements compete")
				k.Count(which+"_known_suboptimal", 1)
			}
			for _, a := range strs {
				for _, b := range strs {
					k.Evals(1)
					steps, score := align.Global(a, b, m)
					rs, ca, cb, prob := rescore(a, b, m, steps, 0, 0)
					if prob != "" || ca != len(a) || cb != len(b) || math.Abs(rs-score) > tol {
						k.Input("a", a)
						k.Input("b", b)
						k.Failf("global-score-mismatch", "Global(%q,%q) returned %v, its steps %s re-score to %v (%s)", a, b, score, stepsString(steps), rs, prob)
						return
					}
					opt := gotohGlobal(a, b, m)
					switch {
					case score > opt+tol:
						k.Input("a", a)
						k.Input("b", b)
						k.Failf("global-above-optimum", "Global(%q,%q) returned %v, above the optimum %v", a, b, score, opt)
						return
					case score < opt-tol && score == singleStateGlobal(a, b, m):
						known("global")
					case score < opt-tol:
						k.Input("a", a)
						k.Input("b", b)
						k.Failf("global-suboptimal", "Global(%q,%q) returned %v (steps %s); an alignment scoring %v exists, and the result is not the value of the single-state recurrence (%v) either", a, b, score, stepsString(steps), opt, singleStateGlobal(a, b, m))
						return
					default:
						k.Count("global_optimal", 1)
					}
					lsteps, ai, bi, lscore := align.Local(a, b, m)
					if len(lsteps) > 0 {
						if lrs, _, _, lprob := rescore(a, b, m, lsteps, ai, bi); lprob != "" || math.Abs(lrs-lscore) > tol {
							k.Input("a", a)
							k.Input("b", b)
							k.Failf("local-score-mismatch", "Local(%q,%q) returned %v, its steps re-score to %v (%s)", a, b, lscore, lrs, lprob)
							return
						}
					}
					lopt := gotohLocal(a, b, m)
					switch {
					case lscore > lopt+tol:
						k.Input("a", a)
						k.Input("b", b)
						k.Failf("local-above-optimum", "Local(%q,%q) returned %v, above the optimum %v", a, b, lscore, lopt)
						return
					case lscore < lopt-tol && lscore == singleStateLocal(a, b, m):
						known("local")
					case lscore < lopt-tol:
						k.Input("a", a)
						k.Input("b", b)
						k.Failf("local-suboptimal", "Local(%q,%q) returned %v; a local alignment scoring %v exists, and the result is not the value of the single-state recurrence (%v) either", a, b, lscore, lopt, singleStateLocal(a, b, m))
						return
					default:
						k.Count("local_optimal", 1)
					}
				}
			}
			k.Count("fractional_matrices", 1)
			k.Nontrivial([]byte(matrixString(m)), []byte("fractional"))
		})
	}
}

// alignEasy: inputs that LOOK easy — one sequence is exactly the other plus a
// short head or tail (or the two are identical), 64 … 140 symbols long, under a
// "nice" matrix: every symbol scores best against itself within its row, all gap
// scores are one and the same non-positive number — which is what a shortcut
// ("a prefix: n matches and one gap") would test for before skipping the table.
// The matrix is still asymmetric: a symbol may score higher in another symbol's
// COLUMN than that symbol does against itself, so the obvious alignment is not
// always the best one. mode 0: any gap-open (C08), 1: none (C09), 2: some (C10).
func alignEasy(c *Ctx, o alignOpts, mode int) {
	n := c.N(400, 20000)
	for i := 0; i < n; i++ {
		c.Case(int64(i), func(k *K) {
			r := k.Rand()
			alpha := alignAlphabet(r)
			m := align.SubstitutionMatrix{}
			for _, x := range alpha {
				d := float64(1 + r.IntN(5))
				for _, y := range alpha {
					if x == y {
						m[[2]byte{x, y}] = d
					} else {
						m[[2]byte{x, y}] = d - float64(r.IntN(8)) // never above the diagonal of its row; may beat the diagonal of its column
					}
				}
			}
			g := -float64(r.IntN(4))
			for _, x := range alpha {
				m[[2]byte{x, gapB}], m[[2]byte{gapB, x}] = g, g
			}
			open := 0.0
			if mode == 2 || mode == 0 && r.IntN(2) == 0 {
				open = -float64(1 + r.IntN(4))
			}
			m[[2]byte{gapB, gapB}] = open
			// Cost-like scoring (one case in seven): EVERY pair costs something, identical symbols the least; gaps are
			// cheap or free to extend. "Matching more never hurts" is false here: an alignment made of gaps alone can
			// beat the diagonal of two identical sequences.
			if i%7 == 3 {
				top := 0.0
				for key, v := range m {
					if key[0] != gapB && key[1] != gapB {
						top = max(top, v)
					}
				}
				shift := top + float64(1+r.IntN(3))
				for key := range m {
					if key[0] != gapB && key[1] != gapB {
						m[key] -= shift
					}
				}
				g = -float64(r.IntN(2))
				for _, x := range alpha {
					m[[2]byte{x, gapB}], m[[2]byte{gapB, x}] = g, g
				}
				k.Count("cost_like_matrices", 1)
			}
			x := randSeq(r, alpha, 64+r.IntN(77))
			if r.IntN(5) == 0 {
				x = randSeq(r, alpha, r.IntN(64))
			}
			if i%24 == 6 || i%24 == 13 || r.IntN(6) == 0 { // low-complexity: runs of one symbol, short tandem repeats
				x = runSeq(r, alpha[:min(len(alpha), 3)], 40+r.IntN(100))
				k.Count("low_complexity_cases", 1)
			}
			if i%8 == 3 || i%56 == 31 { // tables of 2^16 cells and more: identical and near-identical sequences of equal length
				x = randSeq(r, alpha[:min(len(alpha), 4)], 256+r.IntN(150))
				k.Count("easy_looking_large_tables", 1)
			}
			tail := randSeq(r, alpha, 1+r.IntN(3))
			var a, b []byte
			if i%8 == 3 || i%56 == 31 {
				a, b = x, append([]byte{}, x...)
				for j := r.IntN(3); j > 0; j-- {
					b[r.IntN(len(b))] = alpha[r.IntN(min(len(alpha), 4))]
				}
			} else {
				a, b = easyPair(i, x, tail)
			}
			switch 99 {
			}
			k.Input("a", a)
			k.Input("b", b)
			k.Input("matrix", matrixDesc(m))
			oo := o
			oo.local = o.local
			alignCase(k, a, b, m, oo)
			k.Count("easy_looking_cases", 1)
			k.Nontrivial(a, b, []byte(matrixString(m)))
		})
	}
}

// alignLengthPairs: EVERY pair of lengths (len(a), len(b)) from 0 to 70
// (thorough 150) — the random units draw lengths independently and the
// exhaustive ones stop at 6, so a table that is special for one pair of
// dimensions (a fixed-size array for "small" inputs, a row that just fits) is
// met only here. One checked call per pair, related sequences, a fresh matrix
// for every len(a).
func alignLengthPairs(c *Ctx, o alignOpts, gen func(r *rand.Rand, mi int, alpha []byte) (align.SubstitutionMatrix, bool)) {
	maxLen := c.N(70, 150)
	for la := 0; la <= maxLen; la++ {
		c.Case(int64(la), func(k *K) {
			r := k.Rand()
			alpha := alignAlphabet(r)
			m, local := gen(r, la, alpha)
			k.Input("matrix", matrixDesc(m))
			for lb := 0; lb <= maxLen; lb++ {
				a := randSeq(r, alpha, la)
				b := make([]byte, lb)
				for j := range b {
					if la > 0 && r.IntN(5) > 0 {
						b[j] = a[j*la/max(lb, 1)%la]
					} else {
						b[j] = alpha[r.IntN(len(alpha))]
					}
				}
				k.Input("a", a)
				k.Input("b", b)
				oo := o
				oo.local = local && o.local
				alignCase(k, a, b, m, oo)
				if k.Failed() {
					return
				}
				k.Count("length_pairs", 1)
			}
			k.Nontrivial([]byte(fmt.Sprint("lengthpairs", la)), []byte(matrixString(m)))
		})
	}
	c.Exhaustive(fmt.Sprintf("lengthpairs: every pair of lengths 0..%d x 0..%d", maxLen, maxLen))
}

// alignWide: matrices over WIDE alphabets — 20, 63..65, 100 and all 255 symbols
// (400 … 65 000 scored pairs), asymmetric in the pair scores and in the two gap
// directions — on sequences long enough that the table has more cells than the
// matrix has pairs. An implementation may flatten a big matrix into an array,
// index it by symbol numbers, or cache rows: none of that happens for the 2–4
// symbol alphabets of the other units.
func alignWide(c *Ctx, o alignOpts, gen func(r *rand.Rand, mi int, alpha []byte) (align.SubstitutionMatrix, bool)) {
	widths := []int{20, 63, 64, 65, 100, 255}
	per := c.N(3, 24)
	idx := int64(0)
	// one side wide AND the other long (a per-symbol row cache of len(b) scores cannot hold 255 rows of 40 000):
	// every symbol comes back after all the others were used
	for li, sh := range [][2]int{{400, 34000}, {34000, 400}} {
		c.Case(idx, func(k *K) {
			r := k.Rand()
			alpha := make([]byte, 255)
			for j := range alpha {
				alpha[j] = byte(j)
			}
			m, local := gen(r, li, alpha)
			a, b := make([]byte, sh[0]), make([]byte, sh[1])
			for j := range a {
				a[j] = alpha[(j*7+li)%255]
			}
			for j := range b {
				b[j] = alpha[(j*11+3)%255]
			}
			if r.IntN(2) == 0 {
				copy(b[len(b)/2:], a[:min(len(a), len(b)/2)])
			}
			k.Input("alphabet_size", 255)
			k.Input("len_a", sh[0])
			k.Input("len_b", sh[1])
			oo := o
			oo.local = local && o.local
			alignCase(k, a, b, m, oo)
			k.Count("wide_and_long_cases", 1)
			k.Nontrivial([]byte(fmt.Sprint("wide-long", sh)))
		})
		idx++
	}
	for _, w := range widths {
		for i := 0; i < per; i++ {
			c.Case(idx, func(k *K) {
				r := k.Rand()
				perm := r.Perm(255)
				alpha := make([]byte, w)
				for j := range alpha {
					alpha[j] = byte(perm[j])
				}
				m, local := gen(r, i, alpha)
				n := pick(r, []int{w + 8, 2*w + 10, 300})
				a := randSeq(r, alpha, n)
				b := append([]byte{}, a...)
				for j := 0; j < 1+n/6; j++ { // substitutions, deletions, insertions
					p := r.IntN(len(b))
					switch r.IntN(3) {
					case 0:
						b[p] = alpha[r.IntN(w)]
					case 1:
						b = append(b[:p], b[p+1:]...)
					default:
						b = append(b[:p], append([]byte{alpha[r.IntN(w)]}, b[p:]...)...)
					}
					if len(b) == 0 {
						b = []byte{alpha[0]}
					}
				}
				k.Input("alphabet_size", w)
				k.Input("matrix_pairs", len(m))
				k.Input("a", a)
				k.Input("b", b)
				oo := o
				oo.local = local && o.local
				alignCase(k, a, b, m, oo)
				k.Count("wide_alphabet_cases", 1)
				k.Nontrivial([]byte(fmt.Sprint("wide", w)), a, b)
			})
			idx++
		}
	}
}

// alignLargeCalls: histories of LARGE calls in one process — tables of 2^20
// cells and more, of changing shape (the next one smaller, wider, narrower,
// the same size with another row length), Local and Global in turn. Scratch
// memory that is kept between calls (a pooled table, a per-size-class cache) is
// only reused above some size, and what the previous call left in it lies
// elsewhere when the row length changes. Every call is checked like any other.
func alignLargeCalls(c *Ctx, o alignOpts, gen func(r *rand.Rand, mi int, alpha []byte) (align.SubstitutionMatrix, bool)) {
	histories := [][][2]int{
		{{1100, 1000}, {1010, 1040}, {2000, 600}, {600, 2000}, {1024, 1024}, {1023, 1025}, {300, 300}, {1100, 1000}},
		{{1500, 1500}, {1200, 1100}, {1100, 1200}, {3000, 400}, {1050, 1050}, {40, 30000}, {1049, 1051}},
	}
	// rows of 2^k cells (len(b) = 2^k - 1) and of 2^k + 1, tables of just 2^18 and 2^20 cells
	histories = append(histories, [][2]int{{300, 1023}, {1100, 1023}, {1023, 255}, {4200, 255}, {513, 511}, {600, 2047}, {2047, 511}, {1024, 1024}, {1025, 1023}})
	if c.Thorough {
		histories = append(histories, [][2]int{{4200, 4100}, {4100, 4100}, {4099, 4101}, {2100, 2100}, {8000, 2100}, {2048, 2048}, {2047, 2049}},
			[][2]int{{1 << 20, 3}, {3, 1 << 20}, {1500, 700}, {700, 1500}, {1024, 1023}, {1023, 1024}})
	}
	for hi, hist := range histories {
		for variant := 0; variant < 2; variant++ { // variant 0: Global and Local in every call; variant 1: Local in every other call only
			c.Case(int64(2*hi+variant), func(k *K) {
				r := k.Rand()
				alpha := []byte("acgt")
				k.Input("table_shapes", fmt.Sprint(hist))
				for t, sh := range hist {
					m, local := gen(r, 0, alpha)
					if (t+variant)%3 == 2 {
						// the scoring people use for DNA: match 5, mismatch -4, gap extension -1 or -0.5 — and, where the
						// property allows a gap-open cost (the generated matrix has one), -10 or -20
						open := 0.0
						if mget(m, gapB, gapB) != 0 {
							open = pick(r, []float64{-10, -20})
						}
						m = dnaMatrix(alpha, 5, -4, pick(r, []float64{-1, -0.5}), open)
						local = true
					}
					a := randSeq(r, alpha, sh[0])
					b := make([]byte, sh[1])
					switch rel := (t + hi) % 4; rel {
					case 0, 1: // b follows a, stretched or squeezed to its own length, with substitutions
						for j := range b {
							b[j] = a[j*len(a)/len(b)]
						}
					case 2: // b is a window of a (a overhangs on both sides), or a a window of b
						if len(a) >= len(b) {
							copy(b, a[r.IntN(len(a)-len(b)+1):])
						} else {
							copy(b, randSeq(r, alpha, len(b)))
							copy(b[r.IntN(len(b)-len(a)+1):], a)
						}
					default: // a = P X Q, b = P Q Y: a segment moved, the rest identical along the main diagonal
						n := min(len(a), len(b))
						x := 20 + r.IntN(60)
						q := min(30+r.IntN(40), n/4)
						if n > 2*(x+q) {
							p := n - x - q
							copy(b, a[:p])
							copy(b[p:], a[p+x:p+x+q])
							copy(b[p+q:], randSeq(r, alpha, len(b)-p-q))
						} else {
							copy(b, a)
						}
					}
					for j := range b {
						if r.IntN(12) == 0 {
							b[j] = alpha[r.IntN(len(alpha))]
						}
					}
					if (t+hi+variant)%3 == 1 {
						// a NON-SQUARE matrix: a uses only two of the symbols and the matrix has rows for those two only
						// (plus the gap row), b and the columns keep all four — every pair an alignment of a with b can
						// ask for is there, and nothing else
						sub := alpha[:2]
						for j := range a {
							if a[j] != sub[0] && a[j] != sub[1] {
								a[j] = sub[j%2]
							}
						}
						m2 := align.SubstitutionMatrix{}
						for key, v := range m {
							if key[0] == gapB || key[0] == sub[0] || key[0] == sub[1] {
								m2[key] = v
							}
						}
						m = m2
						k.Count("large_calls_with_non_square_matrices", 1)
					}
					if variant == 1 && t == 1 {
						// Twenty large calls that PANIC as documented (a symbol the matrix does not score, met in
						// the last row) and are recovered, as a server or a worker pool would: whatever a call holds
						// while it runs — a pooled table, a slot of a limiter — must be given back on that path too,
						// or the calls after them starve (the watchdog pins a call that never returns).
						bad := append(append([]byte{}, a...), 'Z')
						for p := 0; p < 20; p++ {
							if !expectPanic(func() {
								if p%2 == 0 {
									align.Global(bad, b, m)
								} else {
									align.Local(bad, b, m)
								}
							}) {
								k.Failf("missing-panic", "a sequence with a symbol that the matrix does not score did not make Global/Local panic (table of %d x %d cells)", len(bad)+1, len(b)+1)
								return
							}
						}
						k.Count("recovered_panicking_large_calls", 20)
					}
					oo := o
					oo.local = local && o.local && (variant == 0 || t%2 == 1)
					k.Input("call", t)
					k.Input("len_a", sh[0])
					k.Input("len_b", sh[1])
					k.Input("local", oo.local)
					k.Input("a_head", a[:min(len(a), 64)])
					k.Input("matrix", matrixDesc(m))
					alignCase(k, a, b, m, oo)
					if k.Failed() {
						return
					}
					k.Count("large_calls_in_one_process", 1)
				}
				k.Nontrivial([]byte(fmt.Sprint("largecalls", hist, variant)))
			})
		}
	}
}

// dnaMatrix: match / mismatch / per-character gap / gap-open over the alphabet.
func dnaMatrix(alpha []byte, match, mismatch, gap, open float64) align.SubstitutionMatrix {
	m := align.SubstitutionMatrix{}
	for _, x := range alpha {
		for _, y := range alpha {
			if x == y {
				m[[2]byte{x, y}] = match
			} else {
				m[[2]byte{x, y}] = mismatch
			}
		}
		m[[2]byte{x, align.Gap}], m[[2]byte{align.Gap, x}] = gap, gap
	}
	m[[2]byte{align.Gap, align.Gap}] = open
	return m
}

// alignAlphabet: the usual letters, the extreme byte values (0 first, so that
// sequences begin with a NUL; 255 is the gap symbol), or a fresh draw from all
// 255 byte values — over a long run of calls in one process every character is
// then used at irregular intervals, with a different matrix each time.
func alignAlphabet(r *rand.Rand) []byte {
	switch r.IntN(7) {
	case 6:
		// letters that real sequences are made of, a base (or residue) together with its
		// lower-case twin — soft-masked DNA — which a matrix is free to score differently
		letters := pick(r, []string{"ACGT", "ACGT", "ACGTN", "ACGU", "ARNDCQEGHILKMFPSTWYVBZX*"})
		b := letters[r.IntN(len(letters))]
		out := []byte{b, b | 0x20}
		for len(out) < 2+r.IntN(3) {
			c := letters[r.IntN(len(letters))]
			if r.IntN(2) == 0 {
				c |= 0x20
			}
			if !bytes.Contains(out, []byte{c}) {
				out = append(out, c)
			}
		}
		r.Shuffle(len(out), func(i, j int) { out[i], out[j] = out[j], out[i] })
		return out
	case 0:
		return []byte{0, 254, 'a', '\n'}[:2+r.IntN(3)]
	case 1, 2:
		n := 2 + r.IntN(3)
		perm := r.Perm(255)
		out := make([]byte, n)
		for i := range out {
			out[i] = byte(perm[i])
		}
		return out
	}
	return []byte("acgt")[:2+r.IntN(3)]
}

// alignManyCalls: long histories of small calls in ONE process, in which
// characters come back after exactly 2^8 / 2^16 calls (and one call more or
// less) with a different matrix each time — a memo keyed by character whose
// generation counter or age wraps goes stale exactly then. Every call is
// checked (re-scoring; optimum when the matrix has no gap-open cost).
func alignManyCalls(c *Ctx, o alignOpts, gen func(r *rand.Rand, mi int, alpha []byte) (align.SubstitutionMatrix, bool)) {
	periods := []int{255, 256, 257}
	if c.Thorough {
		periods = append(periods, 65535, 65536, 65537)
	} else {
		periods = append(periods, 65536)
	}
	for pi, period := range periods {
		c.Case(int64(pi), func(k *K) {
			r := k.Rand()
			const rare = 50 // characters 200..249 come back once per period; 0..199 fill the other calls
			spacing := max(1, period/rare)
			calls := 3*period + 10
			k.Input("period", period)
			k.Input("calls", calls)
			for t := 0; t < calls && !k.Failed(); t++ {
				slot := t % period
				var alpha []byte
				if slot%spacing == 0 && slot/spacing < rare {
					alpha = []byte{byte(200 + slot/spacing), byte(t % 200)}
				} else {
					alpha = []byte{byte(t % 200), byte((t*7 + 3) % 200)}
					if alpha[0] == alpha[1] {
						alpha[1] = byte((int(alpha[1]) + 1) % 200)
					}
				}
				m, local := gen(r, 0, alpha)
				a := []byte{alpha[0], alpha[1], alpha[0], alpha[0]}[:2+t%3]
				b := []byte{alpha[0], alpha[0], alpha[1], alpha[0]}[:1+(t/3)%4]
				oo := o
				oo.local = local && o.local
				k.Input("call", t)
				k.Input("a", a)
				k.Input("b", b)
				k.Input("matrix", matrixDesc(m))
				alignCase(k, a, b, m, oo)
			}
			k.Count("long_call_histories", 1)
			k.Count("calls_in_long_histories", int64(calls))
			k.Nontrivial([]byte(fmt.Sprint("manycalls", period)))
		})
	}
}

// alignThin: one sequence of one to three symbols against one of MILLIONS — a
// primer, an adapter, a codon against a chromosome arm — with integer scores
// of ordinary size for substitutions and a gap score in the hundreds or a
// thousand. Every single score fits any narrow number type; the total (a few
// million gaps) passes 2^31, and a row of the table is longer than 2^22 cells,
// more than any per-row bookkeeping sized for ordinary tables expects.
func alignThin(c *Ctx, o alignOpts, open float64) {
	shapes := [][2]int{{1, 1<<22 + 5}, {3, 1<<21 + 1<<17}, {1<<22 + 5, 1}}
	if c.Thorough {
		shapes = append(shapes, [2]int{2, 1<<23 + 1}, [2]int{1<<21 + 1<<17, 3})
	}
	for i, sh := range shapes {
		c.Case(int64(i), func(k *K) {
			r := k.Rand()
			alpha := []byte("ACGT")
			m := dnaMatrix(alpha, 5, -4, pick(r, []float64{-1000, -1000, -1024, -997}), open)
			long := bytes.Repeat([]byte("AC"), max(sh[0], sh[1])/2+1)[:max(sh[0], sh[1])]
			short := []byte("ACA")[:min(sh[0], sh[1])]
			a, b := short, long
			if sh[0] > sh[1] {
				a, b = long, short
			}
			k.Input("len_a", len(a))
			k.Input("len_b", len(b))
			k.Input("matrix", matrixDesc(m))
			oo := o
			oo.local = true
			alignCase(k, a, b, m, oo)
			k.Count("thin_tables", 1)
			k.Count("large_table_cases", 1)
			k.Nontrivial([]byte(fmt.Sprint("thin", sh)), []byte(matrixString(m)))
		})
	}
}

func easyPair(i int, x, tail []byte) (a, b []byte) {
	// rotations: equal lengths, the same content shifted by one to three symbols (the diagonal is almost as good
	// as the shifted alignment with one gap at each end)
	switch i % 24 {
	case 6:
		return append(append([]byte{}, x...), tail...), append(append([]byte{}, tail...), x...)
	case 13:
		return append(append([]byte{}, tail...), x...), append(append([]byte{}, x...), tail...)
	}
	switch i % 6 {
	case 0:
		return append(append([]byte{}, x...), tail...), x
	case 1:
		return x, append(append([]byte{}, x...), tail...)
	case 2:
		return append(append([]byte{}, tail...), x...), x
	case 3:
		return x, append(append([]byte{}, tail...), x...)
	case 4:
		return x, append([]byte{}, x...)
	}
	return append(append(append([]byte{}, tail...), x...), tail...), x
}

// alignNeedles: Local on tables of 2^20 cells and more that hold ONE positive
// cell — a single matching pair in two otherwise unrelated sequences — placed
// where a table that is scanned in blocks, or by several workers, has its
// seams: at k/d of the flat table (d = 2, 4, 8; thorough also 3, 5, 6, 7, 16),
// rounded up and down, one cell before and after. The answer is known in closed
// form: one Match at that place, with that score.
func alignNeedles(c *Ctx) {
	la, lb := 1024, 1024
	cells := (la + 1) * (lb + 1)
	ds := []int{2, 4, 8}
	if c.Thorough {
		ds = []int{2, 3, 4, 5, 6, 7, 8, 16}
	}
	seen := map[int]bool{}
	var flats []int
	for _, d := range ds {
		for kq := 1; kq < d; kq++ {
			for _, q := range []int{(cells + d - 1) / d, cells / d} {
				for delta := -1; delta <= 1; delta++ {
					f := kq*q + delta
					if !seen[f] && f > 0 && f < cells {
						seen[f] = true
						flats = append(flats, f)
					}
				}
			}
		}
	}
	m := align.SubstitutionMatrix{}
	for _, x := range []byte("ACG") {
		for _, y := range []byte("ACG") {
			m[[2]byte{x, y}] = -1
		}
		m[[2]byte{x, gapB}], m[[2]byte{gapB, x}] = -1, -1
	}
	m[[2]byte{'G', 'G'}] = 3
	m[[2]byte{gapB, gapB}] = 0
	for i, f := range flats {
		c.Case(int64(i), func(k *K) {
			for _, transposed := range []bool{false, true} {
				ai, bi := f/(lb+1), f%(lb+1)
				if transposed {
					ai, bi = bi, ai
				}
				if ai == 0 || bi == 0 {
					continue
				}
				a, b := bytes.Repeat([]byte("A"), la), bytes.Repeat([]byte("C"), lb)
				a[ai-1], b[bi-1] = 'G', 'G'
				k.Input("needle_cell", fmt.Sprintf("row %d, column %d of a %d x %d table (flat index %d)", ai, bi, la+1, lb+1, f))
				steps, sa, sb, score := align.Local(a, b, m)
				if len(steps) != 1 || steps[0] != align.Match || sa != ai-1 || sb != bi-1 || score != 3 {
					k.Failf("local-needle", "Local on two unrelated sequences of %d and %d symbols with one matching pair at (%d, %d): got %d steps from (%d, %d) scoring %v, want one Match from (%d, %d) scoring 3", la, lb, ai-1, bi-1, len(steps), sa, sb, score, ai-1, bi-1)
					return
				}
				k.Count("needle_tables", 1)
				k.Count("large_table_cases", 1)
				k.Evals(1)
			}
			k.Nontrivial([]byte(fmt.Sprint("needle", f)))
		})
	}
}
