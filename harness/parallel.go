package main

// "parallel" units (-race build): schedules. Every property is stated for
// calls; nothing in them says "one call at a time". G goroutines run
// self-checking sequential workloads at the same time — each on its OWN data
// (own records, buffers, tries, matrices), or all of them read-only on the same
// tree / matrix / index. A library without hidden shared mutable state is
// indifferent to this; a package-level scratch buffer, cache or "last result"
// shows up as a wrong result in some goroutine or as a race report.

import (
	"bufio"
	"bytes"
	"fmt"
	"io"
	"iter"
	"math/rand/v2"
	"strings"
	"sync"

	"github.com/fluhus/biostuff/align"
	"github.com/fluhus/biostuff/formats/newick"
	"github.com/fluhus/biostuff/mash"
	"github.com/fluhus/biostuff/sequtil"
	"github.com/fluhus/biostuff/trie"
)

// runParallel runs work(g, r) in goroutines; work returns "" or a description
// of what went wrong. Each goroutine has its own generator derived from the
// case's.
func runParallel(k *K, goroutines int, work func(g int, r *rand.Rand) string) {
	r := k.Rand()
	seeds := make([][2]uint64, goroutines)
	for i := range seeds {
		seeds[i] = [2]uint64{r.Uint64(), r.Uint64()}
	}
	errs := make([]string, goroutines)
	var wg sync.WaitGroup
	start := make(chan struct{})
	for g := 0; g < goroutines; g++ {
		wg.Add(1)
		go func() {
			defer wg.Done()
			defer func() {
				if p := recover(); p != nil {
					errs[g] = fmt.Sprintf("panic: %v", p)
				}
			}()
			<-start
			errs[g] = work(g, rand.New(rand.NewPCG(seeds[g][0], seeds[g][1])))
		}()
	}
	close(start)
	wg.Wait()
	for g, e := range errs {
		if e != "" {
			k.Failf("parallel", "goroutine %d of %d running at the same time: %s", g, goroutines, e)
			return
		}
	}
	k.Count("parallel_goroutines", int64(goroutines))
}

// codecParallel: histories and schedules for the readers of the given formats.
// Each case runs, in ONE process and in this order:
//  1. a "wear" phase: iterations that end in every unusual way — a malformed
//     text read to its error item, a failing reader, a consumer that stops
//     after the first item, one iterator value ranged twice, File on a
//     missing path (what they return is not judged here; other units do that);
//  2. a lockstep phase: three readers over three different well-formed texts
//     are open at the same time and advanced in turn (iter.Pull2), each must
//     deliver exactly its own records;
//  3. a parallel phase: eight goroutines do independent write -> read round
//     trips at the same time (-race build: any race report is a violation).
//
// Whatever an abnormal end leaves behind in pools, caches or package-level
// state must not leak into readers that are opened later.
func codecParallel(formats ...string) func(c *Ctx) {
	return func(c *Ctx) {
		n := c.N(6, 60)
		idx := int64(0)
		for _, format := range formats {
			cd := codecByName(format)
			gen := format
			if gen == "samh" {
				gen = "sam"
			}
			for i := 0; i < n; i++ {
				c.Case(idx, func(k *K) {
					k.Input("format", format)
					r := k.Rand()
					kept := codecWear(k, r, cd, gen)
					if !codecLockstep(k, r, cd, gen, format, kept...) {
						return
					}
					// parallel
					runParallel(k, 8, func(g int, r *rand.Rand) string {
						for it := 0; it < 40; it++ {
							var text bytes.Buffer
							var want []item
							field := r.IntN(textFieldCount[gen])
							val := string(randBytesExcl(r, r.IntN(30), samTextExcl))
							if gen == "sam" && len(val) > 0 && val[0] == '@' || gen == "bed" && len(val) > 0 && val[0] == '#' {
								val = "x" + val
							}
							if gen == "fasta" && field == 1 {
								val = string(randSeq(r, []byte("ACGTN"), r.IntN(300)))
							}
							for j := 0; j < 1+r.IntN(4); j++ {
								rec, ok, skip := fieldRecord(r, gen, field, val, j, &text)
								if ok && !skip {
									want = append(want, rec)
								}
							}
							got, over := collect(cd.seq(bytes.NewReader(text.Bytes())), len(want)+3)
							if over || !sameTrace(got, want) {
								return fmt.Sprintf("%s round trip %d decodes differently:\n got  %s\n want %s", format, it, traceString(got), traceString(want))
							}
						}
						return ""
					})
					k.Count("parallel_roundtrips", 8*40)
					k.Evals(8*40 - 1)
					k.Nontrivial([]byte(format), []byte{byte(i)})
				})
				idx++
			}
		}
	}
}

// codecHistories (plain build, one goroutine, so that whatever a pool or cache
// hands out is deterministic): rounds of wear, lockstep and nested readers.
func codecHistories(formats ...string) func(c *Ctx) {
	return func(c *Ctx) {
		n := c.N(8, 80)
		idx := int64(0)
		for _, format := range formats {
			cd := codecByName(format)
			gen := format
			if gen == "samh" {
				gen = "sam"
			}
			for i := 0; i < n; i++ {
				c.Case(idx, func(k *K) {
					k.Input("format", format)
					r := k.Rand()
					for round := 0; round < 4; round++ {
						kept := codecWear(k, r, cd, gen)
						if !codecLockstep(k, r, cd, gen, format, kept...) || !codecNested(k, r, cd, gen, format) {
							return
						}
					}
					k.Evals(7)
					k.Nontrivial([]byte(format), []byte{byte(i)})
				})
				idx++
			}
		}
	}
}

// codecWear: iterations that end in every unusual way.
//
// It also leaves behind what a caller may legitimately still hold: its OWN
// *bufio.Reader objects (of several sizes) that it handed to the decoder as the
// io.Reader of an iteration that has ended (completely, or stopped early). They
// are the caller's; it goes on using them (codecLockstep resets one onto its
// next input).
func codecWear(k *K, r *rand.Rand, cd *codec, gen string) (kept []*bufio.Reader) {
	for w := 0; w < 6; w++ {
		{
			own := bufio.NewReaderSize(bytes.NewReader(plainWellFormed(r, gen)), pick(r, []int{16, 4096, 4096, 8192, 65536}))
			catch(func() {
				for range cd.seq(own) {
					if w%2 == 0 {
						break
					}
				}
			})
			kept = append(kept, own)
		}
		x := nearValid(r, gen)
		catch(func() { collect(cd.seq(bytes.NewReader(x)), len(x)+8) })
		catch(func() {
			collect(cd.seq(&faultReader{data: x, k: r.IntN(len(x) + 1), forever: w%2 == 0, budget: len(x) + 10000, err: faultErrors[w%len(faultErrors)]}), 2*len(x)+16)
		})
		wf := plainWellFormed(r, gen)
		catch(func() {
			for range cd.seq(bytes.NewReader(wf)) {
				break
			}
		})
		catch(func() {
			one := cd.seq(bytes.NewReader(wf))
			collect(one, len(wf)+8)
			collect(one, len(wf)+8)
		})
		catch(func() { collect(cd.file("/nonexistent/dir/x"+cd.ext), 4) })
	}
	k.Count("wear_iterations", 6*6)
	return kept
}

func wellFormedAtLeast(r *rand.Rand, gen string, n int) []byte {
	x := plainWellFormed(r, gen)
	for len(x) < n {
		x = append(x, plainWellFormed(r, gen)...)
	}
	return x
}

// codecLockstep: three readers over different texts, open at once, advanced in turn.
func codecLockstep(k *K, r *rand.Rand, cd *codec, gen, format string, kept ...*bufio.Reader) bool {
	type stream struct {
		want []item
		next func() (string, error, bool)
		stop func()
		got  []item
	}
	var streams []*stream
	for s := 0; s < 3; s++ {
		x := wellFormedAtLeast(r, gen, 300)
		want, _ := collect(cd.seq(bytes.NewReader(x)), len(x)+8)
		// the inputs arrive through io.Readers of different dynamic types; the first one through a *bufio.Reader
		// the caller already used for an earlier, finished iteration and has now reset onto this input
		var src io.Reader = bytes.NewReader(x)
		switch {
		case s == 0 && len(kept) > 0:
			own := kept[r.IntN(len(kept))]
			own.Reset(bytes.NewReader(x))
			src = own
			k.Count("lockstep_streams_through_a_reused_bufio_reader", 1)
		case s == 1:
			src = strings.NewReader(string(x))
		case s == 2 && r.IntN(2) == 0:
			src = io.MultiReader(bytes.NewReader(x[:len(x)/2]), bufio.NewReaderSize(bytes.NewReader(x[len(x)/2:]), 4096))
		}
		next, stop := iter.Pull2(cd.seq(src))
		streams = append(streams, &stream{want: want, next: next, stop: stop})
	}
	for live := len(streams); live > 0; {
		live = 0
		for _, st := range streams {
			if st.next == nil {
				continue
			}
			key, err, ok := st.next()
			if !ok || len(st.got) > len(st.want)+2 {
				st.stop()
				st.next = nil
				continue
			}
			st.got = append(st.got, item{Key: key, Err: err != nil})
			live++
		}
	}
	for si, st := range streams {
		if !sameTrace(st.got, st.want) {
			k.Failf("lockstep", "%s: reader %d of three that were open at the same time and advanced in turn delivered\n got  %s\n want %s (what it delivers alone)", format, si, traceString(st.got), traceString(st.want))
			return false
		}
	}
	k.Count("lockstep_streams", 3)
	return true
}

// codecNested: inside the loop over one stream, at every item, another reader
// over another text is opened and read (completely, or abandoned after its
// first item) — all in one goroutine.
func codecNested(k *K, r *rand.Rand, cd *codec, gen, format string) bool {
	outer := wellFormedAtLeast(r, gen, 300)
	inner := wellFormedAtLeast(r, gen, 100)
	wantOuter, _ := collect(cd.seq(bytes.NewReader(outer)), len(outer)+8)
	wantInner, _ := collect(cd.seq(bytes.NewReader(inner)), len(inner)+8)
	var got []item
	n := 0
	for key, err := range cd.seq(bytes.NewReader(outer)) {
		got = append(got, item{Key: key, Err: err != nil})
		if len(got) > len(wantOuter)+2 {
			break
		}
		n++
		if n%2 == 0 {
			for range cd.seq(bytes.NewReader(inner)) {
				break
			}
			continue
		}
		in, over := collect(cd.seq(bytes.NewReader(inner)), len(inner)+8)
		if over || !sameTrace(in, wantInner) {
			k.Failf("nested", "%s: a reader opened and read inside the loop over another reader delivered\n got  %s\n want %s", format, traceString(in), traceString(wantInner))
			return false
		}
	}
	if !sameTrace(got, wantOuter) {
		k.Failf("nested", "%s: a reader inside whose loop other readers were opened (and read or abandoned) delivered\n got  %s\n want %s", format, traceString(got), traceString(wantOuter))
		return false
	}
	k.Count("nested_streams", 1)
	return true
}

func alignParallel(c *Ctx) {
	n := c.N(6, 60)
	for i := 0; i < n; i++ {
		c.Case(int64(i), func(k *K) {
			shared, _ := c08Gen(k.Rand(), 0, []byte("acgt")) // one matrix read by everybody, plus a private one each
			runParallel(k, 8, func(g int, r *rand.Rand) string {
				alpha := []byte("acgt")
				own, _ := c08Gen(r, 0, alpha)
				for it := 0; it < 30; it++ {
					m := own
					if it%2 == 1 {
						m = shared
					}
					a, b := relatedPair(r, alpha, 40)
					steps, score := align.Global(a, b, m)
					if rs, ca, cb, prob := rescore(a, b, m, steps, 0, 0); prob != "" || ca != len(a) || cb != len(b) || rs != score {
						return fmt.Sprintf("Global(%q,%q) returned %v, its steps %s re-score to %v (%s)", a, b, score, stepsString(steps), rs, prob)
					}
					ls, ai, bi, lscore := align.Local(a, b, m)
					if len(ls) > 0 {
						if rs, _, _, prob := rescore(a, b, m, ls, ai, bi); prob != "" || rs != lscore {
							return fmt.Sprintf("Local(%q,%q) returned %v, its steps re-score to %v (%s)", a, b, lscore, rs, prob)
						}
					}
					if g := gotohGlobal(a, b, m); mget(m, gapB, gapB) == 0 && score != g {
						return fmt.Sprintf("Global(%q,%q) returned %v, optimum %v", a, b, score, g)
					}
				}
				return ""
			})
			k.Count("parallel_alignments", 8*30*2)
			k.Evals(8*30 - 1)
			k.Nontrivial([]byte(matrixString(shared)), []byte{byte(i)})
		})
	}
}

func sequtilParallel(which string) func(c *Ctx) {
	return func(c *Ctx) {
		n := c.N(6, 60)
		for i := 0; i < n; i++ {
			c.Case(int64(i), func(k *K) {
				runParallel(k, 8, func(g int, r *rand.Rand) string {
					for it := 0; it < 60; it++ {
						l := r.IntN(200)
						switch which {
						case "revcomp":
							s := randSeq(r, []byte(dna10), l)
							prefix := randSeq(r, []byte(dna10), r.IntN(5))
							got := sequtil.ReverseComplement(withCap(prefix, pick(r, []int{0, 1, l})), s)
							if w := append(append([]byte{}, prefix...), refRevComp(s)...); !bytes.Equal(got, w) {
								return fmt.Sprintf("ReverseComplement(%q, %q) = %q, want %q", prefix, s, got, w)
							}
							if gs := sequtil.ReverseComplementString(string(s)); gs != string(refRevComp(s)) {
								return fmt.Sprintf("ReverseComplementString(%q) = %q", s, gs)
							}
							kk := 1 + r.IntN(12)
							j := 0
							for kmer := range sequtil.CanonicalSubsequences(s, kk) {
								if j+kk > len(s) || !bytes.Equal(kmer, refCanonical(s[j:j+kk])) {
									return fmt.Sprintf("CanonicalSubsequences(%q,%d) item %d = %q", s, kk, j, kmer)
								}
								j++
							}
							if j != max(0, len(s)-kk+1) {
								return fmt.Sprintf("CanonicalSubsequences(%q,%d) yields %d items", s, kk, j)
							}
						case "pack":
							s := randSeq(r, []byte(dna8), l)
							prefix := randBytesExcl(r, r.IntN(5), nil)
							got := sequtil.DNATo2Bit(withCap(prefix, pick(r, []int{0, 1, (l + 3) / 4})), s)
							if w := append(append([]byte{}, prefix...), refPack(s)...); !bytes.Equal(got, w) {
								return fmt.Sprintf("DNATo2Bit(%x, %q) = %x, want %x", prefix, s, got, w)
							}
							if un := sequtil.DNAFrom2Bit(nil, refPack(s)); !bytes.Equal(un, refUnpack(refPack(s))) {
								return fmt.Sprintf("DNAFrom2Bit(pack(%q)) = %q", s, un)
							}
						default: // translate
							s := randSeq(r, []byte("ACGTacgt"), 3*r.IntN(60))
							if got, w := sequtil.Translate(nil, s), refTranslate(s); !bytes.Equal(got, w) {
								return fmt.Sprintf("Translate(%q) = %q, want %q", s, got, w)
							}
							s2 := randSeq(r, []byte("ACGTacgt"), r.IntN(100))
							fr := sequtil.TranslateReadingFrames(s2)
							for f := 0; f < 3; f++ {
								sub := s2[min(f, len(s2)):]
								sub = sub[:len(sub)/3*3]
								if !bytes.Equal(fr[f], refTranslate(sub)) {
									return fmt.Sprintf("TranslateReadingFrames(%q)[%d] = %q", s2, f, fr[f])
								}
							}
						}
					}
					return ""
				})
				k.Count("parallel_calls", 8*60)
				k.Evals(8*60 - 1)
				k.Nontrivial([]byte(which), []byte{byte(i)})
			})
		}
	}
}

func trieParallel(c *Ctx) {
	n := c.N(6, 60)
	for i := 0; i < n; i++ {
		c.Case(int64(i), func(k *K) {
			runParallel(k, 8, func(g int, r *rand.Rand) string {
				t, m := trie.New(), newSetModel()
				alpha := []byte("abc")
				for it := 0; it < 60; it++ {
					s := string(randSeq(r, alpha, 1+r.IntN(5)))
					if r.IntN(3) == 0 {
						if got, want := t.Delete([]byte(s)), m.Delete(s); got != want {
							return fmt.Sprintf("Delete(%q) = %v, model %v", s, got, want)
						}
					} else {
						t.Add([]byte(s))
						m.Add(s)
					}
					probe := string(randSeq(r, alpha, r.IntN(5)))
					if got, want := t.Has([]byte(probe)), m.Has(probe); got != want {
						return fmt.Sprintf("Has(%q) = %v, model %v (members %s)", probe, got, want, m.Canon())
					}
					if it%10 == 9 {
						seen := map[string]bool{}
						t.ForEach(func(b []byte) bool { seen[string(b)] = true; return true })
						if len(seen) != len(m.Members()) {
							return fmt.Sprintf("ForEach reports %d members, model has %s", len(seen), m.Canon())
						}
						for _, x := range m.Members() {
							if !seen[x] {
								return fmt.Sprintf("ForEach misses %q", x)
							}
						}
						b, err := t.MarshalJSON()
						t2 := trie.New()
						if err != nil || t2.UnmarshalJSON(b) != nil {
							return "JSON round trip failed"
						}
						for _, x := range m.Members() {
							if !t2.Has([]byte(x)) {
								return fmt.Sprintf("JSON-rebuilt trie lacks %q", x)
							}
						}
					}
				}
				return ""
			})
			k.Count("parallel_histories", 8)
			k.Evals(7)
			k.Nontrivial([]byte("trie"), []byte{byte(i)})
		})
	}
}

func mashParallel(c *Ctx) {
	n := c.N(4, 40)
	for i := 0; i < n; i++ {
		c.Case(int64(i), func(k *K) {
			runParallel(k, 8, func(g int, r *rand.Rand) string {
				h := &hashOracle{memo: map[string]uint64{}}
				for it := 0; it < 10; it++ {
					kk := 2 + r.IntN(8)
					size := 1 + r.IntN(40)
					seqs := [][]byte{randSeq(r, []byte("ACGTacgtNn"), r.IntN(150)), randSeq(r, []byte("ACGT"), r.IntN(150))}
					got := append([]uint64{}, mash.Sequences(size, kk, seqs...).View()...)
					if want := refSketch(h, size, kk, seqs); !sameU64(got, want) {
						return fmt.Sprintf("Sequences(%d,%d,%q) = %v, brute force %v", size, kk, seqs, got, want)
					}
					rc := [][]byte{refRevComp(seqs[1]), bytes.ToLower(seqs[0])}
					if v := mash.Sequences(size, kk, rc...).View(); !sameU64(v, got) {
						return fmt.Sprintf("sketch changes under strand/case/order: %v vs %v", v, got)
					}
				}
				return ""
			})
			k.Count("parallel_sketches", 8*10)
			k.Evals(8*10 - 1)
			k.Nontrivial([]byte("mash"), []byte{byte(i)})
		})
	}
}

// treeParallel: all goroutines traverse the SAME tree (read-only), some of
// them stopping early, plus private trees.
func treeParallel(c *Ctx) {
	n := c.N(6, 60)
	for i := 0; i < n; i++ {
		c.Case(int64(i), func(k *K) {
			root, nodes := randomTree(k.Rand(), 50+k.Rand().IntN(400), k.Rand().IntN(4))
			for j, nd := range nodes {
				nd.Name = fmt.Sprint(j)
			}
			wantPre, wantPost := refPreOrder(root), refPostOrder(root)
			before := treeKey(root)
			runParallel(k, 8, func(g int, r *rand.Rand) string {
				own, _ := randomTree(r, 1+r.IntN(100), r.IntN(4))
				ownPre, ownPost := refPreOrder(own), refPostOrder(own)
				for it := 0; it < 10; it++ {
					for _, tc := range []struct {
						root      *newick.Node
						pre, post []*newick.Node
					}{{root, wantPre, wantPost}, {own, ownPre, ownPost}} {
						var pre, post []*newick.Node
						for nd := range tc.root.PreOrder() {
							pre = append(pre, nd)
						}
						stop := len(tc.post)
						if r.IntN(3) == 0 {
							stop = r.IntN(len(tc.post) + 1)
						}
						for nd := range tc.root.PostOrder() {
							if len(post) >= stop {
								break
							}
							post = append(post, nd)
						}
						if !samePtrs(pre, tc.pre) || !samePtrs(post, tc.post[:len(post)]) || len(post) != stop {
							return fmt.Sprintf("traversal differs from the recursive order (%d/%d nodes of %d)", len(pre), len(post), len(tc.pre))
						}
					}
				}
				return ""
			})
			if treeKey(root) != before {
				k.Failf("tree-modified", "the shared tree changed")
			}
			k.Count("parallel_traversals", 8*10*4)
			k.Evals(8*10 - 1)
			k.Nontrivial([]byte(before))
		})
	}
}

// matrixParallel: Symmetrical, GoString and Get on one shared matrix.
func matrixParallel(c *Ctx) {
	n := c.N(6, 60)
	for i := 0; i < n; i++ {
		c.Case(int64(i), func(k *K) {
			r0 := k.Rand()
			alpha := append(genLabels(r0, 2+r0.IntN(6)), align.Gap)
			m := align.SubstitutionMatrix{}
			for _, x := range alpha {
				for _, y := range alpha {
					if x <= y && r0.IntN(5) > 0 {
						m[[2]byte{x, y}] = float64(r0.IntN(9) - 4)
					}
				}
			}
			if len(m) == 0 {
				m[[2]byte{'A', 'A'}] = 1
			}
			snap := copyMatrix(m)
			ref := m.GoString()
			runParallel(k, 8, func(g int, r *rand.Rand) string {
				for it := 0; it < 20; it++ {
					sym := m.Symmetrical()
					for key, v := range snap {
						if sym[key] != v || sym[[2]byte{key[1], key[0]}] != v {
							return fmt.Sprintf("Symmetrical lacks %v or its mirror image", key)
						}
					}
					if gs := m.GoString(); gs != ref {
						return "GoString differs between calls on an unchanged matrix"
					}
					for key, v := range snap {
						if m.Get(key[0], key[1]) != v {
							return fmt.Sprintf("Get(%v) changed", key)
						}
						break
					}
				}
				return ""
			})
			if d := sameMatrix(m, snap); d != "" {
				k.Failf("receiver-modified", "the shared matrix changed: %s", d)
			}
			k.Count("parallel_matrix_calls", 8*20*3)
			k.Evals(8*20 - 1)
			k.Nontrivial([]byte(ref))
		})
	}
}
