package main

// "firstcall" units: every case runs in a process of its own (the unit has as
// many shards as cases) and makes one exported function the FIRST thing that
// process asks of the library — tables built lazily, sync.Once initialisers and
// package-level state set up "by whichever function runs first" are right for
// every entry point but the one that was forgotten.

import (
	"bytes"
	"fmt"
	"os"
	"path/filepath"
	"strings"

	"github.com/fluhus/biostuff/align"
	"github.com/fluhus/biostuff/formats/newick"
	"github.com/fluhus/biostuff/formats/smtext"
	"github.com/fluhus/biostuff/mash"
	"github.com/fluhus/biostuff/regions"
	"github.com/fluhus/biostuff/sequtil"
	"github.com/fluhus/biostuff/trie"
)

type firstCase struct {
	name string
	run  func(k *K) string // "" or what went wrong
}

func firstCallUnit(cases []firstCase) Unit {
	return Unit{Name: "firstcall", QShards: len(cases), TShards: len(cases), Run: func(c *Ctx) {
		for i, fc := range cases {
			c.Case(int64(i), func(k *K) {
				k.Input("first_call_of_the_process", fc.name)
				if msg := fc.run(k); msg != "" {
					k.Failf("first-call", "%s as the first library call of a fresh process: %s", fc.name, msg)
				}
				k.Count("first_calls", 1)
				k.Nontrivial([]byte(fc.name))
			})
		}
		c.Exhaustive(fmt.Sprintf("firstcall: each of %d entry points as the first library call of its own process", len(cases)))
	}}
}

func expectEq(what string, got, want any) string {
	if fmt.Sprint(got) != fmt.Sprint(want) {
		return fmt.Sprintf("%s = %.200v, want %.200v", what, got, want)
	}
	return ""
}

var firstSequtilRC = []firstCase{
	{"sequtil.ReverseComplement", func(k *K) string {
		return expectEq(`ReverseComplement("x", "aACgtNn")`, string(sequtil.ReverseComplement([]byte("x"), []byte("aACgtNn"))), "x"+string(refRevComp([]byte("aACgtNn"))))
	}},
	{"sequtil.ReverseComplementString", func(k *K) string {
		return expectEq(`ReverseComplementString("aACgtNn")`, sequtil.ReverseComplementString("aACgtNn"), string(refRevComp([]byte("aACgtNn"))))
	}},
	{"sequtil.CanonicalSubsequences", func(k *K) string {
		var got []string
		for kmer := range sequtil.CanonicalSubsequences([]byte("TTGCAn"), 3) {
			got = append(got, string(kmer))
		}
		var want []string
		for i := 0; i+3 <= 6; i++ {
			want = append(want, string(refCanonical([]byte("TTGCAn")[i:i+3])))
		}
		return expectEq("CanonicalSubsequences(TTGCAn,3)", got, want)
	}},
	{"sequtil.ReverseComplementString (panic on a bad byte)", func(k *K) string {
		if !expectPanic(func() { sequtil.ReverseComplementString("ACxGT") }) {
			return "no panic for a byte outside aAcCgGtTnN"
		}
		return ""
	}},
}

var firstSequtilPack = []firstCase{
	{"sequtil.DNATo2Bit", func(k *K) string {
		return expectEq(`DNATo2Bit("p", "acGTTgca")`, sequtil.DNATo2Bit([]byte("p"), []byte("acGTTgca")), append([]byte("p"), refPack([]byte("acGTTgca"))...))
	}},
	{"sequtil.DNAFrom2Bit", func(k *K) string {
		return expectEq("DNAFrom2Bit(1b e4 00 ff)", string(sequtil.DNAFrom2Bit(nil, []byte{0x1b, 0xe4, 0, 0xff})), string(refUnpack([]byte{0x1b, 0xe4, 0, 0xff})))
	}},
	{"sequtil.Ntoi", func(k *K) string {
		var got, want []int
		for b := 0; b < 256; b++ {
			got, want = append(got, sequtil.Ntoi(byte(b))), append(want, refCode(byte(b)))
		}
		return expectEq("Ntoi over all bytes", got, want)
	}},
	{"sequtil.Iton", func(k *K) string {
		return expectEq("Iton(0..3)", string([]byte{sequtil.Iton(0), sequtil.Iton(1), sequtil.Iton(2), sequtil.Iton(3)}), "ACGT")
	}},
	{"sequtil.DNATo2Bit (panic on a bad byte)", func(k *K) string {
		if !expectPanic(func() { sequtil.DNATo2Bit(nil, []byte("ACNT")) }) {
			return "no panic for N"
		}
		return ""
	}},
}

var firstSequtilAmino = []firstCase{
	{"sequtil.Translate", func(k *K) string {
		s := []byte("ATGgctTAAtgG")
		return expectEq("Translate(ATGgctTAAtgG)", string(sequtil.Translate(nil, s)), string(refTranslate(s)))
	}},
	{"sequtil.TranslateReadingFrames", func(k *K) string {
		s := []byte("ATGgctTAAtgGc")
		fr := sequtil.TranslateReadingFrames(s)
		for f := 0; f < 3; f++ {
			sub := s[f:]
			sub = sub[:len(sub)/3*3]
			if e := expectEq(fmt.Sprint("frame ", f), string(fr[f]), string(refTranslate(sub))); e != "" {
				return e
			}
		}
		return ""
	}},
	{"sequtil.AminoName", func(k *K) string {
		a, b := sequtil.AminoName('w')
		c, d := sequtil.AminoName('W')
		if a == "" || b == "" || a != c || b != d {
			return fmt.Sprintf("AminoName('w') = %q,%q; AminoName('W') = %q,%q", a, b, c, d)
		}
		return ""
	}},
}

var firstMash = []firstCase{
	{"mash.Sequences", func(k *K) string {
		s := []byte("ACGTTGCAAGGCTTAACCGGATATCGCGNNACGT")
		a := append([]uint64{}, mash.Sequences(10, 5, s).View()...)
		b := mash.Sequences(10, 5, refRevComp(s)).View()
		if len(a) != 10 || !sameU64(a, b) {
			return fmt.Sprintf("sketch of a sequence %v differs from the sketch of its reverse complement %v (or is not full)", a, b)
		}
		return ""
	}},
	{"mash.Distance", func(k *K) string {
		s := []byte("ACGTTGCAAGGCTTAACCGGATATCGCGACGTTTGACA")
		if d := mash.Distance(mash.Sequences(8, 4, s), mash.Sequences(8, 4, bytes.ToLower(s)), 4); d != 0 {
			return fmt.Sprintf("Distance between a sequence and its lower-case spelling = %v", d)
		}
		return ""
	}},
	{"mash.FromJaccard", func(k *K) string {
		if d := mash.FromJaccard(1, 21); d != 0 {
			return fmt.Sprintf("FromJaccard(1,21) = %v", d)
		}
		if d := mash.FromJaccard(0, 21); d != 1 {
			return fmt.Sprintf("FromJaccard(0,21) = %v", d)
		}
		return ""
	}},
}

func firstAlign(which string) []firstCase {
	check := func(local bool, m align.SubstitutionMatrix, a, b string) string {
		if local {
			steps, ai, bi, score := align.Local([]byte(a), []byte(b), m)
			if len(steps) == 0 {
				return expectEq("Local score without steps", score, 0.0)
			}
			rs, _, _, prob := rescore([]byte(a), []byte(b), m, steps, ai, bi)
			if prob != "" || rs != score {
				return fmt.Sprintf("Local(%q,%q) returned %v, its steps re-score to %v (%s)", a, b, score, rs, prob)
			}
			if g := gotohLocal([]byte(a), []byte(b), m); mget(m, gapB, gapB) == 0 && g != score {
				return fmt.Sprintf("Local(%q,%q) returned %v, optimum %v", a, b, score, g)
			}
			return ""
		}
		steps, score := align.Global([]byte(a), []byte(b), m)
		rs, ca, cb, prob := rescore([]byte(a), []byte(b), m, steps, 0, 0)
		if prob != "" || ca != len(a) || cb != len(b) || rs != score {
			return fmt.Sprintf("Global(%q,%q) returned %v, its steps re-score to %v (%s)", a, b, score, rs, prob)
		}
		if g := gotohGlobal([]byte(a), []byte(b), m); mget(m, gapB, gapB) == 0 && g != score {
			return fmt.Sprintf("Global(%q,%q) returned %v, optimum %v", a, b, score, g)
		}
		return ""
	}
	affine := func() align.SubstitutionMatrix {
		m := align.SubstitutionMatrix{}
		for _, x := range []byte("acgt") {
			for _, y := range []byte("acgt") {
				m[[2]byte{x, y}] = -1
			}
			m[[2]byte{x, x}] = 2
			m[[2]byte{x, gapB}], m[[2]byte{gapB, x}] = -1, -1
		}
		m[[2]byte{gapB, gapB}] = -3
		return m
	}
	cs := []firstCase{
		{"align.Global (Levenshtein)", func(k *K) string {
			_, score := align.Global([]byte("kitten"), []byte("sitting"), align.Levenshtein)
			return expectEq("Global(kitten,sitting,Levenshtein)", score, -3.0)
		}},
		{"align.Global (BLOSUM62)", func(k *K) string { return check(false, align.BLOSUM62, "HEAGAWGHEE", "PAWHEAE") }},
		{"align.Local (PAM250)", func(k *K) string { return check(true, align.PAM250, "HEAGAWGHEE", "PAWHEAE") }},
		{"align.Local (Levenshtein)", func(k *K) string { return check(true, align.Levenshtein, "abcde", "xbcdy") }},
	}
	if which != "C09" {
		cs = append(cs,
			firstCase{"align.Global (affine)", func(k *K) string { return check(false, affine(), "acgtacgt", "acgacgtt") }},
			firstCase{"align.Local (affine)", func(k *K) string { return check(true, affine(), "ttacgtacgt", "acgacgtt") }})
	}
	return cs
}

var firstTrie = []firstCase{
	{"trie.New + Add + Has", func(k *K) string {
		t := trie.New()
		t.Add([]byte("abc"))
		if !t.Has([]byte("ab")) || t.Has([]byte("b")) || !t.Has(nil) {
			return "Has after Add(abc) is wrong"
		}
		return ""
	}},
	{"trie.New + ForEach", func(k *K) string {
		t := trie.New()
		n := 0
		t.ForEach(func([]byte) bool { n++; return true })
		t.Add([]byte("x"))
		t.ForEach(func(b []byte) bool {
			if string(b) == "x" {
				n += 10
			}
			return true
		})
		return expectEq("ForEach on an empty trie, then after Add(x)", n, 10)
	}},
	{"trie.New + Delete", func(k *K) string {
		t := trie.New()
		if t.Delete([]byte("a")) {
			return "Delete on an empty trie returned true"
		}
		t.Add([]byte("a"))
		return expectEq("Has(a) after Delete on empty, Add(a)", t.Has([]byte("a")), true)
	}},
	{"Trie.UnmarshalJSON", func(k *K) string {
		t := trie.New()
		if err := t.UnmarshalJSON([]byte(`{"m":{"97":{"m":{"98":{"m":{}}}}}}`)); err != nil {
			return "UnmarshalJSON: " + err.Error()
		}
		return expectEq("Has(ab) after UnmarshalJSON", t.Has([]byte("ab")), true)
	}},
	{"Trie.MarshalJSON", func(k *K) string {
		t := trie.New()
		b, err := t.MarshalJSON()
		if err != nil {
			return err.Error()
		}
		t2 := trie.New()
		if err := t2.UnmarshalJSON(b); err != nil {
			return "JSON of an empty trie does not read back: " + err.Error()
		}
		t2.Add([]byte("q"))
		return expectEq("Has(q)", t2.Has([]byte("q")), true)
	}},
}

var firstRegions = []firstCase{
	{"regions.NewIndex + At", func(k *K) string {
		ix := regions.NewIndex([]int{0, 5, 3}, []int{10, 6, 3})
		return expectEq("At(5)", ix.At(5), []int{0, 1})
	}},
	{"regions.NewIndex (empty)", func(k *K) string {
		ix := regions.NewIndex(nil, nil)
		return expectEq("At(0) on an empty index", len(ix.At(0)), 0)
	}},
}

var firstTree = []firstCase{
	{"Node.PreOrder", func(k *K) string {
		root, _ := treeFromDyck("(()())()")
		var got []*newick.Node
		for n := range root.PreOrder() {
			got = append(got, n)
		}
		if !samePtrs(got, refPreOrder(root)) {
			return "order differs from the recursive pre-order"
		}
		return ""
	}},
	{"Node.PostOrder", func(k *K) string {
		root, _ := treeFromDyck("(()())()")
		var got []*newick.Node
		for n := range root.PostOrder() {
			got = append(got, n)
		}
		if !samePtrs(got, refPostOrder(root)) {
			return "order differs from the recursive post-order"
		}
		return ""
	}},
}

var firstMatrix = []firstCase{
	{"smtext.ReadNCBI", func(k *K) string {
		m, err := smtext.ReadNCBI(strings.NewReader("# c\n   A  *\nA  1 -2\n*  -3 4\n"))
		if err != nil {
			return err.Error()
		}
		return expectEq("matrix", fmt.Sprint(m[[2]byte{'A', 'A'}], m[[2]byte{'A', gapB}], m[[2]byte{gapB, 'A'}], m[[2]byte{gapB, gapB}], len(m)), "1 -2 -3 4 4")
	}},
	{"SubstitutionMatrix.Symmetrical", func(k *K) string {
		m := align.SubstitutionMatrix{{'a', 'b'}: 2, {'a', 'a'}: 1}
		s := m.Symmetrical()
		return expectEq("Symmetrical", fmt.Sprint(len(s), s[[2]byte{'b', 'a'}], len(m)), "3 2 2")
	}},
	{"SubstitutionMatrix.GoString", func(k *K) string {
		m := align.SubstitutionMatrix{{'b', 'a'}: 2.5, {'a', 'b'}: -1}
		gs := m.GoString()
		if strings.Index(gs, "-1") < 0 || strings.Index(gs, "2.5") < strings.Index(gs, "-1") {
			return fmt.Sprintf("GoString = %q", gs)
		}
		return ""
	}},
	{"SubstitutionMatrix.Get (shipped)", func(k *K) string {
		return expectEq("BLOSUM62.Get(W,W) == BLOSUM62[W,W]", align.BLOSUM62.Get('W', 'W'), align.BLOSUM62[[2]byte{'W', 'W'}])
	}},
}

// firstCodec: Reader, Write, MarshalText and File of one format, each first.
func firstCodec(format string) []firstCase {
	gen := format
	if gen == "samh" {
		gen = "sam"
	}
	text := func(k *K) ([]byte, []item) {
		r := k.Rand()
		var buf bytes.Buffer
		var want []item
		for j := 0; j < 3; j++ {
			it, ok, skip := fieldRecord(r, gen, 0, "name"+fmt.Sprint(j), j, &buf)
			if ok && !skip {
				want = append(want, it)
			}
		}
		return buf.Bytes(), want
	}
	cd := func() *codec { return codecByName(format) }
	return []firstCase{
		{format + ": Write, then Reader", func(k *K) string {
			x, want := text(k) // fieldRecord writes with the library's Write: the first library call
			got, over := collect(cd().seq(bytes.NewReader(x)), len(want)+3)
			if over || !sameTrace(got, want) {
				return fmt.Sprintf("decoded %s, want %s", traceString(got), traceString(want))
			}
			return ""
		}},
		{format + ": Reader on a constant text", func(k *K) string {
			x := map[string]string{"fasta": ">a b\nACGT\nAC\n>c\n\n", "fastq": "@r1\nACGT\n+\n!!!!\n", "sam": "@HD\tVN:1\nq\t0\tr\t1\t2\t3M\t=\t4\t5\tACG\t!!!\tNM:i:1\n", "samh": "@HD\tVN:1\nq\t0\tr\t1\t2\t3M\t=\t4\t5\tACG\t!!!\tNM:i:1\n", "bed": "chr1\t1\t2\tn\n", "newick": "(a:1,'b c')d;"}[format]
			n := map[string]int{"fasta": 2, "fastq": 1, "sam": 1, "samh": 2, "bed": 1, "newick": 1}[format]
			got, _ := collect(cd().seq(strings.NewReader(x)), 10)
			if len(got) != n {
				return fmt.Sprintf("%d items from %q: %s", len(got), x, traceString(got))
			}
			for _, it := range got {
				if it.Err {
					return fmt.Sprintf("error item from %q: %s", x, traceString(got))
				}
			}
			return ""
		}},
		{format + ": File", func(k *K) string {
			dir, err := os.MkdirTemp("", "first-")
			if err != nil {
				return ""
			}
			defer os.RemoveAll(dir)
			if got, _ := collect(cd().file(filepath.Join(dir, "missing"+cd().ext)), 5); len(got) != 1 || !got[0].Err {
				return "File on a missing path yields " + traceString(got)
			}
			return ""
		}},
	}
}
