package main

// Write observation with the race detector.
//
// Several properties say that a call leaves its inputs untouched. A snapshot
// comparison after the call sees a lasting change, but not a write that is
// undone before the call returns (sorting or reversing the caller's slice in
// place and restoring it, using the caller's buffer as scratch space). Such a
// write is observable by anything that reads the input meanwhile. underReaders
// makes it observable to the race detector: reader goroutines do nothing but
// READ the input memory while ONE goroutine runs the library call. In the
// -race build any write of the call to that memory — lasting or not — is then
// reported, and since the readers only read and nothing else runs, a report
// can only mean that the call wrote to memory it was to leave alone.

import (
	"runtime"
	"sync"
	"sync/atomic"
)

var readerSink atomic.Uint64

// underReaders runs body while n goroutines call read in a loop. read must only
// read (it returns a checksum so that the reads are not optimised away).
func underReaders(n int, read func() uint64, body func()) {
	var stop atomic.Bool
	passes := make([]atomic.Int64, n)
	var wg sync.WaitGroup
	for g := 0; g < n; g++ {
		wg.Add(1)
		go func() {
			defer wg.Done()
			for !stop.Load() {
				readerSink.Add(read())
				passes[g].Add(1)
			}
		}()
	}
	waitPasses := func(extra int64) {
		base := make([]int64, n)
		for g := range base {
			base[g] = passes[g].Load()
		}
		for g := 0; g < n; g++ {
			for passes[g].Load() < base[g]+extra {
				runtime.Gosched()
			}
		}
	}
	waitPasses(1) // all readers are running
	body()
	waitPasses(2) // every reader made a whole pass that is not ordered after body
	stop.Store(true)
	wg.Wait()
}

func sumBytes(bs ...[]byte) uint64 {
	var s uint64
	for _, b := range bs {
		for _, c := range b {
			s += uint64(c)
		}
	}
	return s
}
