package main

// C11, thorough tier: Go's native coverage-guided fuzzer, one target per
// decoder, bounded by execution count.

import (
	"bytes"
	"fmt"
	"os"
	"os/exec"
	"path/filepath"
	"regexp"
	"strconv"
	"strings"
)

var fuzzTargets = []string{"FuzzFasta", "FuzzFastq", "FuzzSam", "FuzzBed", "FuzzNewick", "FuzzNcbi"}

var fuzzStatRe = regexp.MustCompile(`execs: (\d+) .*new interesting: (\d+) \(total: (\d+)\)`)
var fuzzCrasherRe = regexp.MustCompile(`Failing input written to (\S+)`)

func c11Fuzz(c *Ctx) {
	verif := os.Getenv("VERIF_DIR")
	if verif == "" {
		verif = "/verif"
	}
	modfile := os.Getenv("VERIF_MODFILE")
	tmp, err := os.MkdirTemp("", "c11-fuzz-")
	if err != nil {
		c.Info("fuzz_skipped", err.Error())
		return
	}
	defer os.RemoveAll(tmp)
	bin := filepath.Join(tmp, "fuzz.test")
	args := []string{"test", "-c", "-fuzz=.", "-o", bin}
	if modfile != "" {
		args = append(args, "-modfile="+modfile)
	}
	if os.Getenv("VERIF_HOOKS_STATE") != "unavailable" {
		args = append(args, "-tags", "verif")
	}
	args = append(args, ".")
	cmd := exec.Command("go", args...)
	cmd.Dir = filepath.Join(verif, "harness")
	cmd.Env = append(os.Environ(), "GOFLAGS=-mod=mod", "GOPROXY=off", "GOSUMDB=off", "GOTOOLCHAIN=local")
	if out, err := cmd.CombinedOutput(); err != nil {
		c.Info("fuzz_skipped", "fuzz binary does not build: "+strings.TrimSpace(string(out)))
		c.Count("fuzz_engine_failures", 1)
		return
	}
	execs := c.N(20000, 300000)
	for i, target := range fuzzTargets {
		c.Case(int64(i), func(k *K) {
			rundir := filepath.Join(tmp, target)
			os.MkdirAll(rundir, 0o755)
			cmd := exec.Command(bin, "-test.run=^$", "-test.fuzz=^"+target+"$", fmt.Sprintf("-test.fuzztime=%dx", execs),
				"-test.fuzzcachedir="+filepath.Join(tmp, "cache"), "-test.timeout=30m")
			cmd.Dir = rundir
			var out bytes.Buffer
			cmd.Stdout, cmd.Stderr = &out, &out
			runErr := cmd.Run()
			text := out.String()
			k.Input("target", target)
			if ms := fuzzStatRe.FindAllStringSubmatch(text, -1); len(ms) > 0 {
				last := ms[len(ms)-1]
				n, _ := strconv.ParseInt(last[1], 10, 64)
				ni, _ := strconv.ParseInt(last[3], 10, 64)
				k.Count("fuzz_execs", n)
				k.Count("fuzz_execs_"+target, n)
				k.Count("fuzz_interesting_"+target, ni)
				k.Evals(n)
			}
			if runErr == nil {
				k.Count("fuzz_targets_completed", 1)
				k.Nontrivial([]byte(target))
				return
			}
			if m := fuzzCrasherRe.FindStringSubmatch(text); m != nil {
				data, _ := os.ReadFile(filepath.Join(rundir, m[1]))
				k.Input("crasher_file", string(data))
				if x, ok := parseFuzzCorpus(data); ok {
					k.Input("input", x)
				}
				tail := text
				if len(tail) > 2500 {
					tail = tail[len(tail)-2500:]
				}
				k.Failf("fuzz-crasher", "%s: the fuzzer found a failing input:\n%s", target, tail)
				return
			}
			k.Count("fuzz_engine_failures", 1)
			k.c.Info("fuzz_engine_failure_"+target, tailStr(text, 1500))
		})
	}
}

func tailStr(s string, n int) string {
	if len(s) > n {
		return s[len(s)-n:]
	}
	return s
}

// parseFuzzCorpus extracts the []byte value of a "go test fuzz v1" file.
func parseFuzzCorpus(data []byte) ([]byte, bool) {
	lines := strings.Split(string(data), "\n")
	if len(lines) < 2 || !strings.HasPrefix(lines[0], "go test fuzz v1") {
		return nil, false
	}
	l := strings.TrimSpace(lines[1])
	if !strings.HasPrefix(l, "[]byte(") || !strings.HasSuffix(l, ")") {
		return nil, false
	}
	s, err := strconv.Unquote(l[len("[]byte(") : len(l)-1])
	if err != nil {
		return nil, false
	}
	return []byte(s), true
}
