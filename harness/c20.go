package main

// C20 — substitution matrices from tables and by mirroring.

import (
	"bytes"
	"encoding/json"
	"fmt"
	"go/ast"
	"go/constant"
	"go/format"
	"go/parser"
	"go/token"
	"math"
	"math/rand/v2"
	"os"
	"os/exec"
	"path/filepath"
	"sort"
	"strconv"
	"strings"

	"github.com/fluhus/biostuff/align"
	"github.com/fluhus/biostuff/formats/smtext"
)

type ncbiTable struct {
	rows, cols []byte // labels as they appear in the text ('*' for the gap)
	scores     [][]float64
}

type ncbiLayout struct {
	crlf       bool
	noFinal    bool
	shuffle    bool
	comments   int // percent chance of a comment line before each line
	empties    int // percent chance of an empty line before each line
	lead, tail bool
	maxSep     int
	tabs       bool
	long       int // if > 0: one separator / comment of about this many bytes (lines longer than the I/O buffers)
}

func labelKey(b byte) byte {
	if b == '*' {
		return align.Gap
	}
	return b
}

func (t *ncbiTable) truth() map[[2]byte]float64 {
	m := map[[2]byte]float64{}
	for i, r := range t.rows {
		for j, c := range t.cols {
			m[[2]byte{labelKey(r), labelKey(c)}] = t.scores[i][j]
		}
	}
	return m
}

// ncbiLabels: printable ASCII, plus high bytes below 255. The label '#' is
// legal where it does not begin a line (only lines *beginning* with '#' are
// comments); the renderer indents any line whose first token is "#".
var ncbiLabels = func() []byte {
	var out []byte
	for b := 0x21; b <= 0x7e; b++ {
		out = append(out, byte(b))
	}
	for b := 0x80; b <= 0xfe; b++ {
		out = append(out, byte(b))
	}
	return out
}()

func genLabels(r *rand.Rand, n int) []byte {
	pool := ncbiLabels
	switch r.IntN(5) {
	case 0, 1:
		pool = []byte("ARNDCQEGHILKMFPSTWYVBZX*")
	case 2:
		pool = []byte("#*ACGT@;>+")
	}
	perm := r.Perm(len(pool))
	n = min(n, len(pool))
	out := make([]byte, n)
	for i := range out {
		out[i] = pool[perm[i]]
	}
	return out
}

func genScore(r *rand.Rand) float64 {
	switch r.IntN(7) {
	case 6:
		return decimalFloat(r, 1+r.IntN(17), r.IntN(640)-330)
	case 0, 1, 2:
		return float64(r.IntN(41) - 20)
	case 3:
		return float64(r.IntN(801)-400) / 8
	case 4:
		return pick(r, []float64{0, 1e21, 5e-324, -0.5, 1e-7, 123456789, 0.1, -1e-5, 1e6, 100000, 2.5e-10, math.MaxFloat64})
	default:
		f := r.NormFloat64() * 10
		return f
	}
}

func genNCBITable(r *rand.Rand) *ncbiTable {
	nr, nc := 1+r.IntN(8), 1+r.IntN(8)
	if r.IntN(2) == 0 {
		nc = nr
	}
	t := &ncbiTable{rows: genLabels(r, nr), cols: genLabels(r, nc)}
	if nr == nc && r.IntN(2) == 0 {
		t.cols = append([]byte{}, t.rows...)
	}
	for range t.rows {
		row := make([]float64, len(t.cols))
		for j := range row {
			row[j] = genScore(r)
		}
		t.scores = append(t.scores, row)
	}
	return t
}

func genNCBILayout(r *rand.Rand) ncbiLayout {
	return ncbiLayout{crlf: r.IntN(2) == 0, noFinal: r.IntN(3) == 0, shuffle: r.IntN(2) == 0,
		comments: pick(r, []int{0, 0, 20, 60}), empties: pick(r, []int{0, 0, 20, 60}),
		lead: r.IntN(2) == 0, tail: r.IntN(2) == 0, maxSep: 1 + r.IntN(5), tabs: r.IntN(2) == 0}
}

// genNCBILongLayout: a layout with one very long line (padding or comment).
func genNCBILongLayout(r *rand.Rand) ncbiLayout {
	l := genNCBILayout(r)
	l.long = longSize(r)
	return l
}

func (l ncbiLayout) String() string {
	type plain ncbiLayout
	return fmt.Sprintf("%+v", plain(l))
}

func (l ncbiLayout) sep(r *rand.Rand) string {
	n := 1 + r.IntN(l.maxSep)
	b := make([]byte, n)
	for i := range b {
		b[i] = ' '
		if l.tabs && r.IntN(2) == 0 {
			b[i] = '\t'
		}
	}
	return string(b)
}

func fmtScore(f float64) string { return strconv.FormatFloat(f, 'g', -1, 64) }

// fmtScoreVariant renders a score in one of the other spellings ParseFloat
// reads as the same number: explicit sign, zero padding, trailing ".0" / ".",
// exponent, fixed notation.
func fmtScoreVariant(r *rand.Rand, f float64) string {
	isInt := f == math.Trunc(f) && math.Abs(f) < 1e15
	switch r.IntN(8) {
	case 0:
		if f >= 0 && !math.Signbit(f) {
			return "+" + fmtScore(f)
		}
	case 1:
		if isInt { // zero padded, e.g. 010 or -012
			if f < 0 {
				return fmt.Sprintf("-%03d", int64(-f))
			}
			return fmt.Sprintf("%03d", int64(f))
		}
	case 2:
		if isInt {
			return fmt.Sprintf("%d.0", int64(f))
		}
	case 3:
		if isInt {
			return fmt.Sprintf("%d.", int64(f))
		}
	case 4:
		return strconv.FormatFloat(f, 'e', -1, 64)
	case 5:
		if math.Abs(f) < 1e15 && math.Abs(f) > 1e-6 {
			return strconv.FormatFloat(f, 'f', -1, 64)
		}
	case 6:
		if isInt {
			return fmt.Sprintf("%de0", int64(f))
		}
	}
	return fmtScore(f)
}

// tokens returns the table as lines of tokens (header first).
func (t *ncbiTable) tokens() [][]string {
	var lines [][]string
	var hdr []string
	for _, c := range t.cols {
		hdr = append(hdr, string([]byte{c}))
	}
	lines = append(lines, hdr)
	for i, rl := range t.rows {
		row := []string{string([]byte{rl})}
		for _, s := range t.scores[i] {
			row = append(row, fmtScore(s))
		}
		lines = append(lines, row)
	}
	return lines
}

func (t *ncbiTable) render(r *rand.Rand, l ncbiLayout) []byte {
	lines := t.tokens()
	if r.IntN(3) == 0 { // other spellings of the same numbers
		for i := 1; i < len(lines); i++ {
			for j := 1; j < len(lines[i]); j++ {
				lines[i][j] = fmtScoreVariant(r, t.scores[i-1][j-1])
			}
		}
	}
	return renderTokens(r, lines, l)
}

func renderTokens(r *rand.Rand, lines [][]string, l ncbiLayout) []byte {
	eol := "\n"
	if l.crlf {
		eol = "\r\n"
	}
	order := make([]int, len(lines))
	for i := range order {
		order[i] = i
	}
	if l.shuffle && len(lines) > 2 {
		rest := order[1:]
		r.Shuffle(len(rest), func(i, j int) { rest[i], rest[j] = rest[j], rest[i] })
	}
	var buf bytes.Buffer
	longLine := -1
	longKind := 0
	if l.long > 0 {
		longLine = r.IntN(len(lines))
		longKind = r.IntN(3) // 0: padding between tokens, 1: trailing padding, 2: comment line before
	}
	noise := func() {
		for r.IntN(100) < l.comments {
			buf.WriteString("#" + string(randBytesExcl(r, r.IntN(20), noCRLF)) + eol)
		}
		for r.IntN(100) < l.empties {
			buf.WriteString(eol)
		}
	}
	for oi, li := range order {
		noise()
		toks := lines[li]
		if li == longLine && longKind == 2 {
			buf.WriteString("#" + string(randBytesExcl(r, l.long, noCRLF)) + eol)
		}
		var sb strings.Builder
		if len(toks) > 0 && ((l.lead && (li == 0 || r.IntN(2) == 0)) || strings.HasPrefix(toks[0], "#")) {
			sb.WriteString(l.sep(r))
		}
		for i, tok := range toks {
			if i > 0 {
				sb.WriteString(l.sep(r))
				if li == longLine && longKind == 0 && i == 1+len(toks)/2-1 {
					sb.WriteString(strings.Repeat(" ", l.long))
				}
			}
			sb.WriteString(tok)
		}
		if l.tail && r.IntN(2) == 0 && len(toks) > 0 {
			sb.WriteString(l.sep(r))
		}
		if li == longLine && longKind <= 1 && len(toks) > 0 && (longKind == 1 || len(toks) == 1) {
			sb.WriteString(strings.Repeat(pick(r, []string{" ", "\t"}), l.long))
		}
		buf.WriteString(sb.String())
		if oi < len(order)-1 || !l.noFinal {
			buf.WriteString(eol)
			if oi == len(order)-1 {
				noise()
			}
		}
	}
	return buf.Bytes()
}

func sameMatrix(got align.SubstitutionMatrix, want map[[2]byte]float64) string {
	if len(got) != len(want) {
		return fmt.Sprintf("%d entries, want %d", len(got), len(want))
	}
	for k, v := range want {
		g, ok := got[k]
		if !ok {
			return fmt.Sprintf("pair (%d,%d) missing", k[0], k[1])
		}
		if !sameFloat(g, v) {
			return fmt.Sprintf("pair (%d,%d) = %v, want %v", k[0], k[1], g, v)
		}
	}
	return ""
}

func matrixString(m map[[2]byte]float64) string {
	keys := make([][2]byte, 0, len(m))
	for k := range m {
		keys = append(keys, k)
	}
	sort.Slice(keys, func(i, j int) bool { return bytes.Compare(keys[i][:], keys[j][:]) < 0 })
	var sb strings.Builder
	for _, k := range keys {
		fmt.Fprintf(&sb, "(%d,%d)=%v ", k[0], k[1], m[k])
		if sb.Len() > 1500 {
			sb.WriteString("…")
			break
		}
	}
	return sb.String()
}

func init() {
	register(&Property{
		ID:    "C20",
		Level: "exploration",
		Rule: "random NCBI tables (distinct single-byte labels from printable ASCII without '#' and high bytes <255, '*' for gap; square and rectangular; integer, dyadic and shortest-decimal scores) rendered in random layouts " +
			"(1..5 spaces/TABs, leading/trailing blanks, comment and empty lines anywhere, LF/CRLF, shuffled rows, optional final newline) and read with ReadNCBI; single-token corruptions of valid tables; " +
			"random partial matrices with and without mirrored conflicts through Symmetrical; GoString re-parsed line by line and evaluated with go/parser+go/constant (thorough: also compiled through the genncbi route); " +
			"readers unit: the calls run while reader goroutines read the protected memory, -race build reports any write to it (also one undone before returning); " +
			"non-trivial = table with at least 2 cells / any corruption / matrix with at least 2 entries; distinct by hash of the text or of the sorted matrix",
		Assumptions: []string{"labels are distinct single bytes other than '#', whitespace and 255; empty lines are exactly empty (not whitespace-only); scores are finite",
			"corruptions touch rows only in ways the statement lists (row value count, non-numeric score, multi-character row or column label)"},
		MinEvents: map[string]int64{"tables_read": 1000, "corruptions_rejected": 500, "symmetrical_ok": 300, "symmetrical_panics": 100, "gostring_evaluated": 300},
		Units: []Unit{
			{Name: "readncbi", TShards: 4, Run: c20Read},
			{Name: "corrupt", TShards: 4, Run: c20Corrupt},
			{Name: "decimals", QShards: 2, TShards: 8, Run: c20Decimals},
			{Name: "symmetrical", TShards: 4, Run: c20Symmetrical},
			{Name: "gostring", TShards: 4, Run: c20GoString},
			{Name: "readers", Race: true, TShards: 2, Run: c20Readers},
			{Name: "parallel", Race: true, Run: matrixParallel},
			firstCallUnit(firstMatrix),
			{Name: "compiled", Thorough: true, Run: c20Compiled},
		},
	})
}

func c20Read(c *Ctx) {
	n := c.N(2500, 120000)
	for i := 0; i < n; i++ {
		c.Case(int64(i), func(k *K) {
			r := k.Rand()
			t := genNCBITable(r)
			truth := t.truth()
			k.Input("table", func() string { return matrixString(truth) })
			for j := 0; j < 6; j++ {
				l := genNCBILayout(r)
				if j == 5 && k.Idx%8 == 0 {
					l = genNCBILongLayout(r)
					k.Count("long_line_layouts", 1)
				}
				text := t.render(r, l)
				k.Input("layout", l)
				k.Input("text", func() string { return describeText(text) })
				m, err := smtext.ReadNCBI(bytes.NewReader(text))
				if err != nil {
					k.Failf("readncbi", "ReadNCBI failed on a valid table: %v", err)
					return
				}
				if d := sameMatrix(m, truth); d != "" {
					k.Failf("readncbi", "ReadNCBI result differs from the table: %s", d)
					return
				}
				// the same text through an io.Reader of another dynamic type or state (partly consumed, seeked, a section …)
				if zn, zm, zerr := ncbiThroughZoo(k, r, text); zerr != nil {
					k.Input("reader", zn)
					k.Failf("readncbi", "ReadNCBI failed on a valid table read from %s: %v", zn, zerr)
					return
				} else if d := sameMatrix(zm, truth); d != "" {
					k.Input("reader", zn)
					k.Failf("readncbi", "ReadNCBI from %s differs from the table: %s", zn, d)
					return
				}
				k.Count("tables_read", 1)
				k.Evals(1)
				if len(truth) >= 2 {
					k.Nontrivial(text)
				}
				if j == 0 {
					// A line that holds nothing but blanks (spaces, a TAB, a form feed, a stray CR), anywhere in the
					// text: whether such a line counts as empty the statement does not say, so either answer is taken —
					// the table as it is, or an error and no matrix — but not a panic and not another table.
					ls := bytes.SplitAfter(text, []byte("\n"))
					at := r.IntN(len(ls) + 1)
					blank := pick(r, []string{" ", "\t", " \t ", "\f", "\v", "\r", "  \r", "\u00a0", "\xc2\x85"}) + pick(r, []string{"\n", "\r\n"})
					var t2 []byte
					for li, l := range ls {
						if li == at {
							t2 = append(t2, blank...)
						}
						t2 = append(t2, l...)
					}
					if at == len(ls) {
						if len(t2) > 0 && t2[len(t2)-1] != '\n' {
							t2 = append(t2, '\n')
						}
						t2 = append(t2, strings.TrimRight(blank, "\r\n")...)
					}
					k.Input("text", func() string { return describeText(t2) })
					m2, err2 := smtext.ReadNCBI(bytes.NewReader(t2))
					switch {
					case err2 != nil && len(m2) != 0:
						k.Failf("partial-matrix", "ReadNCBI returned an error together with a partial matrix for a table with a blank-only line (%q)", blank)
						return
					case err2 == nil:
						if d := sameMatrix(m2, truth); d != "" {
							k.Failf("readncbi", "ReadNCBI accepted a table with a blank-only line (%q) but the result differs from the table: %s", blank, d)
							return
						}
					}
					k.Count("tables_with_a_blank_only_line", 1)
				}
			}
			if bytes.IndexByte(t.rows, '*') >= 0 || bytes.IndexByte(t.cols, '*') >= 0 {
				k.Count("tables_with_gap_label", 1)
			}
			if len(t.rows) != len(t.cols) {
				k.Count("rectangular_tables", 1)
			}
		})
	}
}

func c20Corrupt(c *Ctx) {
	n := c.N(4000, 300000)
	for i := 0; i < n; i++ {
		c.Case(int64(i), func(k *K) {
			r := k.Rand()
			t := genNCBITable(r)
			lines := t.tokens()
			row := 1 + r.IntN(len(lines)-1)
			var what string
			switch r.IntN(8) {
			case 7: // values moved from the end of one row to the end of another: the total number of values is still right
				if len(lines) < 3 || len(lines[1]) < 3 {
					lines[row] = lines[row][:len(lines[row])-1]
					what = fmt.Sprintf("row %d: last value dropped", row)
					break
				}
				other := 1 + (row+r.IntN(len(lines)-2))%(len(lines)-1)
				if other == row {
					other = 1 + row%(len(lines)-1)
				}
				mv := 1 + r.IntN(min(2, len(lines[row])-2))
				cut := len(lines[row]) - mv
				lines[other] = append(append([]string{}, lines[other]...), lines[row][cut:]...)
				lines[row] = append([]string{}, lines[row][:cut]...)
				what = fmt.Sprintf("%d value(s) moved from the end of row %d to the end of row %d (the total count of values is unchanged)", mv, row, other)
			case 6: // a table cut off after its header (no score rows at all) whose header has a two-character label
				j := r.IntN(len(lines[0]))
				lines = [][]string{append([]string{}, lines[0]...)}
				lines[0][j] = lines[0][j] + string([]byte{pick(r, ncbiLabels)})
				what = fmt.Sprintf("header-only table, column label %d replaced by %q", j, lines[0][j])
			case 5: // the blank between a row label and its first score is missing: a longer label AND one value too few
				lines[row] = append([]string{lines[row][0] + lines[row][1]}, lines[row][2:]...)
				what = fmt.Sprintf("row %d: label glued to the first score (%q)", row, lines[row][0])
			case 0: // drop one value of a row
				j := 1 + r.IntN(len(lines[row])-1)
				lines[row] = append(append([]string{}, lines[row][:j]...), lines[row][j+1:]...)
				what = fmt.Sprintf("row %d: value %d dropped", row, j)
			case 1: // add one value to a row
				j := 1 + r.IntN(len(lines[row]))
				nl := append([]string{}, lines[row][:j]...)
				nl = append(nl, fmtScore(genScore(r)))
				lines[row] = append(nl, lines[row][j:]...)
				what = fmt.Sprintf("row %d: value added at %d", row, j)
			case 2: // non-numeric score
				j := 1 + r.IntN(len(lines[row])-1)
				bad := pick(r, []string{"x", "1.2.3", "--1", "1e", "1,5", "abc", "0x", "1e+", "+-1", "0x10", "0b11", "0o17", "-0X7", "1/2", "½", "1e5.5", "٣"})
				lines[row] = append([]string{}, lines[row]...)
				lines[row][j] = bad
				what = fmt.Sprintf("row %d: score %d replaced by %q", row, j, bad)
			case 3: // two-character row label
				lines[row] = append([]string{}, lines[row]...)
				lines[row][0] = lines[row][0] + string([]byte{pick(r, ncbiLabels)})
				what = fmt.Sprintf("row %d: label replaced by %q", row, lines[row][0])
			default: // two-character column label
				j := r.IntN(len(lines[0]))
				lines[0] = append([]string{}, lines[0]...)
				lines[0][j] = lines[0][j] + string([]byte{pick(r, ncbiLabels)})
				what = fmt.Sprintf("column label %d replaced by %q", j, lines[0][j])
			}
			l := genNCBILayout(r)
			l.shuffle = false
			text := renderTokens(r, lines, l)
			k.Input("corruption", what)
			k.Input("text", text)
			m, err := smtext.ReadNCBI(bytes.NewReader(text))
			if err == nil {
				k.Failf("corruption-accepted", "ReadNCBI accepted a corrupted table (%s) and returned %d entries", what, len(m))
			} else if len(m) != 0 {
				k.Failf("partial-matrix", "ReadNCBI returned an error together with a partial matrix of %d entries (%s)", len(m), what)
			}
			k.Count("corruptions_rejected", 1)
			k.Nontrivial(text)
		})
	}
}

func c20Symmetrical(c *Ctx) {
	n := c.N(3000, 100000)
	for i := 0; i < n; i++ {
		c.Case(int64(i), func(k *K) {
			r := k.Rand()
			alpha := []byte("ACGT")
			if r.IntN(2) == 0 {
				alpha = append(genLabels(r, 2+r.IntN(6)), align.Gap)
			}
			m := align.SubstitutionMatrix{}
			ne := r.IntN(len(alpha)*len(alpha) + 1)
			for j := 0; j < ne; j++ {
				a, b := pick(r, alpha), pick(r, alpha)
				m[[2]byte{a, b}] = float64(r.IntN(7) - 3)
				if r.IntN(4) == 0 {
					m[[2]byte{a, b}] = genScore(r)
				}
			}
			// Mirror some entries consistently so that non-conflicting mirrored pairs occur too.
			mode := r.IntN(3)
			if mode > 0 {
				for key, v := range m {
					if r.IntN(2) == 0 || mode == 2 {
						m[[2]byte{key[1], key[0]}] = v
						if v == 0 && r.IntN(2) == 0 {
							// 0 mirrored as -0 (a rounded table prints "-0" on one side of the diagonal): the same score
							m[[2]byte{key[1], key[0]}] = math.Copysign(0, -1)
							k.Count("zero_mirrored_as_minus_zero", 1)
						}
					}
				}
			}
			if mode == 2 && len(m) > 0 && r.IntN(3) == 0 {
				// then break one pair
				for key, v := range m {
					if key[0] != key[1] {
						// by one, or by as little as two floats can differ
						switch r.IntN(4) {
						case 0:
							m[key] = v + 1
						case 1:
							m[key] = math.Nextafter(v, math.Inf(1))
						case 2:
							m[key] = math.Nextafter(v, math.Inf(-1))
						default:
							m[key], m[[2]byte{key[1], key[0]}] = 0.1+0.2, 0.3
						}
						break
					}
				}
			}
			snapshot := map[[2]byte]float64{}
			for key, v := range m {
				snapshot[key] = v
			}
			conflict := false
			want := map[[2]byte]float64{}
			for key, v := range snapshot {
				want[key] = v
				flip := [2]byte{key[1], key[0]}
				if v2, ok := snapshot[flip]; ok && key[0] != key[1] && v2 != v {
					conflict = true
				}
				if _, ok := snapshot[flip]; !ok {
					want[flip] = v
				}
			}
			k.Input("matrix", func() string { return matrixString(snapshot) })
			var res align.SubstitutionMatrix
			p := catch(func() { res = m.Symmetrical() })
			if d := sameMatrix(m, snapshot); d != "" {
				k.Failf("receiver-modified", "Symmetrical changed its receiver: %s", d)
			}
			switch {
			case conflict && p == nil:
				k.Failf("missing-panic", "mirrored pairs carry different scores but Symmetrical did not panic")
			case !conflict && p != nil:
				k.Failf("unexpected-panic", "Symmetrical panicked without a conflict: %v", p)
			case !conflict:
				if d := sameMatrix(res, want); d != "" {
					k.Failf("symmetrical", "result differs from {pairs + mirrors}: %s", d)
				}
				if res != nil {
					// Must be a new matrix: writing to it must not reach the receiver.
					res[[2]byte{1, 2}] = 42
					if _, ok := m[[2]byte{1, 2}]; ok {
						k.Failf("not-a-copy", "Symmetrical returned the receiver itself")
						delete(m, [2]byte{1, 2})
					}
				}
				k.Count("symmetrical_ok", 1)
			default:
				k.Count("symmetrical_panics", 1)
			}
			if len(snapshot) >= 2 {
				k.Nontrivial([]byte(matrixString(snapshot)))
			}
		})
	}
}

// evalGoString evaluates the text of GoString as Go source and returns the map
// it denotes, together with the keys in source order.
func evalGoString(src string) (map[[2]byte]float64, [][2]byte, error) {
	expr, err := parser.ParseExpr(src)
	if err != nil {
		return nil, nil, fmt.Errorf("does not parse as a Go expression: %v", err)
	}
	lit, ok := expr.(*ast.CompositeLit)
	if !ok {
		return nil, nil, fmt.Errorf("not a composite literal")
	}
	if id, ok := lit.Type.(*ast.Ident); !ok || id.Name != "SubstitutionMatrix" {
		return nil, nil, fmt.Errorf("literal type is not SubstitutionMatrix")
	}
	m := map[[2]byte]float64{}
	var order [][2]byte
	for _, el := range lit.Elts {
		kv, ok := el.(*ast.KeyValueExpr)
		if !ok {
			return nil, nil, fmt.Errorf("element is not key:value")
		}
		kl, ok := kv.Key.(*ast.CompositeLit)
		if !ok || len(kl.Elts) != 2 || kl.Type != nil {
			return nil, nil, fmt.Errorf("key is not {a,b}")
		}
		var key [2]byte
		for i, e := range kl.Elts {
			switch x := e.(type) {
			case *ast.Ident:
				if x.Name != "Gap" {
					return nil, nil, fmt.Errorf("unknown identifier %s in key", x.Name)
				}
				key[i] = align.Gap
			case *ast.BasicLit:
				if x.Kind != token.CHAR {
					return nil, nil, fmt.Errorf("key element %s is not a character literal", x.Value)
				}
				v := constant.MakeFromLiteral(x.Value, x.Kind, 0)
				n, exact := constant.Int64Val(v)
				if !exact || n < 0 || n > 255 {
					return nil, nil, fmt.Errorf("key element %s does not fit a byte", x.Value)
				}
				key[i] = byte(n)
			default:
				return nil, nil, fmt.Errorf("unsupported key element %T", e)
			}
		}
		val, err := evalConst(kv.Value)
		if err != nil {
			return nil, nil, err
		}
		if _, dup := m[key]; dup {
			return nil, nil, fmt.Errorf("key (%d,%d) listed twice", key[0], key[1])
		}
		m[key] = val
		order = append(order, key)
	}
	return m, order, nil
}

func evalConst(e ast.Expr) (float64, error) {
	switch x := e.(type) {
	case *ast.BasicLit:
		if x.Kind != token.INT && x.Kind != token.FLOAT {
			return 0, fmt.Errorf("value %s is not a number", x.Value)
		}
		v := constant.MakeFromLiteral(x.Value, x.Kind, 0)
		f, _ := constant.Float64Val(constant.ToFloat(v))
		return f, nil
	case *ast.UnaryExpr:
		f, err := evalConst(x.X)
		if err != nil {
			return 0, err
		}
		switch x.Op {
		case token.SUB:
			return -f, nil
		case token.ADD:
			return f, nil
		}
		return 0, fmt.Errorf("unsupported operator %s", x.Op)
	case *ast.ParenExpr:
		return evalConst(x.X)
	}
	return 0, fmt.Errorf("value is not a numeric constant (%T)", e)
}

func genMatrix(r *rand.Rand) align.SubstitutionMatrix {
	m := align.SubstitutionMatrix{}
	alpha := append(genLabels(r, 1+r.IntN(8)), align.Gap)
	if r.IntN(3) == 0 {
		alpha = []byte{0, '\'', '\\', '\n', 0x7f, 0x80, 0xe9, 0xfe, 255, '"', 'a'}
	}
	ne := r.IntN(len(alpha)*len(alpha) + 1)
	for j := 0; j < ne; j++ {
		m[[2]byte{pick(r, alpha), pick(r, alpha)}] = genScore(r)
	}
	return m
}

func checkGoStringLines(k *K, m align.SubstitutionMatrix, src string) {
	lines := strings.Split(src, "\n")
	if len(lines) < 3 || lines[0] != "SubstitutionMatrix{" || lines[len(lines)-2] != "}" || lines[len(lines)-1] != "" {
		k.Failf("gostring-shape", "GoString is not 'SubstitutionMatrix{' / one pair per line / '}': %.300q", src)
		return
	}
	if len(lines)-3 != len(m) {
		k.Failf("gostring-shape", "GoString lists %d lines for %d pairs", len(lines)-3, len(m))
	}
}

func c20GoString(c *Ctx) {
	n := c.N(3000, 100000)
	for i := 0; i < n; i++ {
		c.Case(int64(i), func(k *K) {
			r := k.Rand()
			m := genMatrix(r)
			snapshot := map[[2]byte]float64{}
			for key, v := range m {
				snapshot[key] = v
			}
			k.Input("matrix", func() string { return matrixString(snapshot) })
			src := m.GoString()
			k.Input("gostring", src)
			checkGoStringLines(k, m, src)
			got, order, err := evalGoString(src)
			if err != nil {
				k.Failf("gostring-eval", "GoString output %v", err)
				return
			}
			for j := 1; j < len(order); j++ {
				if bytes.Compare(order[j-1][:], order[j][:]) >= 0 {
					k.Failf("gostring-order", "keys not in ascending order: (%d,%d) before (%d,%d)", order[j-1][0], order[j-1][1], order[j][0], order[j][1])
					break
				}
			}
			if d := sameMatrix(got, snapshot); d != "" {
				k.Failf("gostring-value", "matrix denoted by GoString differs: %s", d)
			}
			if s2 := fmt.Sprintf("%#v", m); s2 != src {
				k.Failf("gostring-fmt", "fmt %%#v does not use GoString")
			}
			k.Count("gostring_evaluated", 1)
			if len(snapshot) >= 2 {
				k.Nontrivial([]byte(src))
			}
		})
	}
}

// c20Compiled takes the real route of genncbi: %#v through go/format into a
// source file that dot-imports align, compiled and run; the dumped maps are
// compared with the originals.
func c20Compiled(c *Ctx) {
	repo := os.Getenv("VERIF_REPO_DIR")
	if repo == "" {
		repo = "/repo"
	}
	for batch := 0; batch < 5; batch++ {
		c.Case(int64(batch), func(k *K) {
			r := k.Rand()
			const per = 200
			var ms []align.SubstitutionMatrix
			var src bytes.Buffer
			src.WriteString("package main\n\nimport (\n\t\"encoding/json\"\n\t\"os\"\n\t. \"github.com/fluhus/biostuff/align\"\n)\n\nvar ms []SubstitutionMatrix\n\n")
			for j := 0; j < per; j++ {
				m := genMatrix(r)
				ms = append(ms, m)
				fmt.Fprintf(&src, "func init() {\nvar m SubstitutionMatrix\nm = %#v\nms = append(ms, m)}\n\n", m)
			}
			src.WriteString(`func main() {
	var out [][][3]float64
	for _, m := range ms {
		var e [][3]float64
		for k, v := range m {
			e = append(e, [3]float64{float64(k[0]), float64(k[1]), v})
		}
		out = append(out, e)
	}
	json.NewEncoder(os.Stdout).Encode(out)
}
`)
			formatted, err := format.Source(src.Bytes())
			if err != nil {
				k.Failf("compiled-format", "go/format rejects the generated source (as genncbi would): %v", err)
				return
			}
			dir, err := os.MkdirTemp("", "gostring-")
			if err != nil {
				k.Count("compiled_skipped", 1)
				return
			}
			defer os.RemoveAll(dir)
			os.WriteFile(filepath.Join(dir, "main.go"), formatted, 0o644)
			os.WriteFile(filepath.Join(dir, "go.mod"), []byte("module gostringprog\n\ngo 1.23\n\nrequire github.com/fluhus/biostuff v0.0.0\n\nreplace github.com/fluhus/biostuff => "+repo+"\n"), 0o644)
			if sum, err := os.ReadFile(filepath.Join(repo, "go.sum")); err == nil {
				os.WriteFile(filepath.Join(dir, "go.sum"), sum, 0o644)
			}
			cmd := exec.Command("go", "run", ".")
			cmd.Dir = dir
			cmd.Env = append(os.Environ(), "GOFLAGS=-mod=mod", "GOPROXY=off", "GOSUMDB=off", "GOTOOLCHAIN=local")
			var stdout, stderr bytes.Buffer
			cmd.Stdout, cmd.Stderr = &stdout, &stderr
			if err := cmd.Run(); err != nil {
				if strings.Contains(stderr.String(), "main.go:") {
					k.Failf("compiled-build", "source generated from GoString does not compile: %.1500s", stderr.String())
				} else {
					k.Count("compiled_skipped", 1)
					k.c.Info("compiled_skip_reason", strings.TrimSpace(stderr.String()))
				}
				return
			}
			var out [][][3]float64
			if err := json.Unmarshal(stdout.Bytes(), &out); err != nil || len(out) != len(ms) {
				k.Failf("compiled-output", "unexpected program output: %v (%d matrices)", err, len(out))
				return
			}
			for j, m := range ms {
				got := align.SubstitutionMatrix{}
				for _, e := range out[j] {
					got[[2]byte{byte(e[0]), byte(e[1])}] = e[2]
				}
				if d := sameMatrix(got, m); d != "" {
					k.Input("matrix", matrixString(m))
					k.Failf("compiled-value", "matrix %d reproduced by compiled source differs: %s", j, d)
					return
				}
				k.Count("compiled_matrices", 1)
				k.Evals(1)
			}
			k.Nontrivial(formatted)
		})
	}
}

// c20Decimals: tables whose scores are short decimal numbers — one 24 x 24
// table per decimal exponent −330 … 309, every digit count 1..17 in it, in the
// plain and the variant spellings — recovered bit for bit.
func c20Decimals(c *Ctx) {
	labels := []byte("ARNDCQEGHILKMFPSTWYVBZX*")
	idx := int64(0)
	reps := c.N(1, 6)
	for exp := -330; exp <= 309; exp++ {
		c.Case(idx, func(k *K) {
			r := k.Rand()
			for rep := 0; rep < reps; rep++ {
				t := &ncbiTable{rows: labels, cols: labels}
				d := 0
				for range t.rows {
					row := make([]float64, len(t.cols))
					for j := range row {
						row[j] = decimalFloat(r, 1+d%17, exp-d%17)
						d++
					}
					t.scores = append(t.scores, row)
				}
				truth := t.truth()
				l := genNCBILayout(r)
				text := t.render(r, l)
				k.Input("decimal_exponent", exp)
				k.Input("layout", l)
				k.Input("text", func() string { return describeText(text) })
				m, err := smtext.ReadNCBI(bytes.NewReader(text))
				if err != nil {
					k.Failf("readncbi", "ReadNCBI failed on a valid table with scores around 1e%d: %v", exp, err)
					return
				}
				if d := sameMatrix(m, truth); d != "" {
					k.Failf("readncbi", "ReadNCBI result differs from the table: %s", d)
					return
				}
				k.Count("tables_read", 1)
				k.Count("decimal_scores_read", int64(len(labels)*len(labels)))
				k.Evals(int64(len(labels) * len(labels)))
			}
			k.Nontrivial([]byte(fmt.Sprint("decimals", exp)))
		})
		idx++
	}
}
