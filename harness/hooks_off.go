//go:build !verif

package main

import (
	"github.com/fluhus/biostuff/regions"
	"github.com/fluhus/biostuff/trie"
)

const hooksCompiled = false

func trieStructure(k *K, t *trie.Trie, what string) bool    { return true }
func indexStructure(k *K, idx *regions.Index) bool          { return true }
func sharesMemory(idx *regions.Index, s []int) (bool, bool) { return false, false }
