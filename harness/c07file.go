package main

// C07, thorough tier: the read fault injected below File() with strace.

import (
	"bytes"
	"encoding/json"
	"flag"
	"fmt"
	"os"
	"os/exec"
	"path/filepath"
	"runtime"
	"strings"
)

// cmdFileFault is the child run under strace: it decodes one file through
// X.File on a single OS thread and prints the item trace as JSON.
func cmdFileFault(args []string) int {
	runtime.LockOSThread()
	fs := flag.NewFlagSet("filefault", flag.ExitOnError)
	format := fs.String("format", "", "")
	path := fs.String("path", "", "")
	max := fs.Int("max", 100000, "")
	fs.Parse(args)
	cd := codecByName(*format)
	tr, over := collect(cd.file(*path), *max)
	json.NewEncoder(os.Stdout).Encode(map[string]any{"items": tr, "overflow": over})
	return 0
}

func c07FileFaults(c *Ctx) {
	strace, err := exec.LookPath("strace")
	if err != nil {
		c.Info("filefaults_skipped", "strace not found")
		c.Count("filefaults_skipped", 1)
		return
	}
	self, _ := os.Executable()
	dir, err := os.MkdirTemp("", "c07-files-")
	if err != nil {
		c.Info("filefaults_skipped", err.Error())
		c.Count("filefaults_skipped", 1)
		return
	}
	defer os.RemoveAll(dir)
	idx := int64(0)
	for _, f := range c06Formats {
		cd := codecByName(f)
		for _, gz := range []bool{false, true} {
			c.Case(idx, func(k *K) {
				r := k.Rand()
				ff := f
				if ff == "samh" {
					ff = "sam"
				}
				var buf bytes.Buffer
				for buf.Len() < 12000 {
					if ff == "bed" {
						genBED(r, 12).Write(&buf)
					} else {
						buf.Write(wellFormed(r, ff, 1+r.IntN(4)))
					}
				}
				x := buf.Bytes()
				path := filepath.Join(dir, fmt.Sprintf("f%d%s", k.Idx, cd.ext))
				data := x
				if gz {
					path += ".gz"
					// level 0 ("stored") keeps the file larger than one 4 KiB buffer
					data = gzipBytes(x, 0)
				}
				if err := os.WriteFile(path, data, 0o644); err != nil {
					k.Count("filefaults_skipped", 1)
					return
				}
				defer os.Remove(path)
				k.Input("format", f)
				k.Input("gz", gz)
				ref, _ := collect(cd.seq(bytes.NewReader(x)), len(x)+8)
				for n := 1; n <= 3; n++ {
					cmd := exec.Command(strace, "-f", "-qq", "-o", "/dev/null", "-P", path, "-e", "trace=read",
						"-e", fmt.Sprintf("inject=read:error=EIO:when=%d", n), self, "filefault", "-format", f, "-path", path, "-max", fmt.Sprint(len(x)+8))
					var stdout, stderr bytes.Buffer
					cmd.Stdout, cmd.Stderr = &stdout, &stderr
					if err := cmd.Run(); err != nil {
						k.Count("filefaults_skipped", 1)
						k.c.Info("filefaults_skip_reason", strings.TrimSpace(stderr.String()+" "+err.Error()))
						continue
					}
					var out struct {
						Items    []item
						Overflow bool
					}
					if err := json.Unmarshal(stdout.Bytes(), &out); err != nil {
						k.Count("filefaults_skipped", 1)
						continue
					}
					k.Evals(1)
					k.Input("fault_on_read_number", n)
					ri, nerr := 0, 0
					bad := false
					for _, it := range out.Items {
						if it.Err {
							nerr++
							continue
						}
						if ri >= len(ref) || it.Key != ref[ri].Key {
							k.Failf("file-fabricated-record", "%s.File under EIO on read #%d: record item %d is not the corresponding record of the fault-free decode", f, n, ri)
							bad = true
							break
						}
						ri++
					}
					if bad {
						continue
					}
					if out.Overflow {
						k.Failf("file-unbounded", "%s.File under EIO on read #%d: unbounded iteration", f, n)
						continue
					}
					if nerr == 0 {
						if ri == len(ref) {
							// The injected read was beyond what the decoder needed (e.g. the
							// whole file fit in earlier reads): nothing was lost, not a fault run.
							k.Count("filefaults_not_reached", 1)
							continue
						}
						k.Failf("file-clean-end", "%s.File: read #%d of the file failed with EIO but no error item was delivered (%d of %d records)", f, n, ri, len(ref))
						continue
					}
					k.Count("file_fault_runs", 1)
					k.Count("file_error_items", int64(nerr))
					k.Nontrivial([]byte(f), []byte{byte(n)}, x)
				}
			})
			idx++
		}
	}
}
