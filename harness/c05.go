package main

// C05 — Newick write -> read, names that need quoting.

import (
	"bytes"
	"fmt"
	"io"
	"math"
	"math/rand/v2"
	"strconv"
	"strings"

	"github.com/fluhus/biostuff/formats/newick"
)

const newickSpecial = "(),:;'_ \t\n\r"

func genNewickName(r *rand.Rand) string {
	switch r.IntN(10) {
	case 0, 1:
		return ""
	case 2:
		return string([]byte{newickSpecial[r.IntN(len(newickSpecial))]})
	case 3:
		n := 1 + r.IntN(4)
		b := make([]byte, n)
		for i := range b {
			b[i] = newickSpecial[r.IntN(len(newickSpecial))]
		}
		return string(b)
	case 4:
		return string(randBytesExcl(r, 1+r.IntN(8), nil))
	case 5:
		// letters with one special inside / at an end
		b := []byte("taxon" + fmt.Sprint(r.IntN(100)))
		pos := r.IntN(len(b) + 1)
		sp := newickSpecial[r.IntN(len(newickSpecial))]
		b = append(b[:pos], append([]byte{sp}, b[pos:]...)...)
		return string(b)
	case 6:
		return pick(r, []string{"'", "''", "'''", "a'b", "it's", " ", "  ", "_", "__", "a b", "a_b", " a", "a ", "\t", "\n", "\r\n", "1e5", "0", ":", ";", "(", ")", ",",
			"Homo sapiens", "A;B", "x:1", "'quoted'", "''''"})
	default:
		b := make([]byte, 1+r.IntN(10))
		for i := range b {
			b[i] = byte('a' + r.IntN(26))
		}
		return string(b)
	}
}

var newickDists = append([]float64{0, 1, -1, 0.1, 1e-320, 5e-324, math.MaxFloat64, 1e21, 1e20, 1e-7, math.Inf(1), math.Inf(-1), math.NaN(), 100, 0.5, -2.25, 1e-5, 123456.789}, hostileFloats...)

func genNewickDist(r *rand.Rand) float64 {
	switch r.IntN(4) {
	case 0:
		return 0
	case 1:
		return pick(r, newickDists)
	case 2:
		return math.Float64frombits(r.Uint64())
	default:
		return float64(r.IntN(100000)) / 1000
	}
}

func decorate(r *rand.Rand, nodes []*newick.Node) {
	for _, n := range nodes {
		n.Name = genNewickName(r)
		n.Distance = genNewickDist(r)
		// A leaf is a node WITHOUT children: a nil list, an empty one, or one with room left from children that
		// were removed — the same tree.
		if len(n.Children) == 0 && r.IntN(3) == 0 {
			n.Children = pick(r, [][]*newick.Node{{}, make([]*newick.Node, 0, 4), append([]*newick.Node{{Name: "removed"}}, nil)[:0]})
		}
	}
	// Names that ARE numbers: an inner node labelled with its support value, a leaf numbered 1, 2, 3 … — and, the
	// coincidence that real trees have all the time, a label spelled exactly like a branch length of the same tree
	// (its own, its neighbour's). A token is a name or a length by its POSITION, never by its text.
	if r.IntN(4) == 0 {
		for j := 0; j < 1+r.IntN(3); j++ {
			n := nodes[r.IntN(len(nodes))]
			src := nodes[r.IntN(len(nodes))]
			if r.IntN(2) == 0 {
				src = n
			}
			if d := src.Distance; d == d && !math.IsInf(d, 0) {
				n.Name = fmt.Sprint(d)
				if r.IntN(3) == 0 && d == 0 {
					n.Name = pick(r, []string{"0", "1", "0.95", "100", "1e-05"})
				}
			}
		}
	}
	// Near-duplicates within one tree (and, as the base names come from a short list, within one stream): the same
	// long name with blanks, with underscores in their place, in the other case, with a quote in it, with a blank
	// at its end — names that the format's own escaping rules map close to each other, and that a reader which
	// shares or caches names must still tell apart.
	if len(nodes) >= 2 && r.IntN(4) == 0 {
		base := pick(r, []string{"Homo sapiens neanderthalensis", "Escherichia coli str K-12 substr MG1655", "sp P69905 HBA HUMAN hemoglobin", "a b c d e f g h i j k l m n o p q"})
		twins := []string{base, strings.ReplaceAll(base, " ", "_"), strings.ToUpper(base), base + " ", " " + base, strings.Replace(base, " ", "'", 1), strings.Replace(base, " ", "  ", 1), strings.ReplaceAll(base, " ", "_") + "_", "'" + base + "'"}
		for j := 0; j < 2+r.IntN(4); j++ {
			nodes[r.IntN(len(nodes))].Name = pick(r, twins)
		}
	}
}

// newickWrite marshals a tree both ways and applies the written-form monitor.
func newickWrite(k *K, root *newick.Node) []byte {
	m, err := root.MarshalText()
	if err != nil {
		k.Failf("marshal-error", "MarshalText returned %v", err)
	}
	var w bytes.Buffer
	if err := root.Write(&w); err != nil {
		k.Failf("write-error", "Write returned %v", err)
	}
	if !bytes.Equal(m, w.Bytes()) {
		k.Failf("write-vs-marshal", "Write and MarshalText differ (%d vs %d bytes)", w.Len(), len(m))
	}
	writerZoo(k, []func(io.Writer) error{root.Write}, m)
	if len(m) == 0 || m[len(m)-1] != ';' {
		k.Failf("written-form", "text does not end with ';': %.200q", m)
		return m
	}
	// Independent quote-aware scan: no whitespace outside quoted names.
	in := false
	for i := 0; i < len(m); i++ {
		b := m[i]
		if in {
			if b == '\'' {
				if i+1 < len(m) && m[i+1] == '\'' {
					i++
				} else {
					in = false
				}
			}
			continue
		}
		switch b {
		case '\'':
			in = true
		case ' ', '\t', '\n', '\r':
			k.Failf("written-form", "whitespace byte %q outside a quoted name at offset %d of %.200q", b, i, m)
			return m
		}
	}
	if in {
		k.Failf("written-form", "unterminated quote in written text %.200q", m)
	}
	return m
}

func newickRoundTrip(k *K, root *newick.Node) []byte {
	want := treeKey(root)
	txt := newickWrite(k, root)
	got, over := collect(codecByName("newick").seq(bytes.NewReader(txt)), 3)
	if over || len(got) != 1 || got[0].Err || got[0].Key != want {
		g := traceString(got)
		k.Failf("roundtrip", "text %.300q decoded as\n got  %.1500s\n want %.1500s", txt, g, want)
	}
	return txt
}

func init() {
	register(&Property{
		ID:    "C05",
		Level: "exploration",
		Rule: "every ordered tree shape up to a node bound (Dyck-word enumeration) decorated with hostile names and distances, every single byte as a one-byte name, all pairs over the special set ( ) , : ; ' _ space TAB LF CR, " +
			"random trees up to 2000 nodes, deep chains, and sequences of up to 6 trees joined by separators; each written, checked for condensed form, read back and compared structurally (NaN==NaN, -0==0); " +
			"0.6-0.8 M distinct names and branch lengths through one Reader (one huge tree, one long stream); " +
			"non-trivial = tree with at least 2 nodes or a name that needs quoting/escaping; distinct by hash of the written text",
		Assumptions: []string{"branch length 0 (and -0) means 'none'", "names are arbitrary byte strings"},
		MinEvents:   map[string]int64{"trees_roundtripped": 500, "quoted_names": 100, "sequences": 50},
		Units: []Unit{
			{Name: "shapes", TShards: 4, Run: c05Shapes},
			{Name: "names", Run: c05Names},
			{Name: "random", TShards: 4, Run: c05Random},
			{Name: "deep", Run: c05Deep},
			{Name: "sequences", TShards: 2, Run: c05Sequences},
			{Name: "long", TShards: 2, Run: c05Long},
			{Name: "sizes", TShards: 6, Run: c05Sizes},
			{Name: "distinct", TShards: 4, Run: c05Distinct},
			{Name: "decimals", QShards: 4, TShards: 12, Run: c05Decimals},
			{Name: "prefixes", Run: prefixUnit("newick", false, 0)},
			{Name: "edges", Run: edgeUnit("newick")},
			{Name: "lexicon", TShards: 4, Run: lexiconUnit("newick")},
			{Name: "mixedsizes", QShards: 4, TShards: 8, Run: mixedSizesUnit("newick")},
			{Name: "fieldlens", TShards: 2, Run: lengthUnit("newick")},
			{Name: "parallel", Race: true, Run: codecParallel("newick")},
			{Name: "histories", Run: codecHistories("newick")},
			{Name: "readerzoo", TShards: 4, Run: zooUnit("newick")},
			{Name: "exactsizes", QShards: 2, TShards: 4, Run: exactSizeUnit("newick")},
			{Name: "tiny", TShards: 4, Run: tinyUnit("newick")},
			firstCallUnit(firstCodec("newick")),
		},
	})
}

func countQuoted(k *K, nodes []*newick.Node) {
	for _, n := range nodes {
		for i := 0; i < len(n.Name); i++ {
			if bytes.IndexByte([]byte(newickSpecial), n.Name[i]) >= 0 {
				k.Count("quoted_names", 1)
				break
			}
		}
	}
}

func c05Shapes(c *Ctx) {
	maxn := c.N(7, 10)
	shapes := allShapes(maxn)
	reps := c.N(3, 3)
	idx := int64(0)
	for _, w := range shapes {
		for rep := 0; rep < reps; rep++ {
			c.Case(idx, func(k *K) {
				root, nodes := treeFromDyck(w)
				if rep > 0 {
					decorate(k.Rand(), nodes)
				} else {
					for i, n := range nodes {
						n.Name = fmt.Sprint("n", i)
					}
				}
				k.Input("shape", w)
				k.Input("tree", func() string { return treeKey(root) })
				txt := newickRoundTrip(k, root)
				k.Count("trees_roundtripped", 1)
				countQuoted(k, nodes)
				k.Nontrivial(txt)
			})
			idx++
		}
	}
	c.Exhaustive(fmt.Sprintf("shapes: every ordered tree with at most %d nodes (%d shapes)", maxn, len(shapes)))
}

func c05Names(c *Ctx) {
	idx := int64(0)
	one := func(name string, ctx int) {
		c.Case(idx, func(k *K) {
			// The name in four positions: lone root, leaf, inner node, root of a tree with distance.
			var root *newick.Node
			switch ctx {
			case 0:
				root = &newick.Node{Name: name}
			case 1:
				root = &newick.Node{Name: "r", Children: []*newick.Node{{Name: name}, {Name: name, Distance: 2.5}}}
			case 2:
				root = &newick.Node{Children: []*newick.Node{{Name: name, Distance: 1, Children: []*newick.Node{{Name: "x"}, {Name: name}}}, {Name: "y"}}}
			default:
				root = &newick.Node{Name: name, Distance: 0.25, Children: []*newick.Node{{Name: name}}}
			}
			k.Input("name", name)
			k.Input("context", ctx)
			txt := newickRoundTrip(k, root)
			k.Count("trees_roundtripped", 1)
			k.Count("quoted_names", 1)
			k.Nontrivial(txt)
		})
		idx++
	}
	for b := 0; b < 256; b++ {
		for ctx := 0; ctx < 4; ctx++ {
			one(string([]byte{byte(b)}), ctx)
		}
	}
	c.Exhaustive("names: every byte value 0..255 as a one-byte name in 4 tree positions")
	sp := newickSpecial
	for i := 0; i < len(sp); i++ {
		for j := 0; j < len(sp); j++ {
			for ctx := 0; ctx < 4; ctx++ {
				one(string([]byte{sp[i], sp[j]}), ctx)
				one(string([]byte{sp[i], 'a', sp[j]}), ctx)
				one(string([]byte{'a', sp[i], sp[j], 'b'}), ctx)
			}
		}
	}
	c.Exhaustive("names: all pairs over the special set ( ) , : ; ' _ space TAB LF CR, bare, around and inside letters")
	// Every distance of the hostile list (and its negative and its two float
	// neighbours) on a leaf, an inner node and the root: deterministic, so that
	// no boundary value of a number formatter is left to the seed.
	for _, d0 := range newickDists {
		for _, d := range []float64{d0, -d0, math.Nextafter(d0, math.Inf(1)), math.Nextafter(d0, math.Inf(-1))} {
			c.Case(idx, func(k *K) {
				root := &newick.Node{Name: "r", Distance: d, Children: []*newick.Node{{Name: "a", Distance: d}, {Name: "in", Distance: d, Children: []*newick.Node{{Name: "b c", Distance: d}}}}}
				k.Input("distance", fmt.Sprintf("%v (bits %x)", d, math.Float64bits(d)))
				txt := newickRoundTrip(k, root)
				k.Count("trees_roundtripped", 1)
				k.Count("distance_sweep_cases", 1)
				k.Nontrivial(txt)
			})
			idx++
		}
	}
	// Random byte-string names.
	n := c.N(6000, 200000)
	for i := 0; i < n; i++ {
		c.Case(idx, func(k *K) {
			r := k.Rand()
			name := string(randBytesExcl(r, 1+r.IntN(12), nil))
			if r.IntN(2) == 0 {
				name = genNewickName(r)
			}
			root := &newick.Node{Name: genNewickName(r), Distance: genNewickDist(r), Children: []*newick.Node{{Name: name, Distance: genNewickDist(r)}, {Name: name}}}
			k.Input("name", name)
			k.Input("tree", func() string { return treeKey(root) })
			txt := newickRoundTrip(k, root)
			k.Count("trees_roundtripped", 1)
			countQuoted(k, root.Children[:1])
			k.Nontrivial(txt)
		})
		idx++
	}
}

func c05Random(c *Ctx) {
	n := c.N(2000, 100000)
	for i := 0; i < n; i++ {
		c.Case(int64(i), func(k *K) {
			r := k.Rand()
			size := 1 + r.IntN(40)
			if r.IntN(20) == 0 {
				size = 1 + r.IntN(2000)
			}
			root, nodes := randomTree(r, size, r.IntN(4))
			decorate(r, nodes)
			k.Input("nodes", size)
			k.Input("tree", func() string { return treeKey(root) })
			txt := newickRoundTrip(k, root)
			k.Count("trees_roundtripped", 1)
			k.Count("nodes_roundtripped", int64(size))
			countQuoted(k, nodes)
			if size >= 2 {
				k.Nontrivial(txt)
			}
		})
	}
}

func c05Deep(c *Ctx) {
	depths := []int{1000, c.N(10000, 200000)}
	for i, d := range depths {
		for every := 0; every < 2; every++ {
			c.Case(int64(i*2+every), func(k *K) {
				root, cnt := chainTree(d, every*7)
				// name a few nodes
				cur := root
				for j := 0; cur != nil; j++ {
					if j%1000 == 0 {
						cur.Name = fmt.Sprintf("lvl %d", j)
						cur.Distance = float64(j) + 0.5
					}
					if len(cur.Children) == 0 {
						break
					}
					cur = cur.Children[0]
				}
				k.Input("chain_depth", d)
				k.Input("side_leaf_every", every*7)
				txt := newickRoundTrip(k, root)
				k.Count("trees_roundtripped", 1)
				k.Count("nodes_roundtripped", int64(cnt))
				k.Count("max_depth", int64(d))
				k.Nontrivial(txt)
			})
		}
	}
}

var treeSeparators = []string{"", " ", "\n", "\r\n", "\t \n"}

func c05Sequences(c *Ctx) {
	n := c.N(1500, 50000)
	for i := 0; i < n; i++ {
		c.Case(int64(i), func(k *K) {
			r := k.Rand()
			nt := r.IntN(7)
			if r.IntN(60) == 0 { // many trees in one stream
				nt = 300 + r.IntN(2000)
				k.Count("many_tree_streams", 1)
			}
			var text bytes.Buffer
			var want []item
			text.WriteString(pick(r, treeSeparators))
			// all trees marshalled first and the results held, then joined
			var held [][]byte
			var roots []*newick.Node
			for j := 0; j < nt; j++ {
				root, nodes := randomTree(r, 1+r.IntN(8), r.IntN(4))
				decorate(r, nodes)
				m, err := root.MarshalText()
				if err != nil {
					k.Failf("marshal-error", "MarshalText returned %v", err)
				}
				held = append(held, m)
				roots = append(roots, root)
				want = append(want, item{Key: treeKey(root)})
			}
			if len(roots) > 0 && len(held[0]) > 1 {
				roots[0].Write(&limitWriter{k: len(held[0]) / 2}) // a write that fails half-way must leave nothing behind
			}
			for j, m := range held {
				var w bytes.Buffer
				roots[j].Write(&w)
				if !bytes.Equal(w.Bytes(), m) {
					k.Failf("write-vs-marshal", "tree %d: the bytes returned earlier by MarshalText differ from what Write produces", j)
				}
				text.Write(m)
				text.WriteString(pick(r, treeSeparators))
			}
			k.Count("held_marshal_results", int64(len(held)))
			k.Input("text", func() string { return describeText(text.Bytes()) })
			got, over := collect(codecByName("newick").seq(bytes.NewReader(text.Bytes())), nt+3)
			if over || !sameTrace(got, want) {
				k.Failf("sequence", "sequence of %d trees decoded differently:\n got  %s\n want %s", nt, traceString(got), traceString(want))
			}
			k.Count("sequences", 1)
			k.Count("trees_roundtripped", int64(nt))
			if nt >= 2 {
				k.Nontrivial(text.Bytes())
			}
		})
	}
}

// c05Long: names longer than the usual I/O buffers, quoted and unquoted.
func c05Long(c *Ctx) {
	n := c.N(120, 4000)
	for i := 0; i < n; i++ {
		c.Case(int64(i), func(k *K) {
			r := k.Rand()
			root, nodes := randomTree(r, 1+r.IntN(8), r.IntN(4))
			decorate(r, nodes)
			nd := nodes[r.IntN(len(nodes))]
			l := longSize(r)
			switch r.IntN(3) {
			case 0:
				nd.Name = string(randBytesExcl(r, l, nil))
			case 1:
				nd.Name = string(randSeq(r, []byte("abcdefghijklmnopqrstuvwxyz"), l))
			default:
				nd.Name = string(randSeq(r, []byte("abcdefghij  '"), l))
			}
			k.Input("long_name_len", l)
			k.Input("tree", func() string { return fmt.Sprintf("%.600s", treeKey(root)) })
			txt := newickRoundTrip(k, root)
			k.Count("trees_roundtripped", 1)
			k.Count("long_names", 1)
			k.Nontrivial(txt)
		})
	}
}

// c05Sizes sweeps name lengths densely around multiples of the usual buffer
// sizes; names carry quotes so that escape pairs fall on every offset.
func c05Sizes(c *Ctx) {
	spans := [][2]int{{3950, 4200}}
	if c.Thorough {
		spans = [][2]int{{3900, 4250}, {8000, 8300}, {16200, 16500}, {65300, 65700}}
	}
	idx := int64(0)
	for _, sp := range spans {
		for l := sp[0]; l <= sp[1]; l++ {
			c.Case(idx, func(k *K) {
				r := k.Rand()
				alpha := pick(r, []string{"abcdefghij", "abc '", "ab'", "a_ b"})
				first := &newick.Node{Name: "r", Children: []*newick.Node{{Name: string(randSeq(r, []byte(alpha), l)), Distance: 1.5}, {Name: "x"}}}
				second, nodes := randomTree(r, 1+r.IntN(5), r.IntN(4))
				decorate(r, nodes)
				k.Input("name_len", l)
				k.Input("alphabet", alpha)
				var text bytes.Buffer
				var want []item
				for _, root := range []*newick.Node{first, second} {
					text.Write(newickWrite(k, root))
					want = append(want, item{Key: treeKey(root)})
				}
				got, over := collect(codecByName("newick").seq(bytes.NewReader(text.Bytes())), 5)
				if over || !sameTrace(got, want) {
					k.Failf("roundtrip", "trees around a buffer-size boundary decoded differently:\n got  %.600s\n want %.600s", traceString(got), traceString(want))
				}
				k.Count("trees_roundtripped", 2)
				k.Count("size_sweep_cases", 1)
				k.Nontrivial([]byte(fmt.Sprint(l, alpha)), text.Bytes()[:min(64, text.Len())])
			})
			idx++
		}
	}
}

// c05Distinct pushes a very large number of DISTINCT names and branch lengths
// through one Reader — one huge tree, or one long stream of small trees: a
// reader that caches, interns or deduplicates tokens by anything weaker than
// their full content shows up only at this cardinality.
func c05Distinct(c *Ctx) {
	n := c.N(2, 12)
	for i := 0; i < n; i++ {
		c.Case(int64(i), func(k *K) {
			r := k.Rand()
			total := 300000 + r.IntN(100000)
			prefixes := []string{"taxon", "OTU", "sp", "seq_", "Homo sapiens ", "n", ""}
			serial := 0
			label := func(nodes []*newick.Node) {
				for _, nd := range nodes {
					serial++
					switch r.IntN(4) {
					case 0:
						nd.Name = fmt.Sprint(pick(r, prefixes), serial)
					case 1:
						nd.Name = fmt.Sprintf("%s%d.%c", pick(r, prefixes), serial, 'a'+r.IntN(26))
					case 2:
						nd.Name = fmt.Sprintf("%x", uint64(serial)*0x9E3779B97F4A7C15)
					default:
						nd.Name = fmt.Sprint(serial)
					}
					nd.Distance = float64(1+r.IntN(999999)) / 1e6 * float64(1+r.IntN(3))
				}
			}
			var text bytes.Buffer
			var want []item
			if i%2 == 0 {
				root, nodes := randomTree(r, total, r.IntN(4))
				label(nodes)
				text.Write(newickWrite(k, root))
				want = append(want, item{Key: treeKey(root)})
			} else {
				for serial < total {
					root, nodes := randomTree(r, 1+r.IntN(8), r.IntN(4))
					label(nodes)
					m, _ := root.MarshalText()
					text.Write(m)
					text.WriteString(pick(r, treeSeparators))
					want = append(want, item{Key: treeKey(root)})
				}
			}
			k.Input("distinct_tokens", 2*serial)
			k.Input("trees", len(want))
			got, over := collect(codecByName("newick").seq(bytes.NewReader(text.Bytes())), len(want)+3)
			if over || !sameTrace(got, want) {
				msg := fmt.Sprintf("%d items, want %d", len(got), len(want))
				for j := 0; j < len(got) && j < len(want); j++ {
					if got[j].Err != want[j].Err || got[j].Key != want[j].Key {
						g, w := got[j].Key, want[j].Key
						p := 0
						for p < len(g) && p < len(w) && g[p] == w[p] {
							p++
						}
						msg = fmt.Sprintf("tree %d differs at offset %d of its canonical form: got ...%.80q, want ...%.80q (err=%v)", j, p, g[max(0, p-30):min(len(g), p+40)], w[max(0, p-30):min(len(w), p+40)], got[j].Err)
						break
					}
				}
				k.Failf("roundtrip-many-distinct", "%d distinct names and lengths through one Reader: %s", 2*serial, msg)
			}
			k.Count("trees_roundtripped", int64(len(want)))
			k.Count("nodes_roundtripped", int64(serial))
			k.Count("distinct_tokens_one_reader", int64(2*serial))
			k.Nontrivial([]byte(fmt.Sprint(i, serial)), text.Bytes()[:min(64, text.Len())])
		})
	}
}

// c05Decimals: branch lengths that are short decimal numbers, swept over EVERY
// decimal exponent from 1e-330 to 1e309 and every digit count 1..17 (a few
// hundred random mantissas each): one star tree per exponent, compared bit by
// bit after write -> read.
func c05Decimals(c *Ctx) {
	per := c.N(300, 4000)
	idx := int64(0)
	for exp := -330; exp <= 309; exp++ {
		c.Case(idx, func(k *K) {
			r := k.Rand()
			root := &newick.Node{Name: "r"}
			for digits := 1; digits <= 17; digits++ {
				for j := 0; j < per; j++ {
					root.Children = append(root.Children, &newick.Node{Distance: decimalFloat(r, digits, exp-digits+1)})
				}
			}
			k.Input("decimal_exponent", exp)
			k.Input("first_distances", fmt.Sprint(root.Children[0].Distance, root.Children[per].Distance, root.Children[8*per].Distance))
			txt, err := root.MarshalText()
			if err != nil {
				k.Failf("marshal", "MarshalText failed: %v", err)
				return
			}
			n := 0
			for got, err := range newick.Reader(bytes.NewReader(txt)) {
				n++
				if err != nil || got == nil || len(got.Children) != len(root.Children) {
					k.Failf("roundtrip", "a star tree of %d leaves with decimal branch lengths around 1e%d does not read back: err=%v", len(root.Children), exp, err)
					return
				}
				for j, ch := range got.Children {
					if w := root.Children[j].Distance; !sameFloat(ch.Distance, w) {
						k.Input("distance", fmt.Sprintf("%v (bits %x)", w, math.Float64bits(w)))
						k.Failf("roundtrip", "branch length %v (bits %x) is written as %s and reads back as %v (bits %x)", w, math.Float64bits(w), strconv.FormatFloat(w, 'g', -1, 64), ch.Distance, math.Float64bits(ch.Distance))
						return
					}
				}
			}
			if n != 1 {
				k.Failf("roundtrip", "one tree written, %d items read", n)
				return
			}
			k.Count("decimal_distances_roundtripped", int64(len(root.Children)))
			k.Count("trees_roundtripped", 1)
			k.Evals(int64(len(root.Children)))
			k.Nontrivial([]byte(fmt.Sprint("decimals", exp)))
		})
		idx++
	}
}
