package main

// Native Go fuzz targets for C11 (thorough tier). They use the same oracle as
// the seeded mutation workload: decodeTotal (totality + fixed point).

import (
	"math/rand/v2"
	"testing"
)

func fuzzDecoder(f *testing.F, format string) {
	// Seed corpus: well-formed and near-valid samples from the fixed generators.
	r := rand.New(rand.NewPCG(2026, 1001))
	for i := 0; i < 12; i++ {
		f.Add(wellFormed(r, format, 1+i%4))
		f.Add(nearValid(r, format))
	}
	f.Add([]byte{})
	f.Fuzz(func(t *testing.T, x []byte) {
		rep := &Report{Counters: map[string]int64{}, Known: map[string]*Known{}, Exhaustive: map[string]bool{}, Info: map[string]any{}}
		c := &Ctx{Prop: "C11", Unit: "fuzz", Only: -1, Rep: rep, digests: map[uint64]struct{}{}}
		c.Case(0, func(k *K) {
			k.Input("input", x)
			decodeTotal(k, format, x)
		})
		if len(rep.Violations) > 0 {
			t.Fatalf("%s: %s", rep.Violations[0].Kind, rep.Violations[0].Message)
		}
	})
}

func FuzzFasta(f *testing.F)  { fuzzDecoder(f, "fasta") }
func FuzzFastq(f *testing.F)  { fuzzDecoder(f, "fastq") }
func FuzzSam(f *testing.F)    { fuzzDecoder(f, "sam") }
func FuzzBed(f *testing.F)    { fuzzDecoder(f, "bed") }
func FuzzNewick(f *testing.F) { fuzzDecoder(f, "newick") }
func FuzzNcbi(f *testing.F)   { fuzzDecoder(f, "ncbi") }
