package main

// "lexicon" units (C01–C05; C11 uses the same generator): text fields made of
// the vocabulary that real files of these formats carry — key=value and
// key:TYPE:value annotations, database cross-references, read-pair suffixes,
// coordinates, header keywords of this and the neighbouring formats — combined
// with hostile NUMBERS (every digit count, next to powers of two and ten, huge,
// negative, decimal, in exponent notation). Code that recognises such an
// annotation in free text (to pre-size a buffer from "length=", to strip a
// "/1" suffix, to skip a "track" line, to split at "|") meets it here and in
// no random byte string. The fields are free text for the library: whatever
// they say, they must come back as written.

import (
	"fmt"
	"math/rand/v2"
	"strconv"
	"strings"
)

var lexWords = []string{
	// FASTA / FASTQ headers
	"length", "len", "LN", "size", "seqlen", "start", "end", "strand", "range", "loc", "pos", "offset", "count", "cov", "coverage", "multi", "gc", "depth",
	"read", "reads", "run", "lane", "tile", "x", "y", "id", "ID", "Name", "Parent", "organism", "taxid", "OS", "OX", "GN", "PE", "SV", "gi", "ref", "gb", "emb", "sp", "tr", "lcl", "pdb",
	"SRR001666.1", "ERR1234567", "NC_000913.3", "NM_001301717", "chr1", "chrM", "chrUn_gl000220", "scaffold_12", "contig", "NODE_1_length_1000_cov_12.5", "k141_7", "flag",
	// SAM
	"NM", "MD", "AS", "XS", "RG", "BC", "UMI", "CIGAR", "MAPQ", "SN", "VN", "SO", "PG", "CL", "@HD", "@SQ", "@RG", "@PG", "@CO", "10M2I5D", "100M", "*", "=",
	// BED / UCSC
	"track", "browser", "name", "description", "itemRgb", "visibility", "useScore", "position", "type", "bedGraph", "wiggle_0", "255,0,0", "#",
	// Newick / NHX / NEXUS
	"&&NHX", "&R", "&U", "B", "S", "D", "T", "bootstrap", "posterior", "rate", "height", "begin", "trees", "tree", "translate", "#NEXUS",
	// matrices
	"Matrix", "BLOSUM62", "PAM250", "Entropy", "Expected", "gap", "open", "extend",
	// one- and two-letter type codes (SAM tag types and array subtypes, NHX keys, strand letters)
	"i", "f", "c", "C", "s", "I", "A", "Z", "H", "B:i", "B:f", "E", "Ev", "W", "N",
	// general
	"true", "false", "null", "NA", "NaN", "inf", "none", "version", "date", "2024-09-17", "12:30:05", "v1.2.3", "md5", "crc32", "http://example.org/x?y=1&z=2", "a@b.org",
}

var lexSeps = []string{" ", " ", "=", "=", ":", ":", "|", ";", ",", "/", "_", "-", ".", "#", " /", "\t", "..", ":i:", ":Z:", ":f:", "='", "=\"", "[", "]", "(", ")", "{", "}", "<", ">", "%", "&", "+", "~", "@", "*", "!", "?", "\\", "'", "\""}

// lexNumber: a number as text — all digit counts, boundaries, huge digit runs,
// decimals, exponent notation, signs, zero padding, hex, ranges.
func lexNumber(r *rand.Rand) string { return lexNumberOf(r, r.IntN(10)) }

const lexNumberClasses = 10

func lexNumberOf(r *rand.Rand, class int) string {
	switch class {
	case 0:
		return strconv.Itoa(digitInt(r))
	case 1:
		return strconv.Itoa(r.IntN(200))
	case 2: // a digit run of 1..40 digits
		n := 1 + r.IntN(40)
		b := make([]byte, n)
		for i := range b {
			b[i] = byte('0' + r.IntN(10))
		}
		if r.IntN(3) == 0 {
			b[0] = '9'
		}
		return string(b)
	case 3:
		return strconv.FormatFloat(decimalFloat(r, 1+r.IntN(17), r.IntN(640)-330), 'g', -1, 64)
	case 4:
		return fmt.Sprintf("%d-%d", r.IntN(1000), digitInt(r))
	case 5:
		return fmt.Sprintf("%d..%d", digitInt(r), r.IntN(100000))
	case 6:
		return fmt.Sprintf("0x%x", r.Uint64()>>uint(r.IntN(64)))
	case 7:
		return fmt.Sprintf("%0*d", 1+r.IntN(25), r.IntN(1000))
	case 8:
		return pick(r, []string{"9223372036854775807", "9223372036854775808", "-9223372036854775808", "18446744073709551615", "18446744073709551616", "4294967296", "2147483648", "1e309", "1e-400", "-0", "+5", "1_000", "1,000", "٣", "Ⅷ"})
	default:
		return strconv.FormatFloat(r.NormFloat64()*100, 'f', r.IntN(4), 64)
	}
}

// lexText: 1..6 annotations "word sep number" / "word" / "number" joined by separators.
func lexText(r *rand.Rand) string {
	var b strings.Builder
	for n := 1 + r.IntN(6); n > 0; n-- {
		switch r.IntN(5) {
		case 0:
			b.WriteString(pick(r, lexWords))
		case 1:
			b.WriteString(lexNumber(r))
		default:
			b.WriteString(pick(r, lexWords))
			b.WriteString(pick(r, lexSeps))
			b.WriteString(lexNumber(r))
		}
		if n > 1 {
			b.WriteString(pick(r, lexSeps))
		}
	}
	return b.String()
}

// lexFor returns a lexicon text that is inside the domain of text field
// `field` of the format (delimiter bytes of the format replaced).
func lexFor(r *rand.Rand, format string, field int) string {
	v := lexText(r)
	switch format {
	case "sam", "bed":
		v = strings.ReplaceAll(v, "\t", " ")
	case "fasta":
		if field == 1 {
			v = strings.ReplaceAll(v, ">", "<")
		}
	}
	return v
}

var lexCoreSeps = []string{"=", ":", " ", "|", "/", "_", ":i:", ":Z:", "-", ",", ";", "."}

func lexiconUnit(format string) func(c *Ctx) {
	return func(c *Ctx) {
		cd := codecByName(format)
		// Deterministic part: EVERY word of the lexicon x every core separator x every class of number, as the
		// whole field, at its start (followed by more text) and at its end (after other annotations).
		idx := int64(1 << 32)
		for wi, w := range lexWords {
			for si, sep := range lexCoreSeps {
				c.Case(idx, func(k *K) {
					r := k.Rand()
					for cv := 0; cv < 3*lexNumberClasses; cv++ {
						class, variant := cv/3, cv%3
						ann := w + sep + lexNumberOf(r, class)
						var v string
						switch variant {
						case 0:
							v = ann
						case 1:
							v = ann + pick(r, lexSeps) + lexText(r)
						default:
							v = pick(r, []string{"SRR001666.2 071112_SLXA-EAS1_s_7:5:1:801:338", "scaffold_12 run=7", "x", "gi|556503834|ref|NC_000913.3|"}) + " " + ann
						}
						field := (wi + si + class) % textFieldCount[format]
						if variant == 2 || class%2 == 0 {
							field = 0 // the name / identifier field, where annotations live
						}
						switch format {
						case "sam", "bed":
							v = strings.ReplaceAll(v, "\t", " ")
							if field == 0 && (strings.HasPrefix(v, "@") || strings.HasPrefix(v, "#")) {
								v = "q" + v
							}
						case "fasta":
							if field == 1 {
								v = strings.ReplaceAll(v, ">", "<")
							}
						}
						fieldRoundTrip(k, cd, format, field, v, "lexicon", "an annotation as real files carry them: word, separator, number")
						if k.Failed() {
							return
						}
						if variant == 0 && len(w) <= 3 { // short codes: as the whole of EVERY text field
							for f := 0; f < textFieldCount[format]; f++ {
								if f == 0 && format != "fasta" && format != "fastq" && format != "newick" {
									continue
								}
								fieldRoundTrip(k, cd, format, f, v, "lexicon", "a short code, a separator and a number as the whole field")
								if k.Failed() {
									return
								}
								k.Evals(1)
							}
						}
						k.Count("lexicon_annotations_swept", 1)
						k.Evals(1)
					}
				})
				idx++
			}
		}
		n := c.N(1500, 60000)
		for i := 0; i < n; i++ {
			c.Case(int64(i), func(k *K) {
				r := k.Rand()
				field := i % textFieldCount[format]
				fieldRoundTrip(k, cd, format, field, lexFor(r, format, field), "lexicon", "annotations and numbers as real files carry them")
				k.Count("lexicon_cases", 1)
			})
		}
	}
}
