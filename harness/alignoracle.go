package main

// Independent oracles for the alignment properties C08, C09, C10.

import (
	"fmt"
	"math"
	"math/rand/v2"

	"github.com/fluhus/biostuff/align"
)

const gapB = 255

// mget reads a matrix entry; the second result is false when the pair is
// missing (the library panics there; oracles must not).
func mget(m align.SubstitutionMatrix, a, b byte) float64 {
	v, ok := m[[2]byte{a, b}]
	if !ok {
		panic(fmt.Sprintf("oracle: pair (%d,%d) missing from the matrix", a, b))
	}
	return v
}

// rescore walks steps from offsets (ai,bi) and returns the documented score,
// the number of characters consumed from a and b, and an error text when a
// step is invalid or leaves the sequences.
func rescore(a, b []byte, m align.SubstitutionMatrix, steps []align.Step, ai, bi int) (score float64, ca, cb int, problem string) {
	i, j := ai, bi
	if i < 0 || j < 0 || i > len(a) || j > len(b) {
		return 0, 0, 0, fmt.Sprintf("start offsets (%d,%d) outside the sequences (%d,%d)", ai, bi, len(a), len(b))
	}
	var prev align.Step
	for si, s := range steps {
		switch s {
		case align.Match:
			if i >= len(a) || j >= len(b) {
				return 0, 0, 0, fmt.Sprintf("step %d (match) runs past the end of a sequence at (%d,%d)", si, i, j)
			}
			score += mget(m, a[i], b[j])
			i++
			j++
		case align.Deletion:
			if i >= len(a) {
				return 0, 0, 0, fmt.Sprintf("step %d (deletion) runs past the end of a at %d", si, i)
			}
			score += mget(m, a[i], gapB)
			if prev != align.Deletion {
				score += mget(m, gapB, gapB)
			}
			i++
		case align.Insertion:
			if j >= len(b) {
				return 0, 0, 0, fmt.Sprintf("step %d (insertion) runs past the end of b at %d", si, j)
			}
			score += mget(m, gapB, b[j])
			if prev != align.Insertion {
				score += mget(m, gapB, gapB)
			}
			j++
		default:
			return 0, 0, 0, fmt.Sprintf("step %d has the invalid value %d", si, s)
		}
		prev = s
	}
	return score, i - ai, j - bi, ""
}

var negInf = math.Inf(-1)

func max3(a, b, c float64) float64 { return math.Max(a, math.Max(b, c)) }

// gotohGlobal returns the optimal global alignment score under the documented
// scoring (three-state DP), keeping two rows per state so that tables of tens
// of millions of cells stay cheap. gotohGlobalFull is the plain formulation the
// self-test compares it with.
func gotohGlobal(a, b []byte, m align.SubstitutionMatrix) float64 {
	n, l := len(a), len(b)
	open := mget(m, gapB, gapB)
	prevM, prevD, prevI := make([]float64, l+1), make([]float64, l+1), make([]float64, l+1)
	curM, curD, curI := make([]float64, l+1), make([]float64, l+1), make([]float64, l+1)
	insS := make([]float64, l+1)
	for j := 1; j <= l; j++ {
		insS[j] = mget(m, gapB, b[j-1])
	}
	for j := range prevM {
		prevM[j], prevD[j], prevI[j] = negInf, negInf, negInf
	}
	prevM[0] = 0
	for j := 1; j <= l; j++ {
		if j == 1 {
			prevI[j] = open + insS[j]
		} else {
			prevI[j] = prevI[j-1] + insS[j]
		}
	}
	for i := 1; i <= n; i++ {
		del := mget(m, a[i-1], gapB)
		curM[0], curI[0] = negInf, negInf
		if i == 1 {
			curD[0] = open + del
		} else {
			curD[0] = prevD[0] + del
		}
		for j := 1; j <= l; j++ {
			curM[j] = max3(prevM[j-1], prevD[j-1], prevI[j-1]) + mget(m, a[i-1], b[j-1])
			curD[j] = max3(prevM[j]+open, prevD[j], prevI[j]+open) + del
			curI[j] = max3(curM[j-1]+open, curD[j-1]+open, curI[j-1]) + insS[j]
		}
		prevM, curM = curM, prevM
		prevD, curD = curD, prevD
		prevI, curI = curI, prevI
	}
	return max3(prevM[l], prevD[l], prevI[l])
}

func gotohGlobalFull(a, b []byte, m align.SubstitutionMatrix) float64 {
	n, l := len(a), len(b)
	open := mget(m, gapB, gapB)
	M := make([][]float64, n+1)
	D := make([][]float64, n+1)
	I := make([][]float64, n+1)
	for i := range M {
		M[i] = make([]float64, l+1)
		D[i] = make([]float64, l+1)
		I[i] = make([]float64, l+1)
		for j := range M[i] {
			M[i][j], D[i][j], I[i][j] = negInf, negInf, negInf
		}
	}
	M[0][0] = 0
	for i := 1; i <= n; i++ {
		del := mget(m, a[i-1], gapB)
		if i == 1 {
			D[i][0] = open + del
		} else {
			D[i][0] = D[i-1][0] + del
		}
	}
	for j := 1; j <= l; j++ {
		ins := mget(m, gapB, b[j-1])
		if j == 1 {
			I[0][j] = open + ins
		} else {
			I[0][j] = I[0][j-1] + ins
		}
	}
	for i := 1; i <= n; i++ {
		del := mget(m, a[i-1], gapB)
		for j := 1; j <= l; j++ {
			ins := mget(m, gapB, b[j-1])
			M[i][j] = max3(M[i-1][j-1], D[i-1][j-1], I[i-1][j-1]) + mget(m, a[i-1], b[j-1])
			D[i][j] = max3(M[i-1][j]+open, D[i-1][j], I[i-1][j]+open) + del
			I[i][j] = max3(M[i][j-1]+open, D[i][j-1]+open, I[i][j-1]) + ins
		}
	}
	return max3(M[n][l], D[n][l], I[n][l])
}

// gotohLocal returns the optimal score over all alignments of all pairs of
// substrings (the empty alignment scores 0).
func gotohLocal(a, b []byte, m align.SubstitutionMatrix) float64 {
	n, l := len(a), len(b)
	open := mget(m, gapB, gapB)
	prevM := make([]float64, l+1)
	prevD := make([]float64, l+1)
	prevI := make([]float64, l+1)
	curM := make([]float64, l+1)
	curD := make([]float64, l+1)
	curI := make([]float64, l+1)
	for j := range prevM {
		prevM[j], prevD[j], prevI[j] = negInf, negInf, negInf
	}
	best := 0.0
	// Row 0: alignments made of insertions only.
	for j := 1; j <= l; j++ {
		ins := mget(m, gapB, b[j-1])
		prevI[j] = math.Max(0+open, prevI[j-1]) + ins
		best = math.Max(best, prevI[j])
	}
	for i := 1; i <= n; i++ {
		del := mget(m, a[i-1], gapB)
		curM[0], curI[0] = negInf, negInf
		curD[0] = math.Max(0+open, prevD[0]) + del
		best = math.Max(best, curD[0])
		for j := 1; j <= l; j++ {
			ins := mget(m, gapB, b[j-1])
			curM[j] = math.Max(0, max3(prevM[j-1], prevD[j-1], prevI[j-1])) + mget(m, a[i-1], b[j-1])
			curD[j] = math.Max(0+open, max3(prevM[j]+open, prevD[j], prevI[j]+open)) + del
			curI[j] = math.Max(0+open, max3(curM[j-1]+open, curD[j-1]+open, curI[j-1])) + ins
			best = math.Max(best, max3(curM[j], curD[j], curI[j]))
		}
		prevM, curM = curM, prevM
		prevD, curD = curD, prevD
		prevI, curI = curI, prevI
	}
	return best
}

// bruteGlobal enumerates every alignment of a and b.
func bruteGlobal(a, b []byte, m align.SubstitutionMatrix) float64 {
	open := mget(m, gapB, gapB)
	best := negInf
	var rec func(i, j int, prev align.Step, acc float64)
	rec = func(i, j int, prev align.Step, acc float64) {
		if i == len(a) && j == len(b) {
			if acc > best {
				best = acc
			}
			return
		}
		if i < len(a) && j < len(b) {
			rec(i+1, j+1, align.Match, acc+mget(m, a[i], b[j]))
		}
		if i < len(a) {
			s := acc + mget(m, a[i], gapB)
			if prev != align.Deletion {
				s += open
			}
			rec(i+1, j, align.Deletion, s)
		}
		if j < len(b) {
			s := acc + mget(m, gapB, b[j])
			if prev != align.Insertion {
				s += open
			}
			rec(i, j+1, align.Insertion, s)
		}
	}
	rec(0, 0, 0, 0)
	return best
}

// bruteLocal enumerates every alignment of every pair of substrings.
func bruteLocal(a, b []byte, m align.SubstitutionMatrix) float64 {
	best := 0.0
	for i := 0; i <= len(a); i++ {
		for i2 := i; i2 <= len(a); i2++ {
			for j := 0; j <= len(b); j++ {
				for j2 := j; j2 <= len(b); j2++ {
					if i == i2 && j == j2 {
						continue
					}
					if s := bruteGlobal(a[i:i2], b[j:j2], m); s > best {
						best = s
					}
				}
			}
		}
	}
	return best
}

// editDistance is Wagner-Fischer, written independently of the library.
func editDistance(a, b []byte) int {
	prev := make([]int, len(b)+1)
	cur := make([]int, len(b)+1)
	for j := range prev {
		prev[j] = j
	}
	for i := 1; i <= len(a); i++ {
		cur[0] = i
		for j := 1; j <= len(b); j++ {
			c := prev[j-1]
			if a[i-1] != b[j-1] {
				c++
			}
			c = min(c, prev[j]+1, cur[j-1]+1)
			cur[j] = c
		}
		prev, cur = cur, prev
	}
	return prev[len(b)]
}

// singleStateGlobal is the *defect model* R of the open finding of C10: one
// score per cell, a gap step pays gap-open iff the predecessor cell's recorded
// step is not the same gap kind, ties resolved match >= deletion >= insertion.
func singleStateGlobal(a, b []byte, m align.SubstitutionMatrix) float64 {
	score, _ := singleState(a, b, m, false)
	return score
}

func singleStateLocal(a, b []byte, m align.SubstitutionMatrix) float64 {
	score, _ := singleState(a, b, m, true)
	return score
}

func singleState(a, b []byte, m align.SubstitutionMatrix, local bool) (float64, int) {
	rows, cols := len(a)+1, len(b)+1
	open := mget(m, gapB, gapB)
	sc := make([]float64, rows*cols)
	st := make([]byte, rows*cols) // 0 none, 1 match, 2 deletion, 3 insertion
	clamp := func(p int) {
		if local && sc[p] < 0 {
			sc[p], st[p] = 0, 0
		}
	}
	for i := 0; i < rows; i++ {
		for j := 0; j < cols; j++ {
			p := i*cols + j
			switch {
			case i == 0 && j == 0:
			case i == 0:
				sc[p] = sc[p-1] + mget(m, gapB, b[j-1])
				st[p] = 3
				if j == 1 {
					sc[p] += open
				}
				clamp(p)
			case j == 0:
				sc[p] = sc[p-cols] + mget(m, a[i-1], gapB)
				st[p] = 2
				if i == 1 {
					sc[p] += open
				}
				clamp(p)
			default:
				mch := sc[p-cols-1] + mget(m, a[i-1], b[j-1])
				del := sc[p-cols] + mget(m, a[i-1], gapB)
				if st[p-cols] != 2 {
					del += open
				}
				ins := sc[p-1] + mget(m, gapB, b[j-1])
				if st[p-1] != 3 {
					ins += open
				}
				switch {
				case mch >= del && mch >= ins:
					sc[p], st[p] = mch, 1
				case del >= ins:
					sc[p], st[p] = del, 2
				default:
					sc[p], st[p] = ins, 3
				}
				clamp(p)
			}
		}
	}
	if !local {
		return sc[rows*cols-1], rows*cols - 1
	}
	best := 0
	for p := range sc {
		if sc[p] > sc[best] {
			best = p
		}
	}
	return sc[best], best
}

// ---------------------------------------------------------------- matrices

type matSpec struct {
	scale    float64 // if non-zero, every entry is multiplied by it (exactly representable products)
	alpha    []byte
	gapOpen  float64
	gapSign  int // -1: gap scores <= 0; 0: any sign
	sym      bool
	fraction bool // dyadic fractions instead of integers
}

// genAlignMatrix builds a random complete matrix over alpha (+gap).
func genAlignMatrix(r *rand.Rand, sp matSpec) align.SubstitutionMatrix {
	m := align.SubstitutionMatrix{}
	val := func() float64 {
		v := float64(r.IntN(13) - 6)
		if sp.fraction {
			v = float64(r.IntN(49)-24) / 4
		}
		return v
	}
	// partial symmetries: symmetric substitutions with deletion and insertion scores that differ, or the reverse
	symSub, symGap := sp.sym, sp.sym
	if !sp.sym {
		switch r.IntN(6) {
		case 0:
			symSub = true
		case 1:
			symGap = true
		}
	}
	for _, x := range sp.alpha {
		for _, y := range sp.alpha {
			if symSub && y < x {
				m[[2]byte{x, y}] = m[[2]byte{y, x}]
				continue
			}
			v := val()
			if x == y && r.IntN(3) > 0 {
				v = math.Abs(v) + 1
			}
			m[[2]byte{x, y}] = v
		}
	}
	uniform := r.IntN(4) == 0 // the same gap score for every symbol and both directions (the usual case in practice)
	u := val()
	for _, x := range sp.alpha {
		g1, g2 := val(), val()
		if uniform {
			g1, g2 = u, u
		}
		if sp.gapSign < 0 {
			g1, g2 = -math.Abs(g1), -math.Abs(g2)
		}
		if symGap {
			g2 = g1
		}
		m[[2]byte{x, gapB}] = g1
		m[[2]byte{gapB, x}] = g2
	}
	m[[2]byte{gapB, gapB}] = sp.gapOpen
	if sp.scale != 0 {
		for key, v := range m {
			m[key] = v * sp.scale
		}
	}
	if r.IntN(40) == 0 {
		// "Forbidden" gaps, the finite way: every gap score is the most negative
		// float (one gap is absorbing, two overflow to -Inf). Sums stay
		// order-independent, so the oracles remain exact.
		forbid := pick(r, []float64{-math.MaxFloat64, -1e308})
		for _, x := range sp.alpha {
			m[[2]byte{x, gapB}] = forbid
			m[[2]byte{gapB, x}] = forbid
		}
	}
	return m
}

// allStrings returns every string over alpha of length 0..maxLen.
func allStrings(alpha []byte, maxLen int) [][]byte {
	out := [][]byte{{}}
	prev := [][]byte{{}}
	for l := 1; l <= maxLen; l++ {
		var next [][]byte
		for _, p := range prev {
			for _, c := range alpha {
				s := append(append([]byte{}, p...), c)
				next = append(next, s)
			}
		}
		out = append(out, next...)
		prev = next
	}
	return out
}

// alignSelfTest cross-checks the DP oracles against brute-force enumeration.
func alignSelfTest() error {
	r := rand.New(rand.NewPCG(12345, 678))
	alpha := []byte("ab")
	strs4 := allStrings(alpha, 4)
	strs3 := allStrings(alpha, 3)
	for mi := 0; mi < 20; mi++ {
		sp := matSpec{alpha: alpha, gapOpen: float64(-(mi % 4) * (1 + mi%3)), gapSign: -(mi % 2), sym: mi%3 == 0}
		if mi%5 == 4 {
			sp.gapOpen = 2
		}
		m := genAlignMatrix(r, sp)
		for _, a := range strs4 {
			for _, b := range strs4 {
				if g, w := gotohGlobal(a, b, m), bruteGlobal(a, b, m); g != w {
					return fmt.Errorf("gotohGlobal(%q,%q)=%v, brute force %v", a, b, g, w)
				}
			}
		}
		if (sp.gapSign < 0 && sp.gapOpen <= 0) || sp.gapOpen == 0 {
			for _, a := range strs3 {
				for _, b := range strs3 {
					if g, w := gotohLocal(a, b, m), bruteLocal(a, b, m); g != w {
						return fmt.Errorf("gotohLocal(%q,%q)=%v, brute force %v", a, b, g, w)
					}
				}
			}
		}
	}
	// The two-row formulation against the plain one on longer strings.
	for i := 0; i < 40; i++ {
		al := []byte("acgt")
		m := genAlignMatrix(r, matSpec{alpha: al, gapOpen: float64(-(i % 4)), gapSign: -(i % 2), sym: i%3 == 0})
		a, b := randSeq(r, al, r.IntN(40)), randSeq(r, al, r.IntN(40))
		if g, w := gotohGlobal(a, b, m), gotohGlobalFull(a, b, m); g != w {
			return fmt.Errorf("gotohGlobal(%q,%q)=%v, full-table formulation %v", a, b, g, w)
		}
	}
	// Edit distance against brute-force alignment enumeration with unit costs.
	unit := align.SubstitutionMatrix{}
	for _, x := range []byte{'a', 'b', 'c', gapB} {
		for _, y := range []byte{'a', 'b', 'c', gapB} {
			v := -1.0
			if x == y {
				v = 0
			}
			unit[[2]byte{x, y}] = v
		}
	}
	for _, a := range allStrings([]byte("abc"), 3) {
		for _, b := range allStrings([]byte("abc"), 3) {
			if d, w := editDistance(a, b), -bruteGlobal(a, b, unit); float64(d) != w {
				return fmt.Errorf("editDistance(%q,%q)=%d, brute force %v", a, b, d, w)
			}
		}
	}
	return nil
}
