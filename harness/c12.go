package main

// C12 — reverse complement, canonical k-mers.
// C13 — 2-bit packing.
// C14 — translation.

import (
	"bytes"
	"fmt"
	"math/rand/v2"
	"slices"

	"github.com/fluhus/biostuff/sequtil"
)

const dna10 = "aAcCgGtTnN"
const dna8 = "aAcCgGtT"

// refComplement: independent 10-entry complement map.
func refComplement(b byte) (byte, bool) {
	switch b {
	case 'a':
		return 't', true
	case 'A':
		return 'T', true
	case 'c':
		return 'g', true
	case 'C':
		return 'G', true
	case 'g':
		return 'c', true
	case 'G':
		return 'C', true
	case 't':
		return 'a', true
	case 'T':
		return 'A', true
	case 'n':
		return 'n', true
	case 'N':
		return 'N', true
	}
	return 0, false
}

func refRevComp(s []byte) []byte {
	out := make([]byte, len(s))
	for i, b := range s {
		c, ok := refComplement(b)
		if !ok {
			panic("refRevComp: bad base")
		}
		out[len(s)-1-i] = c
	}
	return out
}

func refCanonical(s []byte) []byte {
	rc := refRevComp(s)
	if bytes.Compare(rc, s) < 0 {
		return rc
	}
	return s
}

var dstPrefixes = [][]byte{nil, {}, []byte("x"), []byte("PREFIX!"), {0}, {0, 1, 0, 0xff}, []byte("\x00\x00\x00\x00")}

// withCap returns a copy of p with the given spare capacity.
func withCap(p []byte, spare int) []byte {
	if p == nil && spare == 0 {
		return nil
	}
	b := make([]byte, len(p)+spare)
	copy(b, p)
	// the spare capacity is dirty (a recycled buffer): stale bytes must not leak into what gets appended
	for i := len(p); i < len(b); i++ {
		b[i] = 0xff
	}
	return b[:len(p)]
}

// spareSet: spare capacities to offer for an append of need bytes — none, more
// than enough, and NOT enough (1 and need-1: the callee must grow a buffer whose
// tail is dirty).
func spareSet(need int, full bool) []int {
	if !full {
		return []int{0}
	}
	out := []int{0, need + 2}
	for _, v := range []int{1, need - 1, need} {
		if v >= 1 && !slices.Contains(out, v) {
			out = append(out, v)
		}
	}
	return out
}

// checkRevComp applies the ReverseComplement monitors to one sequence.
func checkRevComp(k *K, s []byte, full bool) {
	want := refRevComp(s)
	s0 := append([]byte{}, s...)
	prefixes := dstPrefixes[:1]
	if full {
		prefixes = dstPrefixes
	}
	for pi, p := range prefixes {
		for _, spare := range spareSet(len(s), full) {
			dst := withCap(p, spare)
			got := sequtil.ReverseComplement(dst, s)
			if !bytes.Equal(got[:min(len(p), len(got))], p) || !bytes.Equal(got[min(len(p), len(got)):], want) {
				k.Input("seq", s)
				k.Failf("revcomp", "ReverseComplement(dst=%q (spare cap %d), %q) = %q, want dst followed by %q", p, spare, s0, got, want)
				return
			}
			if !bytes.Equal(s, s0) {
				k.Input("seq", s0)
				k.Failf("revcomp-src-modified", "ReverseComplement modified src: %q -> %q", s0, s)
				return
			}
			if !bytes.Equal(dst[:len(p)], p) {
				k.Failf("revcomp-dst-modified", "ReverseComplement modified the existing content of dst (prefix %d)", pi)
				return
			}
		}
	}
	if back := sequtil.ReverseComplement(nil, want); !bytes.Equal(back, s0) {
		k.Input("seq", s0)
		k.Failf("revcomp-involution", "applying ReverseComplement twice to %q gives %q", s0, back)
	}
	if gs := sequtil.ReverseComplementString(string(s)); gs != string(want) {
		k.Input("seq", s0)
		k.Failf("revcomp-string", "ReverseComplementString(%q) = %q, want %q", s0, gs, want)
	}
	k.Count("revcomp_checked", 1)
}

// checkCanonical applies the CanonicalSubsequences monitors for one (seq, k).
func checkCanonical(k *K, s []byte, kk int) {
	var items [][]byte
	theSeq := sequtil.CanonicalSubsequences(s, kk)
	for kmer := range theSeq {
		items = append(items, append([]byte{}, kmer...))
		if len(items) > len(s)+2 {
			break
		}
	}
	// the same iterator value ranged over a second time gives the same items
	if len(s) < 200 {
		n2 := 0
		for kmer := range theSeq {
			if n2 >= len(items) || !bytes.Equal(kmer, items[n2]) {
				k.Input("seq", s)
				k.Input("k", kk)
				k.Failf("canonical-reuse", "second range over one CanonicalSubsequences(%.300q,%d) value: item %d = %.300q differs from the first pass", s, kk, n2, kmer)
				return
			}
			n2++
		}
		if n2 != len(items) {
			k.Input("seq", s)
			k.Input("k", kk)
			k.Failf("canonical-reuse", "second range over one CanonicalSubsequences(%.300q,%d) value yields %d items, the first pass %d", s, kk, n2, len(items))
			return
		}
	}
	// Runs of ONE iterator value that overlap in time: inside the callback of an outer run (every third item) a
	// complete inner run over the same value. The inner run must yield the same items, and the item the outer
	// callback was handed must not change while that callback is still running.
	if len(s) < 80 && (len(s)+kk)%3 == 0 {
		oi := 0
		for kmer := range theSeq {
			if oi >= len(items) {
				break
			}
			if oi%3 == 0 {
				n2 := 0
				for in := range theSeq {
					if n2 >= len(items) || !bytes.Equal(in, items[n2]) {
						k.Input("seq", s)
						k.Input("k", kk)
						k.Failf("canonical-nested", "CanonicalSubsequences(%.300q,%d): a run started inside the callback of another run over the same iterator value yields item %d = %.100q", s, kk, n2, in)
						return
					}
					n2++
				}
			}
			if !bytes.Equal(kmer, items[oi]) {
				k.Input("seq", s)
				k.Input("k", kk)
				k.Failf("canonical-nested", "CanonicalSubsequences(%.300q,%d): item %d changed from %.100q to %.100q during its own callback (while another run over the same iterator value ran inside it)", s, kk, oi, items[oi], kmer)
				return
			}
			oi++
		}
		k.Count("canonical_nested_runs", 1)
	}
	wantN := max(0, len(s)-kk+1)
	if len(items) != wantN {
		k.Input("seq", s)
		k.Input("k", kk)
		k.Failf("canonical-count", "CanonicalSubsequences(%.300q,%d) yields %d items, want %d", s, kk, len(items), wantN)
		return
	}
	for i, it := range items {
		if w := refCanonical(s[i : i+kk]); !bytes.Equal(it, w) {
			k.Input("seq", s)
			k.Input("k", kk)
			k.Failf("canonical-item", "CanonicalSubsequences(%.300q,%d) item %d = %.300q, want %.300q", s, kk, i, it, w)
			return
		}
	}
	// The reverse complement yields the same items in opposite order.
	rc := refRevComp(s)
	j := len(items) - 1
	n := 0
	for kmer := range sequtil.CanonicalSubsequences(rc, kk) {
		if j < 0 || !bytes.Equal(kmer, items[j]) {
			k.Input("seq", s)
			k.Input("k", kk)
			k.Failf("canonical-strand", "CanonicalSubsequences of the reverse complement of %q (k=%d): item %d = %.300q, want %.300q", s, kk, n, kmer, func() []byte {
				if j >= 0 {
					return items[j]
				}
				return nil
			}())
			return
		}
		j--
		n++
	}
	if n != len(items) {
		k.Input("seq", s)
		k.Failf("canonical-strand", "reverse complement yields %d items, forward %d", n, len(items))
	}
	k.Count("canonical_checked", 1)
	k.Count("canonical_items", int64(len(items)))
}

func init() {
	register(&Property{
		ID:    "C12",
		Level: "exploration",
		Rule: "every sequence over aAcCgGtTnN up to a length bound (all dst prefixes, with and without spare capacity), random sequences up to length 10000, all k from 1 to len+2; every byte value 0..255 alone and embedded at each position of a valid sequence for the accept/panic boundary; " +
			"k = 2^e-1..2^e+1 up to 2^20/2^24 with a few k-mers per sequence; dst with dirty spare capacity 0/1/need-1/need/need+2; " +
			"readers unit: the calls run while reader goroutines read the protected memory, -race build reports any write to it (also one undone before returning); " +
			"results compared with an independent complement map + reversal; non-trivial = sequence of length >= 2; distinct by construction in the exhaustive scope, by hash otherwise",
		Assumptions: []string{"items of CanonicalSubsequences are copied at yield time (they may alias internal buffers)"},
		MinEvents:   map[string]int64{"revcomp_checked": 100000, "canonical_checked": 100000, "panics_observed": 246, "bytes_accepted": 10},
		Units: []Unit{
			{Name: "exhaustive", QShards: 4, TShards: 10, Run: c12Exhaustive},
			{Name: "random", TShards: 4, Run: c12Random},
			{Name: "bytes", Run: c12Bytes},
			{Name: "afteruse", Run: afterUse(c12Bytes)},
			{Name: "srcviews", TShards: 2, Run: srcViewUnit(viewCallsC12)},
			{Name: "bigdst", Run: bigDstUnit(bigDstC12)},
			{Name: "casemasks", Run: caseMaskUnit("ACGTN", 48, 140, func(k *K, v []byte) {
				checkRevComp(k, v, false)
				if len(v) >= 3 {
					checkCanonical(k, v, 1+len(v)/3)
				}
			})},
			{Name: "longcontext", QShards: 8, TShards: 12, Run: func(c *Ctx) {
				longContextPanics(c, 0, "ACGTNacgtn", []byte{'U', 'R', '@', 0, 0xff, 0x80, 'B', 'M'}, map[string]func([]byte){
					"ReverseComplement":                           func(s []byte) { sequtil.ReverseComplement(nil, s) },
					"ReverseComplement (dst with spare capacity)": func(s []byte) { sequtil.ReverseComplement(make([]byte, 3, 8+len(s)), s) },
					"ReverseComplementString":                     func(s []byte) { sequtil.ReverseComplementString(string(s)) },
					"CanonicalSubsequences": func(s []byte) {
						for range sequtil.CanonicalSubsequences(s, 5) {
						}
					}})
				periodicPanics(c, "ACGTNacgtn", []byte{'U', 'R', 0x80, 0}, map[string]func([]byte){
					"ReverseComplement":       func(s []byte) { sequtil.ReverseComplement(nil, s) },
					"ReverseComplementString": func(s []byte) { sequtil.ReverseComplementString(string(s)) }})
			}},
			{Name: "motifs", TShards: 4, Run: c12Motifs},
			{Name: "gigantic", Run: c12Gigantic},
			{Name: "hugek", QShards: 2, TShards: 8, Run: c12HugeK},
			{Name: "readers", Race: true, QShards: 2, TShards: 4, Run: c12Readers},
			{Name: "parallel", Race: true, Run: sequtilParallel("revcomp")},
			firstCallUnit(firstSequtilRC),
			firstParallelUnit(parSequtilRC),
			reuseUnit(reuseRC),
			roundLensUnit(reuseRC[:2]),
		},
	})
}

// enumSeqs calls fn for every sequence over alpha of exactly length n with the
// given first byte index (to split the space into batches).
func enumSeqs(alpha string, n int, first int, fn func(s []byte)) {
	s := make([]byte, n)
	idx := make([]int, n)
	if n == 0 {
		fn(s)
		return
	}
	idx[0] = first
	for {
		for i := range s {
			s[i] = alpha[idx[i]]
		}
		fn(s)
		p := n - 1
		for p >= 1 {
			idx[p]++
			if idx[p] < len(alpha) {
				break
			}
			idx[p] = 0
			p--
		}
		if p < 1 {
			return
		}
	}
}

func pow(b, e int) int64 {
	r := int64(1)
	for ; e > 0; e-- {
		r *= int64(b)
	}
	return r
}

func c12Exhaustive(c *Ctx) {
	maxLen := c.N(6, 7)
	idx := int64(0)
	c.Case(idx, func(k *K) {
		checkRevComp(k, []byte{}, true)
		for kk := 1; kk <= 2; kk++ {
			checkCanonical(k, []byte{}, kk)
		}
		k.DistinctBC(1)
	})
	idx++
	for n := 1; n <= maxLen; n++ {
		for first := 0; first < len(dna10); first++ {
			c.Case(idx, func(k *K) {
				cnt := int64(0)
				enumSeqs(dna10, n, first, func(s []byte) {
					if k.Failed() {
						return
					}
					checkRevComp(k, s, n <= 4)
					for kk := 1; kk <= n+2; kk++ {
						checkCanonical(k, s, kk)
					}
					cnt++
				})
				k.Evals(cnt - 1)
				k.DistinctBC(cnt)
				k.Input("batch", fmt.Sprintf("all %d sequences of length %d starting with %q", cnt, n, dna10[first]))
			})
			idx++
		}
	}
	c.Exhaustive(fmt.Sprintf("exhaustive: all sequences over aAcCgGtTnN of length 0..%d, all k in 1..len+2", maxLen))
}

func c12Random(c *Ctx) {
	n := c.N(2500, 120000)
	for i := 0; i < n; i++ {
		c.Case(int64(i), func(k *K) {
			r := k.Rand()
			l := r.IntN(100)
			if r.IntN(10) == 0 {
				l = r.IntN(10001)
			}
			alpha := dna10
			if r.IntN(3) == 0 {
				alpha = "ACGT"
			}
			s := seqOrRuns(r, []byte(alpha), l)
			if r.IntN(4) == 0 && l > 4 {
				// palindromic region: canonical ties
				h := s[:l/2]
				s = append(append([]byte{}, h...), refRevComp(h)...)
			}
			k.Input("seq", s)
			// src and dst as neighbouring windows of one buffer
			{
				ar := newArena(r, s, []byte("dst-prefix"), randSeq(r, []byte(dna10), 5))
				got := sequtil.ReverseComplement(ar.parts[1][:len(ar.parts[1]):len(ar.parts[1])], ar.parts[0])
				if w := append([]byte("dst-prefix"), refRevComp(s)...); !bytes.Equal(got, w) {
					k.Failf("revcomp", "ReverseComplement with src and dst carved from one buffer = %q, want %q", got, w)
					return
				}
				for range sequtil.CanonicalSubsequences(ar.parts[0], 3) {
				}
				sequtil.ReverseComplement(nil, ar.parts[0])
				if arenaFail(k, ar, "ReverseComplement/CanonicalSubsequences") {
					return
				}
			}
			// a result held across later calls must stay what it was
			heldRC := sequtil.ReverseComplement(nil, s)
			heldStr := sequtil.ReverseComplementString(string(s))
			checkRevComp(k, s, true)
			other := randSeq(r, []byte(dna10), len(s))
			sequtil.ReverseComplement(nil, other)
			sequtil.ReverseComplementString(string(other))
			if w := refRevComp(s); !bytes.Equal(heldRC, w) || heldStr != string(w) {
				k.Failf("result-not-stable", "a ReverseComplement result changed after later calls: %q / %q, want %q", heldRC, heldStr, w)
			}
			// results are the caller's to overwrite
			for j := range heldRC {
				heldRC[j] = '#'
			}
			if g, w := sequtil.ReverseComplement(nil, s), refRevComp(s); !bytes.Equal(g, w) {
				k.Failf("result-after-scribble", "after the caller overwrote an earlier result, ReverseComplement(%q) = %q, want %q", s, g, w)
			}
			k.Count("held_results_verified", 1)
			ks := []int{1, 2, 3, 1 + r.IntN(32), len(s), len(s) + 1, len(s) + 2, max(1, len(s)-1)}
			// k around machine-word packing boundaries (2 bits per base: 4, 8, 16, 32 bases; 64)
			for _, wk := range []int{4, 5, 8, 9, 15, 16, 17, 31, 32, 33, 63, 64, 65} {
				if wk <= len(s)+1 && r.IntN(3) == 0 {
					ks = append(ks, wk)
				}
			}
			for _, kk := range ks {
				if kk < 1 {
					continue
				}
				checkCanonical(k, s, kk)
			}
			if len(s) >= 2 {
				k.Nontrivial(s)
			}
		})
	}
}

func c12Bytes(c *Ctx) {
	valid := []byte("ACgtNnacGT")
	for b := 0; b < 256; b++ {
		c.Case(int64(b), func(k *K) {
			_, ok := refComplement(byte(b))
			k.Input("byte", b)
			for pos := -4; pos <= len(valid); pos++ {
				var s []byte
				switch {
				case pos == -4: // runs of the byte, alone and around valid bases
					s = bytes.Repeat([]byte{byte(b)}, 4)
				case pos == -3:
					s = append(bytes.Repeat([]byte{byte(b)}, 2), valid...)
				case pos == -2:
					s = append(append([]byte{}, valid...), bytes.Repeat([]byte{byte(b)}, 8)...)
				case pos < 0:
					s = []byte{byte(b)}
				default:
					s = append(append(append([]byte{}, valid[:pos]...), byte(b)), valid[pos:]...)
				}
				p1 := expectPanic(func() { sequtil.ReverseComplement(nil, s) })
				p2 := expectPanic(func() { sequtil.ReverseComplementString(string(s)) })
				p3 := expectPanic(func() {
					for range sequtil.CanonicalSubsequences(s, 2) {
					}
				})
				if ok && (p1 || p2 || p3) {
					k.Failf("unexpected-panic", "byte %q is in aAcCgGtTnN but %q caused a panic (ReverseComplement %v, String %v, Canonical %v)", b, s, p1, p2, p3)
					return
				}
				if !ok && !(p1 && p2) {
					k.Failf("missing-panic", "byte %d (%q) is not in aAcCgGtTnN but %q did not cause a panic (ReverseComplement %v, String %v)", b, b, s, p1, p2)
					return
				}
				k.Evals(1)
				if !ok {
					k.Count("panics_observed", 1)
				}
			}
			if ok {
				k.Count("bytes_accepted", 1)
			}
			k.DistinctBC(1)
		})
	}
	c.Exhaustive("bytes: all 256 byte values alone and at each position of a valid sequence")
	// All 65536 byte pairs (adjacent bytes may form one multi-byte UTF-8 rune,
	// which string-based code sees as a single value), in 256 batches.
	for hi := 0; hi < 256; hi++ {
		c.Case(int64(256+hi), func(k *K) {
			_, ok1 := refComplement(byte(hi))
			for lo := 0; lo < 256; lo++ {
				_, ok2 := refComplement(byte(lo))
				s := []byte{'A', byte(hi), byte(lo), 'c'}
				p1 := expectPanic(func() { sequtil.ReverseComplement(nil, s) })
				p2 := expectPanic(func() { sequtil.ReverseComplementString(string(s)) })
				if ok1 && ok2 {
					if p1 || p2 {
						k.Failf("unexpected-panic", "%q is over aAcCgGtTnN but caused a panic (ReverseComplement %v, String %v)", s, p1, p2)
						return
					}
					if g, w := sequtil.ReverseComplementString(string(s)), string(refRevComp(s)); g != w {
						k.Failf("revcomp-string", "ReverseComplementString(%q) = %q, want %q", s, g, w)
						return
					}
				} else if !(p1 && p2) {
					k.Input("bytes", fmt.Sprintf("%#x %#x", hi, lo))
					k.Failf("missing-panic", "%q contains a byte outside aAcCgGtTnN but did not cause a panic (ReverseComplement %v, ReverseComplementString %v)", s, p1, p2)
					return
				} else {
					k.Count("panics_observed", 1)
				}
			}
			k.Evals(255)
			k.DistinctBC(256)
		})
	}
	c.Exhaustive("bytes: all 65536 adjacent byte pairs inside a valid sequence")
	// Multi-byte UTF-8 encodings of random code points embedded in valid sequences.
	c.Case(512, func(k *K) {
		r := k.Rand()
		for i := 0; i < 20000; i++ {
			cp := rune(0x80 + r.IntN(0x10FFFF-0x80))
			if r.IntN(2) == 0 {
				cp = rune(0x80 + r.IntN(0x800)) // two-byte encodings
			}
			enc := []byte(string(cp))
			s := append(append([]byte("acGT"), enc...), "Nn"...)
			p1 := expectPanic(func() { sequtil.ReverseComplement(nil, s) })
			p2 := expectPanic(func() { sequtil.ReverseComplementString(string(s)) })
			if !(p1 && p2) {
				k.Input("code_point", fmt.Sprintf("U+%04X", cp))
				k.Failf("missing-panic", "%q contains the UTF-8 encoding of U+%04X but did not cause a panic (ReverseComplement %v, ReverseComplementString %v)", s, cp, p1, p2)
				return
			}
			k.Evals(1)
		}
		k.Count("utf8_sequences_rejected", 20000)
		k.Nontrivial([]byte("utf8"))
	})
}

var _ *rand.Rand

// c12HugeK: k on and next to powers of two far above any block or buffer size
// an implementation might process the sequence in, with only a few k-mers per
// sequence (len(seq) just above k) so that the cost stays linear.
func c12HugeK(c *Ctx) {
	exps := []int{8, 10, 12, 14, 16, 17, 20}
	if c.Thorough {
		exps = []int{8, 9, 10, 11, 12, 13, 14, 15, 16, 17, 18, 19, 20, 21, 22, 23, 24}
	}
	idx := int64(0)
	for _, e := range exps {
		for d := -1; d <= 1; d++ {
			for _, extra := range []int{0, 1, 40} {
				c.Case(idx, func(k *K) {
					r := k.Rand()
					kk := 1<<e + d
					if e >= 22 && extra > 1 {
						extra = 3
					}
					s := randSeq(r, []byte(pick(r, []string{dna10, "ACGT"})), kk+extra)
					if r.IntN(3) == 0 { // reverse-palindromic: every canonical comparison is a tie or decided late
						h := s[:len(s)/2]
						s = append(append([]byte{}, h...), refRevComp(h)...)
						s = append(s, randSeq(r, []byte("ACGT"), kk+extra-len(s))...)
					}
					k.Input("k", kk)
					k.Input("seq_len", len(s))
					checkCanonical(k, s, kk)
					k.Count("huge_k_cases", 1)
					k.Nontrivial([]byte(fmt.Sprint(kk, extra)), s[:32])
				})
				idx++
			}
		}
	}
}

// c12Motifs: CanonicalSubsequences (and the strand symmetry of its items) on
// sequences built around the motifs of genMotif, with k spanning the motif, one
// less and one more: the strand choice is decided late, or is a tie.
func c12Motifs(c *Ctx) {
	n := c.N(1500, 40000)
	for i := 0; i < n; i++ {
		c.Case(int64(i), func(k *K) {
			r := k.Rand()
			motif, kk := genMotif(r, i, "ACGTN")
			left, right := randSeq(r, []byte("ACGTNacgtn"), r.IntN(40)), randSeq(r, []byte("ACGTNacgtn"), r.IntN(40))
			seq := append(append(append([]byte{}, left...), motif...), right...)
			if r.IntN(2) == 0 {
				seq = refRevComp(seq)
			}
			k.Input("motif", motif)
			for _, k2 := range []int{kk, kk - 1, kk + 1} {
				if k2 < 1 {
					continue
				}
				checkCanonical(k, seq, k2)
				if k.Failed() {
					return
				}
				k.Count("canonical_checked", int64(max(0, len(seq)-k2+1)))
			}
			k.Count("motif_cases", 1)
			k.Evals(2)
			k.Nontrivial(seq, []byte(fmt.Sprint(kk)))
		})
	}
}

// c12Gigantic: ONE sequence with more than 2^25 k-mers (a chromosome arm), so
// that an implementation which works through a long sequence in chunks runs
// through at least one full chunk and a partial last one. All items are
// counted; the items next to every multiple of 2^20 and the last 3000 are
// compared with the reference, as is one item in 1024 elsewhere.
func c12Gigantic(c *Ctx) {
	sizes := []int{1<<25 + 1000}
	if c.Thorough {
		sizes = append(sizes, 1<<26+77)
	}
	for i, n := range sizes {
		c.Case(int64(i), func(k *K) {
			r := k.Rand()
			s := make([]byte, n)
			for j := 0; j < n; j += 16 {
				v := r.Uint64()
				for b := 0; b < 16 && j+b < n; b++ {
					s[j+b] = "ACGTACGTacgtNnAC"[v>>(4*b)&15]
				}
			}
			kk := pick(r, []int{5, 21, 32})
			k.Input("bases", n)
			k.Input("k", kk)
			want := n - kk + 1
			idx := 0
			bad := ""
			for kmer := range sequtil.CanonicalSubsequences(s, kk) {
				if idx >= want {
					idx++
					break
				}
				if near := idx & (1<<20 - 1); near < 40 || near > 1<<20-40 || idx >= want-3000 || idx&1023 == 7 {
					if w := refCanonical(s[idx : idx+kk]); !bytes.Equal(kmer, w) {
						bad = fmt.Sprintf("item %d = %q, want %q", idx, kmer, w)
						break
					}
				}
				idx++
			}
			if bad != "" {
				k.Failf("canonical-item", "CanonicalSubsequences on %d bases, k=%d: %s", n, kk, bad)
				return
			}
			if idx != want {
				k.Failf("canonical-count", "CanonicalSubsequences on %d bases, k=%d yields %d items, want %d", n, kk, idx, want)
				return
			}
			k.Count("gigantic_sequences", 1)
			k.Count("canonical_checked", int64(want/1024))
			k.Nontrivial([]byte(fmt.Sprint("gigantic", n, kk)))
		})
	}
}

// afterUse runs a unit's checks in a process that has already USED every
// exported function of the package — on small and on large inputs, on RNA-like
// and lower-case text, with calls that panic in between. Package-level tables
// that one function fills, extends or aliases lazily are shared by the others:
// what a function accepts must not depend on which functions ran before it.
func afterUse(run func(c *Ctx)) func(c *Ctx) {
	return func(c *Ctx) {
		useAllOfSequtil()
		run(c)
	}
}

func useAllOfSequtil() {
	big := bytes.Repeat([]byte("ACGTTGCAaacgtNnAGT"), 1<<16)
	dna := bytes.Repeat([]byte("ACGTTGCAaacgtAGT"), 3<<15)
	for _, s := range [][]byte{[]byte("ACGTNacgtn"), big} {
		sequtil.ReverseComplement(nil, s)
		sequtil.ReverseComplementString(string(s[:10]))
		for range sequtil.CanonicalSubsequences(s[:min(len(s), 5000)], 3) {
		}
	}
	for _, s := range [][]byte{[]byte("ACGTacgtAC"), dna} {
		sequtil.DNAFrom2Bit(nil, sequtil.DNATo2Bit(nil, s))
		sequtil.Translate(nil, s[:len(s)/3*3])
		sequtil.TranslateReadingFrames(s)
	}
	for b := 0; b < 256; b++ {
		sequtil.Ntoi(byte(b))
		catch(func() { sequtil.AminoName(byte(b)) })
		s := []byte{byte(b), 'A', byte(b), 'c', byte(b), byte(b)}
		catch(func() { sequtil.Translate(nil, s) })
		catch(func() { sequtil.TranslateReadingFrames(s) })
		catch(func() { sequtil.ReverseComplement(nil, s) })
		catch(func() { sequtil.ReverseComplementString(string(s)) })
		catch(func() { sequtil.DNATo2Bit(nil, s) })
		catch(func() {
			for range sequtil.CanonicalSubsequences(s, 2) {
			}
		})
	}
	for i := 0; i < 4; i++ {
		sequtil.Iton(i)
	}
}
