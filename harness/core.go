package main

// Core of the monitoring harness: properties, units, per-case context,
// worker reports.

import (
	"encoding/base64"
	"encoding/binary"
	"fmt"
	"hash/fnv"
	"math/rand/v2"
	"os"
	"runtime/debug"
	"sort"
	"strings"
	"sync/atomic"
	"unicode/utf8"
)

// A Unit is one monitor (sub-check) of a property. It runs in its own worker
// process, possibly split into shards by case index.
type Unit struct {
	Name     string
	QShards  int  // shards in quick tier (0 = 1)
	TShards  int  // shards in thorough tier (0 = 1)
	Race     bool // needs the -race build
	Run      func(c *Ctx)
	Thorough bool // runs in the thorough tier only
	StallSec int  // watchdog: a case of this unit that makes no progress for this long is a stall (0 = the tier's default, minutes)
}

// A Property bundles the units that decide one property.
type Property struct {
	ID          string
	Level       string // evidence level
	Rule        string
	Units       []Unit
	MinEvents   map[string]int64 // counters that must reach a minimum, else inconclusive
	Assumptions []string
	SelfTest    func() error // oracle self-test, run at worker start
}

var registry = map[string]*Property{}

func register(p *Property) {
	seen := map[string]bool{}
	for _, u := range p.Units {
		if seen[u.Name] {
			panic("property " + p.ID + " registers two units named " + u.Name + " (the worker finds units by name)")
		}
		seen[u.Name] = true
	}
	registry[p.ID] = p
}

// Violation describes one rejected execution.
type Violation struct {
	Property string            `json:"property"`
	Unit     string            `json:"unit"`
	Index    int64             `json:"index"`
	Kind     string            `json:"kind"`
	Message  string            `json:"message"`
	Inputs   map[string]string `json:"inputs,omitempty"`
	Seed     int64             `json:"seed"`
	Tier     string            `json:"tier"`
}

// Sample is one explored case written out for the evidence file.
type Sample struct {
	Unit   string            `json:"unit"`
	Index  int64             `json:"index"`
	Inputs map[string]string `json:"inputs"`
}

// Known records matches of an open known finding.
type Known struct {
	Count   int64             `json:"count"`
	Witness map[string]string `json:"witness,omitempty"`
	What    string            `json:"what"`
}

// Report is what a worker hands back to the driver.
type Report struct {
	Property     string            `json:"property"`
	Unit         string            `json:"unit"`
	Shard        int               `json:"shard"`
	NShards      int               `json:"nshards"`
	Evaluations  int64             `json:"evaluations"`
	DistinctBC   int64             `json:"distinct_by_construction"`
	Counters     map[string]int64  `json:"counters"`
	Samples      []Sample          `json:"samples"`
	Violations   []Violation       `json:"violations"`
	NViolations  int64             `json:"n_violations"`
	Known        map[string]*Known `json:"known,omitempty"`
	Exhaustive   map[string]bool   `json:"exhaustive,omitempty"`
	SelfTestFail string            `json:"selftest_fail,omitempty"`
	Info         map[string]any    `json:"info,omitempty"`
	Done         bool              `json:"done"`
}

const maxViolationsPerWorker = 8
const maxSamplesPerWorker = 2

// Ctx is the context of one worker (one unit, one shard).
type Ctx struct {
	Prop     string
	Unit     string
	Thorough bool
	Seed     int64
	Shard    int
	NShards  int
	Only     int64 // run only this case index (-1: all)
	Trace    *os.File
	Rep      *Report
	digests  map[uint64]struct{}
	curCase  atomic.Int64 // index of the case being run (for the watchdog)
}

func (c *Ctx) tier() string {
	if c.Thorough {
		return "thorough"
	}
	return "quick"
}

// N picks a budget by tier.
func (c *Ctx) N(quick, thorough int) int {
	if c.Thorough {
		return thorough
	}
	return quick
}

// Count adds to a named event counter.
func (c *Ctx) Count(name string, n int64) { c.Rep.Counters[name] += n }

// Exhaustive marks a finite sub-space as completely enumerated by this unit.
func (c *Ctx) Exhaustive(name string) {
	if c.Only < 0 {
		c.Rep.Exhaustive[name] = true
	}
}

// Info records free-form information for the evidence file.
func (c *Ctx) Info(name string, v any) { c.Rep.Info[name] = v }

// K is the context of one case.
type K struct {
	c      *Ctx
	Idx    int64
	rng    *rand.Rand
	inputs []kv
	failed bool
	stash  map[string]any // per-case scratch for monitors that span several calls
}

type kv struct {
	k string
	v any
}

// mine tells whether case idx belongs to this worker.
func (c *Ctx) mine(idx int64) bool {
	if c.Only >= 0 {
		return idx == c.Only
	}
	return c.NShards <= 1 || int(idx%int64(c.NShards)) == c.Shard
}

// Case runs fn as case number idx if the case belongs to this shard. A panic
// escaping fn is a violation (kind "panic").
func (c *Ctx) Case(idx int64, fn func(k *K)) {
	if !c.mine(idx) {
		return
	}
	if c.Trace != nil {
		var buf [32]byte
		s := fmt.Appendf(buf[:0], "%020d\n", idx)
		c.Trace.WriteAt(s, 0)
	}
	k := &K{c: c, Idx: idx}
	c.curCase.Store(idx)
	c.Rep.Evaluations++
	func() {
		defer func() {
			if r := recover(); r != nil {
				k.Failf("panic", "unexpected panic: %v\n%s", r, trimStack(debug.Stack()))
			}
		}()
		fn(k)
	}()
}

func trimStack(b []byte) string {
	s := string(b)
	if len(s) > 3000 {
		s = s[:3000] + "…"
	}
	return s
}

// Rand returns the case's private generator, a pure function of
// (seed, property, unit, index).
func (k *K) Rand() *rand.Rand {
	if k.rng == nil {
		h := fnv.New64a()
		h.Write([]byte(k.c.Prop))
		h.Write([]byte{0})
		h.Write([]byte(k.c.Unit))
		var b [16]byte
		binary.LittleEndian.PutUint64(b[:8], uint64(k.c.Seed))
		binary.LittleEndian.PutUint64(b[8:], uint64(k.Idx))
		h.Write(b[:])
		k.rng = rand.New(rand.NewPCG(h.Sum64(), uint64(k.Idx)*0x9E3779B97F4A7C15+uint64(k.c.Seed)))
	}
	return k.rng
}

// Input records an input of the case, formatted only if needed (violation or
// sample). A later value under the same name replaces the earlier one.
func (k *K) Input(name string, v any) {
	for i := range k.inputs {
		if k.inputs[i].k == name {
			k.inputs[i].v = v
			return
		}
	}
	k.inputs = append(k.inputs, kv{name, v})
}

// Evals adds n further evaluations done inside this (batch) case.
func (k *K) Evals(n int64) { k.c.Rep.Evaluations += n }

// DistinctBC adds n cases that are distinct and non-trivial by construction
// (exhaustive enumerations).
func (k *K) DistinctBC(n int64) { k.c.Rep.DistinctBC += n }

// Count adds to a named event counter.
func (k *K) Count(name string, n int64) { k.c.Rep.Counters[name] += n }

// Nontrivial marks the case as non-trivial by the property's rule; parts form
// the digest that decides distinctness.
func (k *K) Nontrivial(parts ...[]byte) {
	h := fnv.New64a()
	h.Write([]byte(k.c.Unit))
	for _, p := range parts {
		var l [4]byte
		binary.LittleEndian.PutUint32(l[:], uint32(len(p)))
		h.Write(l[:])
		h.Write(p)
	}
	d := h.Sum64()
	if _, ok := k.c.digests[d]; !ok {
		k.c.digests[d] = struct{}{}
		if len(k.c.Rep.Samples) < maxSamplesPerWorker && len(k.inputs) > 0 {
			k.c.Rep.Samples = append(k.c.Rep.Samples, Sample{k.c.Unit, k.Idx, k.fmtInputs(400)})
		}
	}
}

// Failed tells whether the case already has a violation.
func (k *K) Failed() bool { return k.failed }

// Failf records a violation for this case.
func (k *K) Failf(kind, format string, args ...any) {
	k.failed = true
	k.c.Rep.NViolations++
	if len(k.c.Rep.Violations) >= maxViolationsPerWorker {
		return
	}
	msg := fmt.Sprintf(format, args...)
	if len(msg) > 6000 {
		msg = msg[:6000] + "…"
	}
	k.c.Rep.Violations = append(k.c.Rep.Violations, Violation{
		Property: k.c.Prop, Unit: k.c.Unit, Index: k.Idx, Kind: kind, Message: msg,
		Inputs: k.fmtInputs(1 << 16), Seed: k.c.Seed, Tier: k.c.tier(),
	})
}

// KnownFinding records a match of an open known finding.
func (k *K) KnownFinding(id, what string) {
	kn := k.c.Rep.Known[id]
	if kn == nil {
		kn = &Known{What: what, Witness: k.fmtInputs(2000)}
		k.c.Rep.Known[id] = kn
	}
	kn.Count++
}

func (k *K) fmtInputs(limit int) map[string]string {
	m := map[string]string{}
	for _, in := range k.inputs {
		m[in.k] = fmtValue(in.v, limit)
	}
	return m
}

// fmtValue renders a value readably; byte strings that are not plain text are
// rendered as Go-quoted strings, long ones are abbreviated with their base64
// only up to the limit.
func fmtValue(v any, limit int) string {
	var s string
	switch x := v.(type) {
	case []byte:
		s = quoteBytes(x)
	case string:
		s = quoteBytes([]byte(x))
	case func() string:
		s = x()
	case fmt.Stringer:
		s = x.String()
	default:
		s = fmt.Sprintf("%+v", v)
	}
	if len(s) > limit {
		s = fmt.Sprintf("%s…(%d bytes total)", s[:limit], len(s))
	}
	return s
}

func quoteBytes(b []byte) string {
	if utf8.Valid(b) {
		return fmt.Sprintf("%q", b)
	}
	return fmt.Sprintf("%q (base64 %s)", b, base64.StdEncoding.EncodeToString(b))
}

// expectPanic runs fn and reports whether it panicked.
func expectPanic(fn func()) (panicked bool) {
	defer func() {
		if r := recover(); r != nil {
			panicked = true
		}
	}()
	fn()
	return false
}

// catch runs fn and returns the recovered panic value, if any.
func catch(fn func()) (p any) {
	defer func() {
		if r := recover(); r != nil {
			p = r
		}
	}()
	fn()
	return nil
}

func sortedKeys[V any](m map[string]V) []string {
	ks := make([]string, 0, len(m))
	for k := range m {
		ks = append(ks, k)
	}
	sort.Strings(ks)
	return ks
}

func b64(b []byte) string { return base64.StdEncoding.EncodeToString(b) }

func joinInts(a []int) string {
	var sb strings.Builder
	for i, x := range a {
		if i > 0 {
			sb.WriteByte(',')
		}
		fmt.Fprint(&sb, x)
	}
	return sb.String()
}
