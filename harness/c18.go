package main

// C18 — every iterator can be stopped early.   C19 — tree traversals.

import (
	"bytes"
	"encoding/json"
	"fmt"
	"io"
	"iter"
	"math/rand/v2"
	"os"
	"path/filepath"
	"runtime/debug"
	"slices"
	"sort"
	"strings"
	"syscall"
	"time"

	"github.com/fluhus/biostuff/formats/bed"
	"github.com/fluhus/biostuff/formats/fasta"
	"github.com/fluhus/biostuff/formats/fastq"
	"github.com/fluhus/biostuff/formats/newick"
	"github.com/fluhus/biostuff/formats/sam"
	"github.com/fluhus/biostuff/sequtil"
	"github.com/fluhus/biostuff/trie"
)

// rawIter invokes a real iterator function directly with the given callback,
// so that the monitor sees every callback, including any made after it
// returned false.
type rawIter func(cb func(item) bool)

func raw2[T any](s iter.Seq2[T, error], key func(T) string) rawIter {
	return func(cb func(item) bool) {
		s(func(v T, err error) bool {
			if err != nil {
				return cb(item{Err: true})
			}
			return cb(item{Key: key(v)})
		})
	}
}

func raw1[T any](s iter.Seq[T], key func(T) string) rawIter {
	return func(cb func(item) bool) {
		s(func(v T) bool { return cb(item{Key: key(v)}) })
	}
}

type stopOpts struct {
	unordered bool // items of a stopped run must be distinct members of the full result
	errorLast bool // an error item must be the last item of the full run
	limit     int
	offsets   []int // long runs: also stop next to (multiples of 2^16 [and 2^12]) - offset, for each of these offsets
	fine      bool  // ... multiples of 2^12 as well
	edge      int   // long runs: how many positions at the start and at the end are all tried (default 300)
	only      []int // if set: exactly these stop positions (negative ones count from the end)
}

// stopMonitor runs the iterator uninterrupted, then stopped at every position.
func stopMonitor(k *K, name string, mk func() rawIter, o stopOpts) {
	limit := o.limit
	if limit == 0 {
		limit = 100000
	}
	var full []item
	over := false
	if p := catch(func() {
		mk()(func(it item) bool {
			if len(full) >= limit {
				over = true
				return false
			}
			full = append(full, it)
			return true
		})
	}); p != nil {
		k.Failf("panic-uninterrupted", "%s: panic during an uninterrupted run: %v", name, p)
		return
	}
	if over {
		k.Failf("unbounded", "%s: more than %d items", name, limit)
		return
	}
	k.Count("full_runs", 1)
	k.Count("items_"+name, int64(len(full)))
	if o.errorLast {
		for i, it := range full {
			if it.Err && i != len(full)-1 {
				k.Failf("error-not-last", "%s: error item at position %d of %d is followed by more items: %s", name, i, len(full), traceString(full))
				return
			}
		}
	}
	for _, it := range full {
		if it.Err {
			k.Count("runs_with_error_item", 1)
			break
		}
	}
	fullSet := map[string]int{}
	for _, it := range full {
		fullSet[it.String()]++
	}
	// every stop position; for very long runs: the first and last 300 and the positions next to every power of two
	stops := make([]int, 0, len(full))
	edge := o.edge
	if edge == 0 {
		edge = 300
	}
	for s := 0; s < len(full); s++ {
		if len(full) <= 2000 || s < edge || s >= len(full)-edge {
			stops = append(stops, s)
			continue
		}
		for _, d := range []int{s - 1, s, s + 1, s + 2} {
			if d > 0 && d&(d-1) == 0 {
				stops = append(stops, s)
				break
			}
		}
	}
	if o.only != nil {
		stops = stops[:0]
		for _, s := range o.only {
			if s < 0 {
				s += len(full)
			}
			if s >= 0 && s < len(full) {
				stops = append(stops, s)
			}
		}
	}
	if len(full) > 2000 && o.only == nil {
		chosen := map[int]bool{}
		for _, s := range stops {
			chosen[s] = true
		}
		exps := []int{16}
		if o.fine {
			exps = []int{12, 16}
		}
		for _, e := range exps {
			for m := 1 << e; m < len(full)+(1<<e); m += 1 << e {
				for _, off := range append([]int{0}, o.offsets...) {
					for d := -2; d <= 2; d++ {
						if s := m - off + d; s >= 0 && s < len(full) && !chosen[s] {
							chosen[s] = true
							stops = append(stops, s)
						}
					}
				}
			}
		}
	}
	for _, s := range stops {
		var seen []item
		stopped := false
		after := 0
		p := catch(func() {
			mk()(func(it item) bool {
				if stopped {
					after++
					return false
				}
				seen = append(seen, it)
				if len(seen) == s+1 {
					stopped = true
					return false
				}
				return true
			})
		})
		k.Count("stop_positions", 1)
		k.Evals(1)
		if full[s].Err {
			k.Count("stops_on_error_item", 1)
		}
		if p != nil {
			k.Input("stop_at", s)
			k.Failf("panic-after-stop", "%s: panic when the consumer stops at item %d of %d: %v", name, s, len(full), p)
			return
		}
		if after > 0 {
			k.Input("stop_at", s)
			k.Failf("callback-after-stop", "%s: %d further callback(s) after the consumer returned false at item %d of %d", name, after, s, len(full))
			return
		}
		if len(seen) != s+1 {
			k.Input("stop_at", s)
			k.Failf("stopped-run-short", "%s: stopped run delivered %d items before position %d", name, len(seen), s)
			return
		}
		if o.unordered {
			cnt := map[string]int{}
			for _, it := range seen {
				cnt[it.String()]++
				if cnt[it.String()] > fullSet[it.String()] {
					k.Input("stop_at", s)
					k.Failf("stopped-run-differs", "%s: stopped run delivered %s, not distinct members of the full result %s", name, traceString(seen), traceString(full))
					return
				}
			}
		} else if !sameTrace(seen, full[:s+1]) {
			k.Input("stop_at", s)
			k.Failf("stopped-run-differs", "%s: items of the run stopped at %d differ from the leading items of the uninterrupted run:\n got  %s\n want %s", name, s, traceString(seen), traceString(full[:s+1]))
			return
		}
	}
	// Abandoned iterations must leave nothing behind: one more uninterrupted
	// run, after all the stopped ones, must deliver what the first one did.
	if len(full) > 0 {
		var again []item
		if p := catch(func() {
			mk()(func(it item) bool {
				if len(again) > len(full)+2 {
					return false
				}
				again = append(again, it)
				return true
			})
		}); p != nil {
			k.Failf("panic-after-stopped-runs", "%s: panic in an uninterrupted run that follows stopped runs: %v", name, p)
			return
		}
		same := sameTrace(again, full)
		if o.unordered {
			same = len(again) == len(full)
			cnt := map[string]int{}
			for _, it := range again {
				cnt[it.String()]++
			}
			for key, n := range fullSet {
				if cnt[key] != n {
					same = false
				}
			}
		}
		if !same {
			k.Failf("run-after-stopped-runs-differs", "%s: an uninterrupted run made after stopped runs differs from the first uninterrupted run:\n got  %s\n want %s", name, traceString(again), traceString(full))
			return
		}
		k.Count("reruns_after_stops", 1)
	}
}

func countFDs() int {
	ents, err := os.ReadDir("/proc/self/fd")
	if err != nil {
		return -1
	}
	return len(ents)
}

type c18Iter struct {
	name      string
	format    string // corpus format for inputs ("" = not a stream iterator)
	file      bool
	errorLast bool
	mk        func(x []byte, path string) rawIter
}

var c18Streams = []c18Iter{
	{"fasta.Reader", "fasta", false, true, func(x []byte, _ string) rawIter { return raw2(fasta.Reader(bytes.NewReader(x)), fastaKey) }},
	{"fasta.File", "fasta", true, true, func(_ []byte, p string) rawIter { return raw2(fasta.File(p), fastaKey) }},
	{"fastq.Reader", "fastq", false, true, func(x []byte, _ string) rawIter { return raw2(fastq.Reader(bytes.NewReader(x)), fastqKey) }},
	{"fastq.File", "fastq", true, true, func(_ []byte, p string) rawIter { return raw2(fastq.File(p), fastqKey) }},
	{"sam.Reader", "sam", false, false, func(x []byte, _ string) rawIter { return raw2(sam.Reader(bytes.NewReader(x)), samKey) }},
	{"sam.ReaderHeader", "sam", false, false, func(x []byte, _ string) rawIter { return raw2(sam.ReaderHeader(bytes.NewReader(x)), samOrHeaderKey) }},
	{"sam.File", "sam", true, false, func(_ []byte, p string) rawIter { return raw2(sam.File(p), samKey) }},
	{"sam.FileHeader", "sam", true, false, func(_ []byte, p string) rawIter { return raw2(sam.FileHeader(p), samOrHeaderKey) }},
	{"bed.Reader", "bed", false, true, func(x []byte, _ string) rawIter { return raw2(bed.Reader(bytes.NewReader(x)), bedKey) }},
	{"bed.File", "bed", true, true, func(_ []byte, p string) rawIter { return raw2(bed.File(p), bedKey) }},
	{"newick.Reader", "newick", false, true, func(x []byte, _ string) rawIter { return raw2(newick.Reader(bytes.NewReader(x)), treeKey) }},
	{"newick.File", "newick", true, true, func(_ []byte, p string) rawIter { return raw2(newick.File(p), treeKey) }},
}

func init() {
	register(&Property{
		ID:    "C18",
		Level: "exploration",
		Rule: "16 iterators (Reader/File of fasta, fastq, bed, newick; Reader/ReaderHeader/File/FileHeader of sam; Node.PreOrder/PostOrder; Trie.ForEach; CanonicalSubsequences), each called directly with a monitoring callback: " +
			"one uninterrupted run of N items, then one run per stop position 0..N-1 (the callback returns false there); well-formed, malformed and truncated inputs, plain and gzip files, missing files; " +
			"tries with a 256-child node, tree nodes with 255..257 and 65535..65537 children (stop positions sampled beyond 2000 items); " +
			"non-trivial = iterator run with at least 2 items; distinct by hash of (iterator, input)",
		Assumptions: []string{"records are compared by content, errors by presence", "for the unordered Trie.ForEach a stopped run must deliver distinct members of the full result"},
		MinEvents: map[string]int64{"stop_positions": 3000, "stops_on_error_item": 50, "runs_with_error_item": 50,
			"items_fasta.Reader": 20, "items_fasta.File": 20, "items_fastq.Reader": 20, "items_fastq.File": 20, "items_sam.Reader": 20, "items_sam.ReaderHeader": 20,
			"items_sam.File": 20, "items_sam.FileHeader": 20, "items_bed.Reader": 20, "items_bed.File": 20, "items_newick.Reader": 20, "items_newick.File": 20,
			"items_Node.PreOrder": 20, "items_Node.PostOrder": 20, "items_Trie.ForEach": 20, "items_CanonicalSubsequences": 20},
		Units: []Unit{
			{Name: "streams", QShards: 2, TShards: 8, Run: c18Streams_},
			{Name: "memory", TShards: 4, Run: c18Memory},
			{Name: "faulty", QShards: 2, TShards: 8, Run: c18Faulty},
			{Name: "histories", QShards: 2, TShards: 6, Run: codecHistories(c06Formats...)},
			{Name: "deepstops", QShards: 2, TShards: 6, Run: c18DeepStops},
			{Name: "bigfiles", QShards: 4, TShards: 6, StallSec: 90, Run: c18BigFiles},
			{Name: "manyalive", TShards: 2, StallSec: 90, Run: c18ManyAlive},
			{Name: "livepipes", StallSec: 60, Run: c18LivePipes},
		},
	})
	register(&Property{
		ID:    "C19",
		Level: "exploration",
		Rule: "every ordered tree shape up to a node bound (Dyck-word enumeration), random trees up to 50000 nodes with fan-out 0..20 and nil vs empty Children, chains and brooms of depth 10^5..10^6: PreOrder/PostOrder pointer sequences compared with the classic recursive traversals; " +
			"readers unit: the calls run while reader goroutines read the protected memory, -race build reports any write to it (also one undone before returning); " +
			"a structural snapshot of the tree (pointers, names, distances, child slices) compared before and after; non-trivial = tree with at least 2 nodes; distinct by construction for enumerated shapes, by hash of the shape otherwise",
		Assumptions: []string{"the explicit-stack reference traversal used for very deep trees is cross-checked against the truly recursive one at worker start"},
		MinEvents:   map[string]int64{"trees_traversed": 1000, "nodes_visited": 10000, "deep_trees": 2},
		SelfTest:    traverseSelfTest,
		Units: []Unit{
			{Name: "shapes", QShards: 2, TShards: 8, Run: c19Shapes},
			{Name: "random", TShards: 4, Run: c19Random},
			{Name: "deep", QShards: 3, TShards: 4, Run: c19Deep},
			{Name: "recross", QShards: 3, TShards: 8, Run: c19Recross},
			{Name: "edits", TShards: 4, Run: c19Edits},
			{Name: "widenested", QShards: 4, TShards: 6, Run: c19WideNested},
			{Name: "readers", Race: true, QShards: 2, TShards: 4, Run: c19Readers},
			{Name: "wide", TShards: 4, Run: c19Wide},
			{Name: "parallel", Race: true, Run: treeParallel},
			firstCallUnit(firstTree),
			firstParallelUnit(parTree),
		},
	})
}

func c18Streams_(c *Ctx) {
	per := c.N(150, 6000)
	dir, err := os.MkdirTemp("", "c18-")
	if err != nil {
		c.Info("skipped", err.Error())
		return
	}
	defer os.RemoveAll(dir)
	fd0 := countFDs()
	idx := int64(0)
	for _, it := range c18Streams {
		for i := 0; i < per; i++ {
			c.Case(idx, func(k *K) {
				r := k.Rand()
				var x []byte
				wf := false
				switch r.IntN(4) {
				case 0:
					x = wellFormed(r, it.format, 1+r.IntN(30))
					wf = true
					if k.Idx%5 == 0 {
						// a line longer than the usual I/O buffers (also a header line, for sam); kept whole
						x = wellFormedLong(r, it.format)
						k.Count("long_line_inputs", 1)
					}
				case 1:
					x = wellFormed(r, it.format, 0)
					if len(x) > 0 {
						x = x[:r.IntN(len(x))]
					}
				default:
					x = nearValid(r, it.format)
				}
				if len(x) > 6000 && !wf {
					x = x[:6000]
				}
				k.Input("iterator", it.name)
				k.Input("input", func() string { return describeText(x) })
				path := ""
				if it.file {
					ext := codecByName(it.format).ext
					if r.IntN(4) == 0 {
						// a name that says nothing, or something else, about the content: File goes by what is in the file
						// (compression endings apart), not by what it is called
						ext = pick(r, []string{"", ".txt", ".dat", ".bam", ".cram", ".vcf", ".fastq", ".fa", ".bed.bak", ".SAM", ".nwk.1", ".gzip", ".z"})
						k.Count("files_with_other_name_endings", 1)
					}
					path = filepath.Join(dir, fmt.Sprintf("f%d%s", k.Idx, ext))
					data := x
					switch r.IntN(8) {
					case 0:
						path += ".gz"
						data = gzipBytes(x, 6)
					case 1:
						path = filepath.Join(dir, "missing-"+fmt.Sprint(k.Idx)+ext) // not created
						data = nil
					}
					if data != nil || r.IntN(2) == 0 {
						if data != nil {
							os.WriteFile(path, data, 0o644)
							defer os.Remove(path)
						}
					}
					k.Input("path", path)
				}
				before := k.c.Rep.Counters["items_"+it.name]
				mkIter := func() rawIter { return it.mk(x, path) }
				if !it.file && k.Idx%3 == 1 && len(x) < 3000 {
					// the source is an io.Reader of another dynamic type or state (see readerzoo.go), a fresh one per run
					zoo := readerZoo(r, x, "")
					z := zoo[r.IntN(len(zoo))]
					k.Input("source", z.name)
					var open []io.Closer
					defer func() {
						for _, cl := range open {
							cl.Close()
						}
					}()
					mkIter = func() rawIter {
						src := z.mk()
						if cl, ok := src.(io.Closer); ok {
							open = append(open, cl)
						}
						return streamOver(it.name, src)
					}
					k.Count("streams_over_zoo_readers", 1)
				}
				stopMonitor(k, it.name, mkIter, stopOpts{errorLast: it.errorLast, limit: len(x) + 10})
				if k.c.Rep.Counters["items_"+it.name]-before >= 2 {
					k.Nontrivial([]byte(it.name), x, []byte(path[max(0, len(path)-3):]))
				}
				if wf && it.name == "sam.Reader" && !k.Failed() {
					// What "an uninterrupted run" is, for well-formed input, is pinned from the sibling iterator:
					// sam.Reader delivers what sam.ReaderHeader delivers, less the header lines.
					want, _ := collect(func(yield func(string, error) bool) {
						for sh, err := range sam.ReaderHeader(bytes.NewReader(x)) {
							if err == nil && sh.H != nil {
								continue
							}
							if err != nil {
								if !yield("", err) {
									return
								}
								continue
							}
							if !yield(samKey(sh.S), nil) {
								return
							}
						}
					}, len(x)+10)
					got, _ := collect(mapSeq(sam.Reader(bytes.NewReader(x)), samKey), len(x)+10)
					k.Count("sibling_runs_compared", 1)
					if !sameTrace(got, want) {
						k.Failf("sibling-run-differs", "sam.Reader's uninterrupted run differs from sam.ReaderHeader's without the header lines:\n got  %.1500s\n want %.1500s", traceString(got), traceString(want))
					}
				}
			})
			idx++
		}
	}
	c.Info("open_fds_before_after", []int{fd0, countFDs()})
}

func c18Memory(c *Ctx) {
	per := c.N(200, 8000)
	idx := int64(0)
	nodeKey := func(n *newick.Node) string { return fmt.Sprintf("%p", n) }
	for i := 0; i < per; i++ {
		c.Case(idx, func(k *K) {
			r := k.Rand()
			root, nodes := randomTree(r, 1+r.IntN(40), r.IntN(4))
			if r.IntN(2) == 0 { // childless nodes whose Children is empty but not nil: pruned in place, made with a capacity, from JSON "[]"
				for _, nd := range nodes {
					if nd.Children == nil && r.IntN(2) == 0 {
						nd.Children = pick(r, [][]*newick.Node{{}, make([]*newick.Node, 0, 4), append([]*newick.Node{{Name: "pruned"}}, nil)[:0]})
					}
				}
				k.Count("trees_with_empty_non_nil_children", 1)
			}
			k.Input("tree", func() string { return treeKey(root) })
			if k.Idx%2 == 0 {
				stopMonitor(k, "Node.PreOrder", func() rawIter { return raw1(root.PreOrder(), nodeKey) }, stopOpts{})
				stopMonitor(k, "Node.PostOrder", func() rawIter { return raw1(root.PostOrder(), nodeKey) }, stopOpts{})
			} else {
				// ONE iterator value ranged over again and again (an iter.Seq over
				// memory is re-iterable): nothing may survive a stopped run.
				pre, post := raw1(root.PreOrder(), nodeKey), raw1(root.PostOrder(), nodeKey)
				k.Input("same_iterator_value_reused", true)
				stopMonitor(k, "Node.PreOrder", func() rawIter { return pre }, stopOpts{})
				stopMonitor(k, "Node.PostOrder", func() rawIter { return post }, stopOpts{})
				k.Count("reused_iterator_values", 2)
			}
			k.Nontrivial([]byte(treeKey(root)))
		})
		idx++
	}
	for i := 0; i < per; i++ {
		c.Case(idx, func(k *K) {
			r := k.Rand()
			t := trie.New()
			var added []string
			alpha := []byte("abc")
			if r.IntN(2) == 0 {
				alpha = []byte("abcdefghij")
			}
			for j := r.IntN(30); j > 0; j-- {
				s := randSeq(r, alpha, r.IntN(6))
				if r.IntN(6) == 0 {
					s = randSeq(r, alpha, pick(r, []int{15, 16, 17, 31, 32, 33, 40}))
				}
				t.Add(s)
				added = append(added, string(s))
			}
			sort.Strings(added)
			k.Input("added", added)
			if r.IntN(3) == 0 {
				// The trie has been iterated (and stopped) before, then receives more
				// content through UnmarshalJSON: whatever an iteration leaves behind
				// in the trie must not trip the next one.
				n := 0
				t.ForEach(func([]byte) bool { n++; return n < 2 })
				t.ForEach(func([]byte) bool { return true })
				other := trie.New()
				var extra []string
				for j := 1 + r.IntN(6); j > 0; j-- {
					s := randSeq(r, []byte("abcxyz"), 1+r.IntN(4))
					other.Add(s)
					extra = append(extra, string(s))
				}
				if b, err := json.Marshal(other); err == nil && json.Unmarshal(b, t) == nil {
					k.Input("then_unmarshalled_into_it", extra)
					k.Count("tries_unmarshalled_into_after_iteration", 1)
				}
			}
			stopMonitor(k, "Trie.ForEach", func() rawIter {
				return func(cb func(item) bool) {
					t.ForEach(func(b []byte) bool { return cb(item{Key: string(b)}) })
				}
			}, stopOpts{unordered: true})
			k.Nontrivial([]byte(fmt.Sprint(added)))
		})
		idx++
	}
	// Wide structures: a trie node with every one of the 256 possible children
	// (a byte-sized child index wraps exactly there), tree nodes with 255..257
	// and 65535..65537 children.
	for i := 0; i < c.N(6, 40); i++ {
		c.Case(idx, func(k *K) {
			r := k.Rand()
			t := trie.New()
			prefix := randSeq(r, []byte("ab\x00\xff"), i%4)
			n := 0
			for b := 0; b < 256; b++ {
				if i%5 == 4 && b == 77 {
					continue // 255 children
				}
				key := append(append([]byte{}, prefix...), byte(b))
				if r.IntN(3) == 0 {
					key = append(key, randSeq(r, []byte("xy"), 1+r.IntN(2))...)
				}
				t.Add(key)
				n++
			}
			for j := r.IntN(5); j > 0; j-- {
				t.Add(randSeq(r, []byte("ab\x00\xff"), r.IntN(5)))
			}
			k.Input("prefix", prefix)
			k.Input("children_of_prefix_node", n)
			stopMonitor(k, "Trie.ForEach", func() rawIter {
				return func(cb func(item) bool) {
					t.ForEach(func(b []byte) bool { return cb(item{Key: string(b)}) })
				}
			}, stopOpts{unordered: true, limit: 5000})
			k.Count("full_fanout_tries", 1)
			k.Nontrivial([]byte(fmt.Sprint("fanout", i)), prefix)
		})
		idx++
	}
	for i, fan := range []int{255, 256, 257, 65535, 65536, 65537} {
		if fan > 1000 && !c.Thorough && i != 4 {
			continue
		}
		c.Case(idx, func(k *K) {
			r := k.Rand()
			root := &newick.Node{}
			parent := root
			if r.IntN(2) == 0 {
				parent = &newick.Node{}
				root.Children = []*newick.Node{{}, parent, {}}
			}
			for j := 0; j < fan; j++ {
				ch := &newick.Node{}
				if r.IntN(50) == 0 {
					ch.Children = []*newick.Node{{}, {}}
				}
				parent.Children = append(parent.Children, ch)
			}
			k.Input("fan_out", fan)
			stopMonitor(k, "Node.PreOrder", func() rawIter { return raw1(root.PreOrder(), nodeKey) }, stopOpts{limit: 200000})
			stopMonitor(k, "Node.PostOrder", func() rawIter { return raw1(root.PostOrder(), nodeKey) }, stopOpts{limit: 200000})
			k.Count("wide_trees", 1)
			k.Nontrivial([]byte(fmt.Sprint("wide", fan)))
		})
		idx++
	}
	// sequences long enough for an iterator that works in windows / blocks to cross several of them
	for _, kk := range []int{1, 21, 100} {
		c.Case(idx, func(k *K) {
			r := k.Rand()
			s := randSeq(r, []byte(dna10), 140000+r.IntN(50))
			k.Input("seq_length", len(s))
			k.Input("k", kk)
			stopMonitor(k, "CanonicalSubsequences", func() rawIter {
				return raw1(sequtil.CanonicalSubsequences(s, kk), func(b []byte) string { return string(b) })
			}, stopOpts{limit: 200000, offsets: []int{kk, kk - 1, kk + 1, 2 * kk}, fine: c.Thorough, edge: c.N(30, 300)})
			k.Count("long_sequences_stopped", 1)
			k.Nontrivial([]byte("long canonical stops"), []byte{byte(kk)})
		})
		idx++
	}
	for i := 0; i < per; i++ {
		c.Case(idx, func(k *K) {
			r := k.Rand()
			s := randSeq(r, []byte(dna10), r.IntN(60))
			kk := 1 + r.IntN(8)
			k.Input("seq", s)
			k.Input("k", kk)
			if k.Idx%2 == 0 {
				stopMonitor(k, "CanonicalSubsequences", func() rawIter {
					return raw1(sequtil.CanonicalSubsequences(s, kk), func(b []byte) string { return string(b) })
				}, stopOpts{})
			} else {
				one := raw1(sequtil.CanonicalSubsequences(s, kk), func(b []byte) string { return string(b) })
				k.Input("same_iterator_value_reused", true)
				stopMonitor(k, "CanonicalSubsequences", func() rawIter { return one }, stopOpts{})
				k.Count("reused_iterator_values", 1)
			}
			k.Nontrivial(s, []byte{byte(kk)})
		})
		idx++
	}
}

// ---------------------------------------------------------------- C19

func traverseSelfTest() error {
	r := rand.New(rand.NewPCG(5, 6))
	for i := 0; i < 200; i++ {
		root, _ := randomTree(r, 1+r.IntN(60), r.IntN(4))
		var a, b []*newick.Node
		recPreOrder(root, &a)
		recPostOrder(root, &b)
		if !samePtrs(a, refPreOrder(root)) || !samePtrs(b, refPostOrder(root)) {
			return fmt.Errorf("explicit-stack reference traversal disagrees with the recursive one")
		}
	}
	return nil
}

func samePtrs(a, b []*newick.Node) bool {
	if len(a) != len(b) {
		return false
	}
	for i := range a {
		if a[i] != b[i] {
			return false
		}
	}
	return true
}

type nodeSnap struct {
	n        *newick.Node
	name     string
	dist     float64
	children []*newick.Node
	nilKids  bool
}

func snapshotTree(root *newick.Node) []nodeSnap {
	var out []nodeSnap
	for _, n := range refPreOrder(root) {
		out = append(out, nodeSnap{n, n.Name, n.Distance, append([]*newick.Node{}, n.Children...), n.Children == nil})
	}
	return out
}

func snapChanged(snap []nodeSnap) string {
	for _, s := range snap {
		if s.n.Name != s.name || !sameFloat(s.n.Distance, s.dist) || !samePtrs(s.n.Children, s.children) || (s.n.Children == nil) != s.nilKids {
			return fmt.Sprintf("node %p (%q) changed", s.n, s.name)
		}
	}
	return ""
}

// checkTraversals compares both traversals with the reference orders.
// abandonTraversals starts both traversals of a decoy tree and breaks out of
// them early: whatever the library keeps between calls must not leak into
// the traversals that follow.
func abandonTraversals(r *rand.Rand) {
	decoy, _ := randomTree(r, 5+r.IntN(40), r.IntN(4))
	stopAt := 1 + r.IntN(6)
	n := 0
	for range decoy.PreOrder() {
		n++
		if n >= stopAt {
			break
		}
	}
	n = 0
	for range decoy.PostOrder() {
		n++
		if n >= stopAt {
			break
		}
	}
}

// nestedTraversals: inside the callback of a PreOrder (PostOrder) run over the
// tree, at every node, a complete PostOrder (PreOrder) run over the same tree
// and over the subtree of that node.
func nestedTraversals(k *K, root *newick.Node) {
	var wantPre, wantPost []*newick.Node
	recPreOrder(root, &wantPre)
	recPostOrder(root, &wantPost)
	count := func(seq iter.Seq[*newick.Node], want []*newick.Node) bool {
		i := 0
		for n := range seq {
			if i >= len(want) || n != want[i] {
				return false
			}
			i++
		}
		return i == len(want)
	}
	i := 0
	for n := range root.PreOrder() {
		var subPost []*newick.Node
		recPostOrder(n, &subPost)
		if !count(root.PostOrder(), wantPost) || !count(n.PostOrder(), subPost) || !count(root.PreOrder(), wantPre) {
			k.Failf("nested-traversal", "a traversal started inside the callback of a PreOrder run (at its item %d) does not visit the nodes in the documented order", i)
			return
		}
		if i >= len(wantPre) || n != wantPre[i] {
			k.Failf("nested-traversal", "a PreOrder run inside whose callbacks other traversals ran goes wrong at item %d", i)
			return
		}
		i++
	}
	j := 0
	for n := range root.PostOrder() {
		if !count(root.PreOrder(), wantPre) || j >= len(wantPost) || n != wantPost[j] {
			k.Failf("nested-traversal", "a PostOrder run inside whose callbacks PreOrder runs over the same tree ran goes wrong at item %d", j)
			return
		}
		j++
	}
	if i != len(wantPre) || j != len(wantPost) {
		k.Failf("nested-traversal", "runs inside whose callbacks other traversals ran yield %d / %d nodes, want %d", i, j, len(wantPre))
		return
	}
	k.Count("nested_traversals", 1)
}

func checkTraversals(k *K, root *newick.Node, deep bool) {
	var wantPre, wantPost []*newick.Node
	if deep {
		wantPre, wantPost = refPreOrder(root), refPostOrder(root)
	} else {
		recPreOrder(root, &wantPre)
		recPostOrder(root, &wantPost)
	}
	snap := snapshotTree(root)
	for _, tr := range []struct {
		name string
		seq  iter.Seq[*newick.Node]
		want []*newick.Node
	}{{"PreOrder", root.PreOrder(), wantPre}, {"PostOrder", root.PostOrder(), wantPost}} {
		var got []*newick.Node
		for n := range tr.seq {
			got = append(got, n)
			if len(got) > len(tr.want)+1 {
				break
			}
		}
		if !samePtrs(got, tr.want) {
			pos := 0
			for pos < len(got) && pos < len(tr.want) && got[pos] == tr.want[pos] {
				pos++
			}
			k.Failf("traversal-order", "%s yields %d nodes, reference %d; first difference at position %d", tr.name, len(got), len(tr.want), pos)
			return
		}
		seen := make(map[*newick.Node]bool, len(got))
		for _, n := range got {
			if seen[n] {
				k.Failf("traversal-duplicate", "%s yields a node twice", tr.name)
				return
			}
			seen[n] = true
		}
		k.Count("nodes_visited", int64(len(got)))
	}
	if d := snapChanged(snap); d != "" {
		k.Failf("tree-modified", "traversal modified the tree: %s", d)
		return
	}
	// One iterator value ranged over twice must traverse the same tree twice.
	if len(wantPre) <= 5000 {
		for _, tr := range []struct {
			name string
			seq  iter.Seq[*newick.Node]
			want []*newick.Node
		}{{"PreOrder", root.PreOrder(), wantPre}, {"PostOrder", root.PostOrder(), wantPost}} {
			for pass := 1; pass <= 2; pass++ {
				var got []*newick.Node
				for n := range tr.seq {
					got = append(got, n)
					if len(got) > len(tr.want)+1 {
						break
					}
				}
				if !samePtrs(got, tr.want) {
					k.Failf("traversal-reuse", "pass %d over one %s iterator value yields %d nodes, the reference order has %d (or the order differs)", pass, tr.name, len(got), len(tr.want))
					return
				}
			}
		}
		k.Count("iterator_values_ranged_twice", 2)
		// two runs of one iterator value in progress at once (nested ranges)
		if len(wantPre) <= 300 {
			for _, tr := range []struct {
				name string
				seq  iter.Seq[*newick.Node]
				want []*newick.Node
			}{{"PreOrder", root.PreOrder(), wantPre}, {"PostOrder", root.PostOrder(), wantPost}} {
				for range tr.seq { // one completed run first
				}
				var outer []*newick.Node
				innerAt := len(tr.want) / 2
				okInner := true
				for n := range tr.seq {
					outer = append(outer, n)
					if len(outer) == innerAt+1 {
						var inner []*newick.Node
						for m := range tr.seq {
							inner = append(inner, m)
							if len(inner) > len(tr.want)+1 {
								break
							}
						}
						okInner = samePtrs(inner, tr.want)
					}
					if len(outer) > len(tr.want)+1 {
						break
					}
				}
				if !okInner || !samePtrs(outer, tr.want) {
					k.Failf("traversal-nested", "nested ranges over one %s iterator value: outer run yields %d nodes, inner run correct=%v, the reference order has %d nodes", tr.name, len(outer), okInner, len(tr.want))
					return
				}
			}
			k.Count("nested_ranges", 2)
		}
	}
	k.Count("trees_traversed", 1)
}

func c19Shapes(c *Ctx) {
	maxn := c.N(9, 12)
	idx := int64(0)
	total := 0
	for n := 1; n <= maxn; n++ {
		words := dyckWords(n - 1)
		total += len(words)
		// batch of up to 500 shapes per case
		for lo := 0; lo < len(words); lo += 500 {
			c.Case(idx, func(k *K) {
				hi := min(len(words), lo+500)
				for _, w := range words[lo:hi] {
					root, nodes := treeFromDyck(w)
					if len(w)%3 == 0 {
						for _, nd := range nodes { // nil vs empty Children
							if nd.Children == nil {
								nd.Children = []*newick.Node{}
							}
						}
					}
					if len(w)%4 == 2 {
						poolChildren(nodes)
					}
					k.Input("shape", w)
					checkTraversals(k, root, false)
					if k.Failed() {
						return
					}
					if len(w) <= 12 || len(w)%5 == 0 {
						nestedTraversals(k, root)
						if k.Failed() {
							return
						}
					}
				}
				k.Evals(int64(hi-lo) - 1)
				if n >= 2 {
					k.DistinctBC(int64(hi - lo))
				}
			})
			idx++
		}
	}
	c.Exhaustive(fmt.Sprintf("shapes: every ordered tree with at most %d nodes (%d shapes)", maxn, total))
}

func c19Random(c *Ctx) {
	n := c.N(800, 30000)
	for i := 0; i < n; i++ {
		c.Case(int64(i), func(k *K) {
			r := k.Rand()
			size := 1 + r.IntN(200)
			if r.IntN(25) == 0 {
				size = 1 + r.IntN(50000)
			}
			root, nodes := randomTree(r, size, r.IntN(4))
			if r.IntN(2) == 0 {
				for _, nd := range nodes {
					if nd.Children == nil && r.IntN(2) == 0 {
						nd.Children = []*newick.Node{}
					}
				}
			}
			// wide fan-out
			if r.IntN(4) == 0 {
				for j := 0; j < 20; j++ {
					root.Children = append(root.Children, &newick.Node{})
				}
			}
			// Children slices laid out as adjacent sub-slices of one flat pool (as
			// clustering code builds trees): a stray append through one node's slice
			// would land in its neighbour's children.
			if r.IntN(3) == 0 {
				poolChildren(nodes)
				k.Count("pooled_children_trees", 1)
			}
			k.Input("nodes", size)
			if size <= 60 {
				k.Input("tree", treeKey(root))
			}
			if r.IntN(2) == 0 {
				abandonTraversals(r)
				k.Count("abandoned_traversals_before", 1)
				k.Input("abandoned_traversal_before", true)
			}
			checkTraversals(k, root, size > 5000)
			if k.Failed() {
				return // the tree may be corrupted (even cyclic): do not walk it again
			}
			if size >= 2 {
				k.Nontrivial([]byte(fmt.Sprint(size)), []byte(shapeDigest(root)))
			}
		})
	}
}

// poolChildren re-lays every node's Children as a sub-slice of one shared
// backing array (capacity running into the following nodes' children).
func poolChildren(nodes []*newick.Node) {
	total := 0
	for _, n := range nodes {
		total += len(n.Children)
	}
	pool := make([]*newick.Node, total)
	off := 0
	for _, n := range nodes {
		c := len(n.Children)
		if c == 0 {
			continue
		}
		copy(pool[off:], n.Children)
		n.Children = pool[off : off+c]
		off += c
	}
}

func shapeDigest(root *newick.Node) string {
	var b bytes.Buffer
	for _, n := range refPreOrder(root) {
		fmt.Fprintf(&b, "%d,", len(n.Children))
		if b.Len() > 4000 {
			break
		}
	}
	return b.String()
}

func c19Deep(c *Ctx) {
	// "Deeper than any recursion limit": the limit is lowered to 16 MiB of goroutine stack for this worker, so
	// that recursion which would need 10^7 levels to exhaust Go's default of 1 GiB shows at 10^5 … 10^6 levels.
	// (The traversals under test keep their own stack on the heap; the references used here do, too.)
	debug.SetMaxStack(16 << 20)
	combs := []struct{ depth, side int }{{1 << 20, 0}, {1 << 20, 1}, {600000, 2}}
	for i, cb := range combs {
		c.Case(int64(100+i), func(k *K) {
			root := combTree(cb.depth, 1, cb.side)
			k.Input("comb_depth", cb.depth)
			k.Input("legs_side", cb.side)
			checkTraversals(k, root, true)
			k.Count("deep_trees", 1)
			k.Count("deep_combs", 1)
			k.Nontrivial([]byte(fmt.Sprint("comb", cb)))
		})
	}
	depths := []int{c.N(100000, 1000000), c.N(100000, 1000000), c.N(100000, 1000000), 1<<20 + 3, 1<<21 + 1}
	if c.Thorough {
		depths = append(depths, 1<<22+5, 1<<23+1)
	}
	for i, depth := range depths {
		every := []int{0, 1, 1000, 0, 7, 0, 0}[i]
		c.Case(int64(i), func(k *K) {
			root, cnt := chainTree(depth, every)
			k.Input("chain_depth", depth)
			k.Input("side_leaf_every", every)
			checkTraversals(k, root, true)
			k.Count("deep_trees", 1)
			k.Count("max_depth", int64(depth))
			k.Nontrivial([]byte(fmt.Sprint(depth, every, cnt)))
		})
	}
}

// c19Edits: the SAME tree (the same root pointer) traversed again and again
// with edits in between — a clade added under a tip, a subtree removed, two
// children swapped, a child list replaced by a copy, the root given another
// first child — in histories that repeat ONE order several times in a row
// (PreOrder, edit, PreOrder, edit, PreOrder …) as well as alternating ones. Big
// trees (1100 … 40 000 nodes) and small ones. A traversal that remembers
// anything about a tree by its identity — the last order it produced, a node
// count, a flattened child index — is stale after the first edit.
func c19Edits(c *Ctx) {
	n := c.N(60, 1200)
	for i := 0; i < n; i++ {
		c.Case(int64(i), func(k *K) {
			r := k.Rand()
			size := pick(r, []int{30, 1100, 1100, 5000, 40000})
			root, _ := randomTree(r, size, r.IntN(4))
			k.Input("nodes", size)
			orders := []string{"pre", "pre", "pre", "post", "post", "post", "pre", "post", "pre", "pre"}
			if i%3 == 1 {
				orders = []string{"post", "post", "post", "post", "pre", "pre", "pre", "pre"}
			}
			var hist []string
			k.Input("history", func() string { return strings.Join(hist, "; ") })
			for step, ord := range orders {
				hist = append(hist, ord)
				var got, want []*newick.Node
				if ord == "pre" {
					want = refPreOrder(root)
					for nd := range root.PreOrder() {
						got = append(got, nd)
						if len(got) > len(want)+10 {
							break
						}
					}
				} else {
					want = refPostOrder(root)
					for nd := range root.PostOrder() {
						got = append(got, nd)
						if len(got) > len(want)+10 {
							break
						}
					}
				}
				if !samePtrs(got, want) {
					k.Failf("traversal-after-edit", "traversal %d of one tree (%s-order, after %d edits) yields %d nodes, the tree has %d now; the orders differ", step+1, ord, step, len(got), len(want))
					return
				}
				k.Count("traversals_between_edits", 1)
				// edit
				live := refPreOrder(root)
				nd := live[r.IntN(len(live))]
				switch r.IntN(6) {
				case 0: // a clade under a tip (or one more child)
					nd.Children = append(nd.Children, &newick.Node{Children: []*newick.Node{{}, {}}})
					hist = append(hist, "add a clade")
				case 1: // remove a subtree
					if len(nd.Children) > 0 {
						j := r.IntN(len(nd.Children))
						nd.Children = append(nd.Children[:j:j], nd.Children[j+1:]...)
						hist = append(hist, "remove a subtree")
					}
				case 2: // swap two children
					if len(nd.Children) > 1 {
						nd.Children[0], nd.Children[len(nd.Children)-1] = nd.Children[len(nd.Children)-1], nd.Children[0]
						hist = append(hist, "swap children")
					}
				case 3: // the child list replaced by a copy in reverse order
					cp := append([]*newick.Node{}, nd.Children...)
					slices.Reverse(cp)
					nd.Children = cp
					hist = append(hist, "reverse a child list")
				case 4: // a new first child of the root
					root.Children = append([]*newick.Node{{Name: "new"}}, root.Children...)
					hist = append(hist, "new first child of the root")
				default: // move a subtree elsewhere
					if len(nd.Children) > 0 && nd != root {
						sub := nd.Children[len(nd.Children)-1]
						nd.Children = nd.Children[:len(nd.Children)-1]
						root.Children = append(root.Children, sub)
						hist = append(hist, "move a subtree to the root")
					}
				}
			}
			k.Count("trees_traversed", 1)
			k.Nontrivial([]byte(fmt.Sprint("edits", size, i)))
		})
	}
}

// armsTree: a spine of `spine` nodes whose last node has `arms` children, each
// the top of a chain of armLen nodes (inner nodes but for the last). The depth
// of the traversal's cursor passes spine..spine+armLen once per arm, so any
// threshold in that range (a stack that is grown, spilled, compacted or
// segmented there) is crossed `arms` times in both directions — a single chain
// crosses it once. With spine = 1 the arms hang from the root.
func armsTree(spine, arms, armLen int) (*newick.Node, int) {
	root, cnt := chainTree(spine, 0)
	end := root
	for len(end.Children) > 0 {
		end = end.Children[0]
	}
	for a := 0; a < arms; a++ {
		arm, n := chainTree(armLen, 0)
		end.Children = append(end.Children, arm)
		cnt += n
	}
	return root, cnt
}

// c19Recross: trees in which the depth of the traversal crosses one level
// several times: short arms at the end of a spine whose length is next to a
// power of two (2^4 … 2^20, ± 2) or a round decimal number, and long arms
// hanging from the root or from the middle of a spine.
func c19Recross(c *Ctx) {
	type shape struct{ spine, arms, armLen int }
	var shapes []shape
	maxE := c.N(17, 22)
	for e := 4; e <= maxE; e++ {
		for off := -2; off <= 2; off++ {
			shapes = append(shapes, shape{1<<e + off, 3, 6})
		}
	}
	for _, d := range []int{1000, 10000, 50000, 100000} {
		shapes = append(shapes, shape{d - 3, 4, 8})
	}
	// long arms: from the root, and from a spine
	for _, l := range []int{300, 5000, 70000, 1<<17 + 1} {
		shapes = append(shapes, shape{1, 2, l}, shape{1, 3, l}, shape{l / 2, 2, l})
	}
	shapes = append(shapes, shape{1<<20 - 3, 3, 8}, shape{1, 2, 1<<20 + 7})
	if c.Thorough {
		shapes = append(shapes, shape{1, 3, 1<<21 + 1}, shape{1 << 20, 2, 1<<20 + 1})
	}
	for i, sh := range shapes {
		c.Case(int64(i), func(k *K) {
			root, cnt := armsTree(sh.spine, sh.arms, sh.armLen)
			k.Input("shape", fmt.Sprintf("spine of %d nodes, then %d arms of %d nodes each", sh.spine, sh.arms, sh.armLen))
			checkTraversals(k, root, true)
			k.Count("recross_trees", 1)
			k.Nontrivial([]byte(fmt.Sprint(sh, cnt)))
		})
	}
}

// combTree: a spine of the given depth; every spine node also has `legs` leaf
// children, placed after the spine child (left comb: the walk goes down through
// a NON-last child, so every level still has work pending), before it (right
// comb), or on both sides.
func combTree(depth, legs int, side int) *newick.Node {
	root := &newick.Node{}
	cur := root
	for d := 1; d < depth; d++ {
		next := &newick.Node{}
		var kids []*newick.Node
		for l := 0; l < legs; l++ {
			if side == 1 || side == 2 && l%2 == 0 {
				kids = append(kids, &newick.Node{})
			}
		}
		kids = append(kids, next)
		for l := 0; l < legs; l++ {
			if side == 0 || side == 2 && l%2 == 1 {
				kids = append(kids, &newick.Node{})
			}
		}
		cur.Children = kids
		cur = next
	}
	return root
}

// c18DeepStops: PreOrder / PostOrder stopped at EVERY position of deep trees —
// chains, left / right / two-sided combs, recrossing arms, random deep trees —
// whose depth is next to 2^4 … 2^10 (a fixed-size inline stack, a first stack
// segment), and at sampled positions of trees 70000 levels deep. The small
// random trees of the `memory` unit are at most a few levels deep.
func c18DeepStops(c *Ctx) {
	nodeKey := func(n *newick.Node) string { return fmt.Sprintf("%p", n) }
	depths := []int{15, 16, 17, 31, 32, 33, 63, 64, 65, 127, 128, 129, 130, 200, 255, 256, 257, 300, 511, 512, 513}
	if c.Thorough {
		depths = append(depths, 1023, 1024, 1025, 1500)
	}
	idx := int64(0)
	run := func(what string, mk func(r *rand.Rand) *newick.Node) {
		c.Case(idx, func(k *K) {
			root := mk(k.Rand())
			k.Input("tree_shape", what)
			stopMonitor(k, "Node.PreOrder", func() rawIter { return raw1(root.PreOrder(), nodeKey) }, stopOpts{limit: 400000})
			stopMonitor(k, "Node.PostOrder", func() rawIter { return raw1(root.PostOrder(), nodeKey) }, stopOpts{limit: 400000})
			k.Count("deep_trees_stopped", 1)
			k.Nontrivial([]byte("deepstops"), []byte(what))
		})
		idx++
	}
	for _, d := range depths {
		run(fmt.Sprintf("chain of depth %d", d), func(*rand.Rand) *newick.Node { t, _ := chainTree(d, 0); return t })
		for side := 0; side < 3; side++ {
			run(fmt.Sprintf("comb of depth %d, one leg per level, side %d", d, side), func(*rand.Rand) *newick.Node { return combTree(d, 1+side/2, side) })
		}
		run(fmt.Sprintf("spine of %d nodes, then 3 arms of 6", d-3), func(*rand.Rand) *newick.Node { t, _ := armsTree(max(1, d-3), 3, 6); return t })
		run(fmt.Sprintf("random deep tree of %d nodes", 2*d), func(r *rand.Rand) *newick.Node { t, _ := randomTree(r, 2*d, 2); return t })
	}
	big := []int{20000}
	if c.Thorough {
		big = []int{70000, 1<<17 + 1}
	}
	// deeper than 2^20 levels (a chromosome-scale caterpillar; no recursion, and no "sanity" bound, survives it):
	// stopped at a handful of positions around the 2^20-th item and at both ends
	c.Case(idx, func(k *K) {
		depth := 1<<20 + 5
		root, _ := chainTree(depth, 0)
		k.Input("tree_shape", fmt.Sprintf("chain of depth %d", depth))
		only := []int{0, 1, 1<<20 - 2, 1<<20 - 1, 1 << 20, 1<<20 + 1, -2, -1}
		stopMonitor(k, "Node.PreOrder", func() rawIter { return raw1(root.PreOrder(), nodeKey) }, stopOpts{limit: 1 << 21, only: only})
		stopMonitor(k, "Node.PostOrder", func() rawIter { return raw1(root.PostOrder(), nodeKey) }, stopOpts{limit: 1 << 21, only: only})
		k.Count("deep_trees_stopped", 1)
		k.Nontrivial([]byte("deepstops"), []byte("beyond 2^20"))
	})
	idx++
	for _, d := range big {
		run(fmt.Sprintf("left comb of depth %d", d), func(*rand.Rand) *newick.Node { return combTree(d, 1, 0) })
		run(fmt.Sprintf("two arms of %d nodes from the root", d), func(*rand.Rand) *newick.Node { t, _ := armsTree(1, 2, d); return t })
	}
}

// c18BigFiles: streams and files of thousands of records, stopped early by a
// SLOW consumer (it pauses for a few milliseconds before it declines — an
// injected delay, never a deadline): an iterator that decodes ahead of its
// consumer (a producer goroutine behind a channel, a prefetch buffer) has its
// look-ahead full at that moment, and has to wind down thousands of records it
// never delivered. Stops at 0, 1, 2, around 2^10 and 2^11, in the middle and at
// the end; then a complete run must still deliver everything. A stop that never
// returns is pinned by the watchdog (this unit's cases take milliseconds).
func c18BigFiles(c *Ctx) {
	nrec := c.N(3000, 20000)
	dir, err := os.MkdirTemp("", "c18-big-")
	if err != nil {
		c.Info("skipped", err.Error())
		return
	}
	defer os.RemoveAll(dir)
	for i, it := range c18Streams {
		c.Case(int64(i), func(k *K) {
			r := k.Rand()
			var x []byte
			ff := it.format
			for n := 0; n < nrec; n += 40 {
				x = append(x, wellFormed(r, ff, 40)...)
				if ff == "bed" { // one field count per file
					x = x[:0]
					var buf bytes.Buffer
					for j := 0; j < nrec; j++ {
						genBED(r, 6).Write(&buf)
					}
					x = buf.Bytes()
					break
				}
			}
			path := ""
			if it.file {
				path = filepath.Join(dir, fmt.Sprintf("big%d%s", i, codecByName(it.format).ext))
				data := x
				if i%4 == 1 {
					path += ".gz"
					data = gzipBytes(x, 1)
				}
				if os.WriteFile(path, data, 0o644) != nil {
					k.Count("file_write_failed", 1)
					return
				}
				defer os.Remove(path)
			}
			k.Input("iterator", it.name)
			k.Input("input_bytes", len(x))
			var full []item
			it.mk(x, path)(func(v item) bool { full = append(full, v); return len(full) <= len(x)+10 })
			if len(full) < nrec/2 {
				k.Failf("big-run-short", "%s: an input of about %d records delivers %d items", it.name, nrec, len(full))
				return
			}
			k.Count("items_"+it.name, int64(len(full)))
			n := len(full)
			stops := []int{0, 1, 2, 7, 100, 1022, 1023, 1024, 1025, 2047, 2048, 2049, n / 2, n - 1025, n - 2, n - 1}
			for si, sp := range stops {
				if sp < 0 || sp >= n {
					continue
				}
				var seen []item
				stopped, after := false, 0
				pause := time.Duration(1+si%4) * time.Millisecond
				if p := catch(func() {
					it.mk(x, path)(func(v item) bool {
						if stopped {
							after++
							return false
						}
						seen = append(seen, v)
						if len(seen) == sp+1 {
							stopped = true
							time.Sleep(pause) // a consumer that takes its time over the item it stops on
							return false
						}
						if len(seen) == sp { // and over the one before
							time.Sleep(pause)
						}
						return true
					})
				}); p != nil {
					k.Input("stop_at", sp)
					k.Failf("panic-after-stop", "%s: panic when a slow consumer stops at item %d of %d: %v", it.name, sp, n, p)
					return
				}
				if after > 0 || len(seen) != sp+1 || !sameTrace(seen, full[:sp+1]) {
					k.Input("stop_at", sp)
					k.Failf("stopped-run-differs", "%s: a slow consumer stopping at item %d of %d saw %d items (%d callbacks after it declined); they must be the leading items of the uninterrupted run", it.name, sp, n, len(seen), after)
					return
				}
				k.Count("stop_positions", 1)
				k.Count("slow_consumer_stops", 1)
				k.Evals(1)
			}
			var again []item
			it.mk(x, path)(func(v item) bool { again = append(again, v); return len(again) <= len(x)+10 })
			if !sameTrace(again, full) {
				k.Failf("run-after-stopped-runs-differs", "%s: a complete run made after the stopped runs delivers %d items, the first one %d", it.name, len(again), len(full))
				return
			}
			k.Count("full_runs", 2)
			k.Nontrivial([]byte(it.name), []byte("bigfiles"))
		})
	}
}

// c18Faulty: early stops on streams whose reader fails (possibly returning the
// failure together with data): the error may already be latched inside the
// decoder when the consumer stops on an earlier, good item.
func c18Faulty(c *Ctx) {
	per := c.N(60, 2500)
	idx := int64(0)
	for _, it := range c18Streams {
		if it.file {
			continue
		}
		for i := 0; i < per; i++ {
			c.Case(idx, func(k *K) {
				r := k.Rand()
				x := wellFormed(r, it.format, 1+r.IntN(8))
				if len(x) > 3000 {
					x = x[:3000]
				}
				var kk int
				switch r.IntN(3) {
				case 0:
					kk = r.IntN(len(x) + 1)
				case 1: // right before a line terminator
					nl := bytes.IndexByte(x[r.IntN(len(x)+1):], '\n')
					kk = max(0, min(len(x), len(x)-len(x[r.IntN(len(x)+1):])+nl))
				default:
					kk = len(x)
				}
				mode := faultMode{forever: r.IntN(2) == 0, bytewise: r.IntN(4) == 0, withData: r.IntN(2) == 0}
				k.Input("iterator", it.name)
				k.Input("input", func() string { return describeText(x) })
				k.Input("fault_offset", kk)
				k.Input("fault_mode", mode)
				before := k.c.Rep.Counters["items_"+it.name]
				stopMonitor(k, it.name, func() rawIter {
					fr := &faultReader{data: x, k: kk, bytewise: mode.bytewise, forever: mode.forever, withData: mode.withData && kk > 0, budget: len(x) + 10000,
						err: faultErrors[(kk+len(x)+3*mode.index())%len(faultErrors)]}
					return streamOver(it.name, fr)
				}, stopOpts{errorLast: it.errorLast, limit: len(x) + 10})
				k.Count("faulty_stream_cases", 1)
				if k.c.Rep.Counters["items_"+it.name]-before >= 2 {
					k.Nontrivial([]byte(it.name), x, []byte(fmt.Sprint(kk, mode)))
				}
			})
			idx++
		}
	}
}

// streamOver builds the named Reader iterator over an arbitrary io.Reader.
func streamOver(name string, rd io.Reader) rawIter {
	switch name {
	case "fasta.Reader":
		return raw2(fasta.Reader(rd), fastaKey)
	case "fastq.Reader":
		return raw2(fastq.Reader(rd), fastqKey)
	case "sam.Reader":
		return raw2(sam.Reader(rd), samKey)
	case "sam.ReaderHeader":
		return raw2(sam.ReaderHeader(rd), samOrHeaderKey)
	case "bed.Reader":
		return raw2(bed.Reader(rd), bedKey)
	case "newick.Reader":
		return raw2(newick.Reader(rd), treeKey)
	}
	panic("streamOver: unknown iterator " + name)
}

// c19Wide: nodes with very many children — a child cursor kept in a narrow
// integer, or a child list handled in blocks, goes wrong exactly at 2^8 / 2^16
// children, which random trees with fan-out up to 20 never have.
// c19WideNested: polytomies inside polytomies and at the bottom of deep
// caterpillars — the work list of a traversal is already tens of thousands of
// entries long (siblings still to visit) when one node adds tens of thousands
// more in one go. c19Wide has one wide node; the deep units have narrow ones.
func c19WideNested(c *Ctx) {
	type shape struct {
		name         string
		outer, inner int // outer: width of the root polytomy, or depth of the caterpillar
		cater        bool
	}
	shapes := []shape{{"polytomy in a polytomy", 70000, 20000, false}, {"polytomy in a polytomy", 20000, 70000, false}, {"polytomy in a polytomy", 65536, 65536, false},
		{"polytomy at the bottom of a caterpillar", 90000, 40000, true}, {"polytomy at the bottom of a caterpillar", 65536, 16385, true}, {"polytomy at the bottom of a caterpillar", 70000, 300, true}}
	if c.Thorough {
		shapes = append(shapes, shape{"polytomy in a polytomy", 1 << 18, 1 << 17, false}, shape{"polytomy at the bottom of a caterpillar", 1 << 20, 1 << 18, true})
	}
	for i, sh := range shapes {
		for pos := 0; pos < 2; pos++ { // the inner polytomy hangs from the first / the last child
			c.Case(int64(2*i+pos), func(k *K) {
				var root, host *newick.Node
				if sh.cater {
					root = combTree(sh.outer, 1, pos) // legs before or after the spine child
					host = root
					for len(host.Children) > 0 {
						nxt := host.Children[0]
						if pos == 1 {
							nxt = host.Children[len(host.Children)-1]
						}
						if len(nxt.Children) == 0 && nxt != host.Children[0] && pos == 0 {
							break
						}
						host = nxt
					}
				} else {
					root = &newick.Node{}
					for j := 0; j < sh.outer; j++ {
						root.Children = append(root.Children, &newick.Node{})
					}
					host = root.Children[0]
					if pos == 1 {
						host = root.Children[len(root.Children)-1]
					}
				}
				for j := 0; j < sh.inner; j++ {
					host.Children = append(host.Children, &newick.Node{})
				}
				k.Input("shape", fmt.Sprintf("%s: %d, then %d children (variant %d)", sh.name, sh.outer, sh.inner, pos))
				checkTraversals(k, root, true)
				k.Count("nested_wide_trees", 1)
				k.Nontrivial([]byte(fmt.Sprint("widenested", sh, pos)))
			})
		}
	}
}

func c19Wide(c *Ctx) {
	fans := []int{255, 256, 257, 1000, 65535, 65536, 65537, 70000}
	if c.Thorough {
		fans = append(fans, 127, 128, 129, 4095, 4096, 4097, 32767, 32768, 32769, 131071, 131072, 131073, 1<<20+1)
	}
	for i, fan := range fans {
		for variant := 0; variant < 2; variant++ {
			c.Case(int64(2*i+variant), func(k *K) {
				r := k.Rand()
				root := &newick.Node{}
				parent := root
				if variant == 1 { // the wide node below the root, between siblings, its children with children of their own
					parent = &newick.Node{}
					root.Children = []*newick.Node{{}, parent, {Children: []*newick.Node{{}}}}
				}
				for j := 0; j < fan; j++ {
					ch := &newick.Node{}
					if variant == 1 && r.IntN(40) == 0 {
						ch.Children = []*newick.Node{{}, {}}
					}
					parent.Children = append(parent.Children, ch)
				}
				k.Input("fan_out", fan)
				k.Input("variant", variant)
				checkTraversals(k, root, true)
				k.Count("wide_trees", 1)
				k.Nontrivial([]byte(fmt.Sprint("wide", fan, variant)))
			})
		}
	}
}

// c18ManyAlive: HUNDREDS of iterations alive at the same moment — a k-way merge
// over a few hundred sorted files keeps one pulled iterator (iter.Pull) per
// file and advances them in turn. Each iterator is advanced by one item, then
// by another in the opposite order, then all are stopped. Whatever an iterator
// holds while it is alive (a file, a pooled buffer, a token of a limiter) is
// held that many times at once; an iteration that waits for one of the others
// to finish never returns, which the watchdog reports as a hang (this unit's
// cases take milliseconds).
func c18ManyAlive(c *Ctx) {
	dir, err := os.MkdirTemp("", "c18-alive-")
	if err != nil {
		return
	}
	defer os.RemoveAll(dir)
	alive := c.N(300, 2500)
	for i, it := range c18Streams {
		c.Case(int64(i), func(k *K) {
			r := k.Rand()
			var x []byte
			for try := 0; try < 50 && len(x) < 40; try++ {
				x = wellFormed(r, it.format, 3+r.IntN(4))
			}
			path := filepath.Join(dir, fmt.Sprintf("in%d.%s", i, it.format))
			if it.file {
				if strings.HasSuffix(it.name, "File") && i%4 == 1 {
					path += ".gz"
					os.WriteFile(path, gzipBytes(x, 6), 0o644)
				} else {
					os.WriteFile(path, x, 0o644)
				}
			}
			k.Input("iterator", it.name)
			k.Input("alive_at_once", alive)
			var ref []item
			it.mk(x, path)(func(v item) bool { ref = append(ref, v); return len(ref) < 1000 })
			if len(ref) < 2 {
				return
			}
			fds0 := countFDs()
			type pulled struct {
				next func() (item, bool)
				stop func()
			}
			ps := make([]pulled, alive)
			for j := range ps {
				raw := it.mk(x, path)
				n, s := iter.Pull(func(yield func(item) bool) { raw(yield) })
				ps[j] = pulled{n, s}
			}
			for round := 0; round < 2; round++ {
				for jj := range ps {
					j := jj
					if round == 1 {
						j = len(ps) - 1 - jj
					}
					v, ok := ps[j].next()
					if !ok || v != ref[round] {
						k.Failf("many-alive", "%s: with %d iterations alive at once, item %d of iteration %d is %s (ok=%v), want %s", it.name, alive, round, j, v.String(), ok, ref[round].String())
						for _, p := range ps {
							p.stop()
						}
						return
					}
				}
			}
			for _, p := range ps {
				p.stop()
			}
			var again []item
			it.mk(x, path)(func(v item) bool { again = append(again, v); return len(again) < 1000 })
			if !sameTrace(again, ref) {
				k.Failf("many-alive", "%s: a complete run after %d stopped iterations differs from the first one", it.name, alive)
				return
			}
			if fds := countFDs(); it.file && fds0 >= 0 && fds > fds0 {
				k.Failf("fd-leak", "%s: %d more file descriptors open after %d stopped iterations than before", it.name, fds-fds0, alive)
				return
			}
			k.Count("iterations_alive_at_once", int64(alive))
			k.Count("stop_positions", int64(alive))
			k.Evals(int64(alive))
			k.Nontrivial([]byte("manyalive"), []byte(it.name))
		})
	}
}

// c18LivePipes: File on a named pipe whose writer is ALIVE — it has sent a few
// records and keeps its end open (a producer that streams as it computes). The
// consumer takes one, two or three items and stops. Stopping must return: an
// iterator that reads on after the stop (to "drain" the pipe, to look for the
// end) waits for a writer that has nothing more to say. Pinned by the watchdog
// (the cases take milliseconds).
func c18LivePipes(c *Ctx) {
	dir, err := os.MkdirTemp("", "c18-pipes-")
	if err != nil {
		return
	}
	defer os.RemoveAll(dir)
	idx := int64(0)
	for i, it := range c18Streams {
		if !it.file {
			continue
		}
		for take := 1; take <= 3; take++ {
			c.Case(idx, func(k *K) {
				r := k.Rand()
				var x []byte
				for try := 0; try < 50 && (len(x) < 40 || len(x) > 30000); try++ {
					x = wellFormed(r, it.format, 5+r.IntN(4))
				}
				var ref []item
				refName := strings.Replace(it.name, "File", "Reader", 1) // fasta.File -> fasta.Reader, sam.FileHeader -> sam.ReaderHeader
				for _, cand := range c18Streams {
					if cand.name == refName {
						cand.mk(x, "")(func(v item) bool { ref = append(ref, v); return len(ref) < 100 })
					}
				}
				if len(ref) <= take+1 {
					return
				}
				fifo := filepath.Join(dir, fmt.Sprintf("live%d-%d.%s", i, take, it.format))
				if syscall.Mkfifo(fifo, 0o600) != nil {
					return
				}
				release, done := make(chan struct{}), make(chan struct{})
				go func() {
					defer close(done)
					w, err := os.OpenFile(fifo, os.O_WRONLY, 0)
					if err != nil {
						return
					}
					w.Write(x)
					<-release // alive, silent, its end of the pipe open
					w.Close()
				}()
				k.Input("iterator", it.name)
				k.Input("items_taken_before_the_stop", take)
				var got []item
				it.mk(nil, fifo)(func(v item) bool {
					got = append(got, v)
					return len(got) < take
				})
				close(release)
				<-done
				if len(got) != take || !sameTrace(got, ref[:take]) {
					k.Failf("live-pipe", "%s on a named pipe with a live writer: the %d items before the stop are %s, want %s", it.name, take, traceString(got), traceString(ref[:take]))
					return
				}
				k.Count("stops_on_live_pipes", 1)
				k.Count("stop_positions", 1)
				k.Evals(1)
				k.Nontrivial([]byte("livepipe"), []byte(it.name), []byte{byte(take)})
			})
			idx++
		}
	}
}
