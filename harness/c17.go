package main

// C17 — MinHash sketches and Mash distance.

import (
	"bytes"
	"fmt"
	"math"
	"math/rand/v2"
	"runtime"
	"slices"
	"sort"

	"github.com/fluhus/biostuff/mash"
	"github.com/fluhus/gostuff/minhash"
)

// hashOracle learns the hash of a canonical upper-case k-mer from the
// implementation on a single-k-mer input (the statement fixes which k-mers
// are hashed and which values are kept, not the hash function).
type hashOracle struct{ memo map[string]uint64 }

func (h *hashOracle) hash(c []byte) uint64 {
	if v, ok := h.memo[string(c)]; ok {
		return v
	}
	view := mash.Sequences(1, len(c), c).View()
	if len(view) != 1 {
		panic(fmt.Sprintf("hash oracle: Sequences(1,%d,%q) has %d values", len(c), c, len(view)))
	}
	h.memo[string(c)] = view[0]
	return view[0]
}

// refSketch: the n smallest distinct hash values of the canonical upper-cased
// k-mers, in descending order.
func refSketch(h *hashOracle, n, k int, seqs [][]byte) []uint64 {
	set := map[uint64]bool{}
	for _, s := range seqs {
		up := bytes.ToUpper(s)
		for i := 0; i+k <= len(up); i++ {
			set[h.hash(refCanonical(up[i:i+k]))] = true
		}
	}
	vals := make([]uint64, 0, len(set))
	for v := range set {
		vals = append(vals, v)
	}
	sort.Slice(vals, func(i, j int) bool { return vals[i] < vals[j] })
	if len(vals) > n {
		vals = vals[:n]
	}
	for i, j := 0, len(vals)-1; i < j; i, j = i+1, j-1 {
		vals[i], vals[j] = vals[j], vals[i]
	}
	return vals
}

func sameU64(a, b []uint64) bool {
	if len(a) != len(b) {
		return false
	}
	for i := range a {
		if a[i] != b[i] {
			return false
		}
	}
	return true
}

func cloneSeqs(s [][]byte) [][]byte {
	out := make([][]byte, len(s))
	for i := range s {
		out[i] = append([]byte{}, s[i]...)
	}
	return out
}

func seqsString(s [][]byte) string {
	var b bytes.Buffer
	for i, x := range s {
		if i > 0 {
			b.WriteByte(' ')
		}
		fmt.Fprintf(&b, "%q", x)
	}
	return b.String()
}

func swapCase(r *rand.Rand, s []byte) []byte {
	out := append([]byte{}, s...)
	for i, c := range out {
		if r.IntN(2) == 0 {
			switch {
			case c >= 'a' && c <= 'z':
				out[i] = c - 32
			case c >= 'A' && c <= 'Z':
				out[i] = c + 32
			}
		}
	}
	return out
}

// repartition splits s into pieces that overlap by k-1 so that the k-mer
// content is unchanged.
func repartition(r *rand.Rand, s []byte, k int) [][]byte {
	if len(s) < k {
		return [][]byte{s}
	}
	var out [][]byte
	start := 0
	nk := len(s) - k + 1 // number of k-mers
	for start < nk {
		cnt := 1 + r.IntN(max(1, nk-start))
		if r.IntN(2) == 0 {
			cnt = min(cnt, 1+r.IntN(5))
		}
		end := start + cnt + k - 1
		out = append(out, s[start:end])
		start += cnt
	}
	return out
}

func init() {
	register(&Property{
		ID:    "C17",
		Level: "exploration",
		Rule: "1..5 DNA sequences over ACGTacgtNn of length 0..400 (incl. shorter than k), k in 1..32, sketch sizes n in {1,2,5,50,1000}: Sequences(n,k,...).View() compared with a brute-force bottom-n over canonical upper-cased k-mers (hash learned from single-k-mer inputs), " +
			"and re-computed after reverse-complementing a subset, changing case, permuting, re-partitioning with k-1 overlap and building incrementally with Add; smaller sketch = tail of larger; " +
			"pairs derived from a common ancestor by point mutation for Distance (symmetry, range, closed form on a brute-force Jaccard, 0 for equal content); FromJaccard on a 2001-point grid x k in 1..32; " +
			"non-trivial = input with at least 2 distinct k-mers; distinct by hash of (n,k,sequences)",
		Assumptions: []string{"mash.Seed keeps its default value", "the hash function itself is not specified by the statement: the oracle learns h(c) from Sequences(1,k,c) on single canonical upper-case k-mers",
			"Distance is checked for full sketches of equal size only, with tolerance 1e-12 on the closed form"},
		MinEvents: map[string]int64{"sketches_checked": 1000, "variants_checked": 4000, "distance_pairs": 200, "fromjaccard_points": 60000},
		Units: []Unit{
			{Name: "sketches", QShards: 2, TShards: 8, Run: c17Sketches},
			{Name: "distance", TShards: 4, Run: c17Distance},
			{Name: "long", QShards: 4, TShards: 12, Run: c17Long},
			{Name: "huge", QShards: 2, TShards: 4, Run: c17Huge},
			{Name: "seed", Run: c17Seed},
			{Name: "parallel", Race: true, Run: mashParallel},
			firstCallUnit(firstMash),
			firstParallelUnit(parMash),
			reuseUnit(reuseMash),
			{Name: "motifs", TShards: 4, Run: c17Motifs},
			{Name: "fromjaccard", Run: c17FromJaccard},
			{Name: "variants", TShards: 4, Run: c17Variants},
			{Name: "longk", Run: c17LongK},
			{Name: "edgeruns", TShards: 2, Run: c17EdgeRuns},
			{Name: "srcviews", Run: srcViewUnit(viewCallsC17)},
			{Name: "casemasks", Run: caseMaskUnit("ACGTN", 48, 140, func(k *K, v []byte) {
				kk := 1 + len(v)/4
				if got, want := mash.Sequences(20, kk, v).View(), mash.Sequences(20, kk, bytes.ToUpper(v)).View(); !sameU64(got, want) {
					k.Failf("sketch-variant", "Sequences(20,%d) of a soft-masked sequence differs from the sketch of its upper-case form: %v vs %v", kk, got, want)
				}
			})},
		},
	})
}

func genDNA(r *rand.Rand, n int) []byte {
	alpha := "ACGT"
	switch r.IntN(4) {
	case 0:
		alpha = "ACGTacgtNn"
	case 1:
		alpha = "ACGTacgt"
	case 2:
		alpha = "AC" // low complexity: many duplicate k-mers
	}
	return randSeq(r, []byte(alpha), n)
}

func c17Sketches(c *Ctx) {
	n := c.N(2500, 200000)
	for i := 0; i < n; i++ {
		c.Case(int64(i), func(k *K) {
			r := k.Rand()
			h := &hashOracle{memo: map[string]uint64{}}
			kk := 1 + r.IntN(32)
			if r.IntN(2) == 0 {
				kk = 1 + r.IntN(8)
			}
			if r.IntN(12) == 0 { // beyond one machine word of 2-bit codes
				kk = pick(r, []int{31, 32, 33, 63, 64, 65, 100})
			}
			size := pick(r, []int{1, 2, 5, 50, 1000})
			ns := 1 + r.IntN(5)
			var seqs [][]byte
			for j := 0; j < ns; j++ {
				l := r.IntN(401)
				switch r.IntN(6) {
				case 0:
					l = r.IntN(kk + 1) // shorter than or equal to k
				case 1:
					l = 0
				}
				seqs = append(seqs, genDNA(r, l))
			}
			k.Input("n", size)
			k.Input("k", kk)
			k.Input("seqs", func() string { return seqsString(seqs) })
			want := refSketch(h, size, kk, seqs)
			var ar *arenaT
			if k.Idx%2 == 1 { // the sequences as adjacent windows of one buffer
				ar = newArena(r, seqs...)
				seqs = ar.parts
			}
			orig := cloneSeqs(seqs)
			got := append([]uint64{}, mash.Sequences(size, kk, seqs...).View()...)
			if !sameU64(got, want) {
				k.Failf("sketch", "Sequences(%d,%d,...).View() = %v, brute-force bottom-%d of the canonical k-mers is %v", size, kk, got, size, want)
				return
			}
			for j := range seqs {
				if !bytes.Equal(seqs[j], orig[j]) {
					k.Failf("input-modified", "Sequences modified input sequence %d", j)
					return
				}
			}
			if ar != nil && arenaFail(k, ar, "mash.Sequences") {
				return
			}
			k.Count("sketches_checked", 1)
			variant := func(name string, vs [][]byte, build func() []uint64) bool {
				var v []uint64
				if build != nil {
					v = build()
				} else {
					v = mash.Sequences(size, kk, vs...).View()
				}
				k.Count("variants_checked", 1)
				k.Evals(1)
				if !sameU64(v, want) {
					k.Input("variant", name)
					if vs != nil {
						k.Input("variant_seqs", seqsString(vs))
					}
					k.Failf("sketch-variant", "sketch changes under %s: %v, original %v", name, v, want)
					return false
				}
				return true
			}
			// reverse complement of a subset
			rcs := cloneSeqs(seqs)
			for j := range rcs {
				if r.IntN(2) == 0 {
					rcs[j] = refRevComp(rcs[j])
				}
			}
			if !variant("reverse-complementing a subset", rcs, nil) {
				return
			}
			all := cloneSeqs(seqs)
			for j := range all {
				all[j] = refRevComp(all[j])
			}
			if !variant("reverse-complementing every sequence", all, nil) {
				return
			}
			cs := cloneSeqs(seqs)
			for j := range cs {
				cs[j] = swapCase(r, cs[j])
			}
			if !variant("changing letter case", cs, nil) {
				return
			}
			perm := cloneSeqs(seqs)
			r.Shuffle(len(perm), func(a, b int) { perm[a], perm[b] = perm[b], perm[a] })
			if !variant("reordering the sequences", perm, nil) {
				return
			}
			var parts [][]byte
			for _, s := range seqs {
				parts = append(parts, repartition(r, s, kk)...)
			}
			if !variant("re-partitioning with k-1 overlap", parts, nil) {
				return
			}
			// incremental Add in 1..4 increments
			if !variant("building incrementally with Add", nil, func() []uint64 {
				mh := minhash.New[uint64](size)
				incs := 1 + r.IntN(4)
				bounds := []int{0}
				for j := 1; j < incs; j++ {
					bounds = append(bounds, r.IntN(len(parts)+1))
				}
				bounds = append(bounds, len(parts))
				sort.Ints(bounds)
				for j := 0; j+1 < len(bounds); j++ {
					mash.Add(mh, kk, parts[bounds[j]:bounds[j+1]]...)
				}
				return mh.View()
			}) {
				return
			}
			// a smaller sketch is the tail of a larger one
			for _, n1 := range []int{1, 2, 5, 50} {
				if n1 >= size {
					continue
				}
				small := mash.Sequences(n1, kk, seqs...).View()
				tail := want[max(0, len(want)-n1):]
				k.Count("tail_checked", 1)
				if !sameU64(small, tail) {
					k.Failf("sketch-tail", "sketch of size %d = %v is not the tail %v of the size-%d sketch", n1, small, tail, size)
					return
				}
			}
			if len(h.memo) >= 2 {
				k.Nontrivial([]byte(fmt.Sprint(size, kk)), []byte(seqsString(seqs)))
			}
			k.Count("distinct_kmers_seen", int64(len(h.memo)))
			if len(want) == size {
				k.Count("full_sketches", 1)
			}
		})
	}
}

func mutateDNA(r *rand.Rand, s []byte, rate float64) []byte {
	out := append([]byte{}, s...)
	for i := range out {
		if r.Float64() < rate {
			out[i] = "ACGT"[r.IntN(4)]
		}
	}
	return out
}

func closedForm(j float64, k int) float64 {
	if j == 0 {
		return 1
	}
	return math.Min(1, -math.Log(2*j/(1+j))/float64(k))
}

func c17Distance(c *Ctx) {
	n := c.N(1000, 80000)
	for i := 0; i < n; i++ {
		c.Case(int64(i), func(k *K) {
			r := k.Rand()
			kk := pick(r, []int{4, 8, 11, 16, 21, 32, 1 + r.IntN(32)})
			size := pick(r, []int{1, 5, 20, 100})
			l := 200 + r.IntN(1500)
			anc := randSeq(r, []byte("ACGT"), l)
			rate := pick(r, []float64{0, 0.001, 0.01, 0.05, 0.2, 1})
			a := anc
			b := mutateDNA(r, anc, rate)
			if r.IntN(8) == 0 {
				b = randSeq(r, []byte("ACGT"), l)
			}
			if r.IntN(3) == 0 {
				b = refRevComp(b)
			}
			k.Input("k", kk)
			k.Input("n", size)
			k.Input("a", a)
			k.Input("b", b)
			x := mash.Sequences(size, kk, a)
			y := mash.Sequences(size, kk, b)
			xv, yv := append([]uint64{}, x.View()...), append([]uint64{}, y.View()...)
			if len(xv) != size || len(yv) != size {
				k.Count("distance_skipped_not_full", 1)
				return
			}
			// brute-force Jaccard on the two views
			inA, inB := map[uint64]bool{}, map[uint64]bool{}
			var union []uint64
			for _, v := range xv {
				inA[v] = true
				union = append(union, v)
			}
			for _, v := range yv {
				inB[v] = true
				if !inA[v] {
					union = append(union, v)
				}
			}
			sort.Slice(union, func(p, q int) bool { return union[p] < union[q] })
			shared := 0
			for _, v := range union[:size] {
				if inA[v] && inB[v] {
					shared++
				}
			}
			j := float64(shared) / float64(size)
			want := closedForm(j, kk)
			dxy := mash.Distance(x, y, kk)
			dyx := mash.Distance(y, x, kk)
			switch {
			case dxy != dyx:
				k.Failf("distance-asymmetric", "Distance(x,y)=%v, Distance(y,x)=%v", dxy, dyx)
			case !(dxy >= 0 && dxy <= 1):
				k.Failf("distance-range", "Distance = %v is outside [0,1]", dxy)
			case math.Abs(dxy-want) > 1e-12:
				k.Failf("distance-formula", "Distance = %v, closed form on the brute-force Jaccard %d/%d gives %v", dxy, shared, size, want)
			}
			if j == 0 && dxy != 1 {
				k.Failf("distance-j0", "no shared values but Distance = %v, want 1", dxy)
			}
			// identical k-mer content: the sequence against its reverse complement and itself
			z := mash.Sequences(size, kk, refRevComp(a))
			if d := mash.Distance(x, z, kk); d != 0 {
				k.Failf("distance-identical", "Distance between a sequence and its reverse complement = %v, want 0", d)
			}
			if d := mash.Distance(x, x, kk); d != 0 {
				k.Failf("distance-identical", "Distance(x,x) = %v, want 0", d)
			}
			// the same sketches in the other forms a caller may hold them in: frozen (the immutable, compact form
			// the minhash package offers for all-against-all comparisons), rebuilt from their JSON form
			fx, fy := x.Frozen(), y.Frozen()
			for _, pr := range [][2]any{{fx, fy}, {fx, y}, {x, fy}} {
				var d float64
				if p := catch(func() { d = mash.Distance(pr[0].(*minhash.MinHash[uint64]), pr[1].(*minhash.MinHash[uint64]), kk) }); p != nil {
					k.Failf("distance-frozen", "Distance panics when one of the sketches is frozen: %v", p)
					break
				}
				if d != dxy {
					k.Failf("distance-frozen", "Distance = %v when one of the sketches is frozen, %v on the live sketches", d, dxy)
					break
				}
			}
			k.Count("distance_on_frozen_sketches", 3)
			if !sameU64(x.View(), xv) || !sameU64(y.View(), yv) {
				k.Failf("distance-modifies-sketch", "Distance modified a sketch")
			}
			k.Count("distance_pairs", 1)
			k.Count(fmt.Sprintf("jaccard_bucket_%d", int(j*4)), 1)
			k.Nontrivial(a, b, []byte(fmt.Sprint(kk, size)))
		})
	}
}

func c17FromJaccard(c *Ctx) {
	for kk := 1; kk <= 32; kk++ {
		c.Case(int64(kk), func(k *K) {
			prev := math.Inf(1)
			k.Input("k", kk)
			for g := 0; g <= 2000; g++ {
				j := float64(g) / 2000
				d := mash.FromJaccard(j, kk)
				want := closedForm(j, kk)
				if math.Abs(d-want) > 1e-12 || math.IsNaN(d) {
					k.Failf("fromjaccard-formula", "FromJaccard(%v,%d) = %v, closed form %v", j, kk, d, want)
					return
				}
				if d > prev {
					k.Failf("fromjaccard-monotone", "FromJaccard(%v,%d) = %v is above its value %v at the previous grid point", j, kk, d, prev)
					return
				}
				if g == 0 && d != 1 {
					k.Failf("fromjaccard-zero", "FromJaccard(0,%d) = %v, want 1", kk, d)
					return
				}
				if !(d >= 0 && d <= 1) {
					k.Failf("fromjaccard-range", "FromJaccard(%v,%d) = %v outside [0,1]", j, kk, d)
					return
				}
				prev = d
				k.Count("fromjaccard_points", 1)
			}
			k.Evals(2000)
			k.DistinctBC(2001)
		})
	}
	// extreme arguments: j from the smallest subnormal to 1 - 2^-53, k up to 5000 — only what is stated for them:
	// non-increasing in j, within [0,1], never NaN (the formula itself is checked on the grid above)
	c.Case(1000, func(k *K) {
		js := []float64{0, 5e-324, 1e-320, 1e-310, 2.3e-308, 1e-300, 1e-200, 1e-100, 1e-30, 1e-17, 1e-9, 0.001, 0.25, 0.5, 0.999, 1 - 1e-16, 1}
		for _, kk := range []int{1, 2, 21, 32, 100, 709, 710, 711, 1000, 5000, 1 << 20} {
			prev := math.Inf(1)
			for _, j := range js {
				d := mash.FromJaccard(j, kk)
				if math.IsNaN(d) || d < 0 || d > 1 {
					k.Failf("fromjaccard-range", "FromJaccard(%v,%d) = %v outside [0,1]", j, kk, d)
					return
				}
				if d > prev {
					k.Failf("fromjaccard-monotone", "FromJaccard(%v,%d) = %v is above its value %v at a smaller j", j, kk, d, prev)
					return
				}
				prev = d
				k.Count("fromjaccard_points", 1)
				k.Evals(1)
			}
		}
	})
	c.Exhaustive("fromjaccard: 2001-point grid of j in [0,1] x k in 1..32")
}

// c17Long: sequences much longer than typical reads (16 Ki .. 140 Ki bases,
// lengths around powers of two), k large enough that k-mers are mostly unique,
// and sketches large enough to keep every k-mer, so that a single k-mer lost
// at an internal chunk boundary shows.
func c17Long(c *Ctx) {
	n := c.N(8, 240)
	for i := 0; i < n; i++ {
		c.Case(int64(i), func(k *K) {
			r := k.Rand()
			h := &hashOracle{memo: map[string]uint64{}}
			kk := 10 + r.IntN(23)
			l := pick(r, []int{16383, 16384, 16385, 16400, 20000, 32767, 32768, 32800, 40000, 65536, 65600, 70000, 140000}) + r.IntN(3)*kk
			size := pick(r, []int{1000, 200000})
			seq := randSeq(r, []byte("ACGT"), l)
			if r.IntN(4) == 0 {
				seq = swapCase(r, seq)
			}
			seqs := [][]byte{seq}
			if r.IntN(3) == 0 {
				seqs = append(seqs, randSeq(r, []byte("ACGT"), r.IntN(300)))
			}
			k.Input("n", size)
			k.Input("k", kk)
			k.Input("sequence_lengths", fmt.Sprint(len(seqs[0]), len(seqs)))
			want := refSketch(h, size, kk, seqs)
			got := append([]uint64{}, mash.Sequences(size, kk, seqs...).View()...)
			if !sameU64(got, want) {
				k.Input("seq_b64", b64(seq))
				k.Failf("sketch-long", "Sequences(%d,%d, sequence of %d bases).View() has %d values, brute-force bottom-n has %d; they differ", size, kk, l, len(got), len(want))
				return
			}
			rc := [][]byte{refRevComp(seq)}
			rc = append(rc, seqs[1:]...)
			if v := mash.Sequences(size, kk, rc...).View(); !sameU64(v, want) {
				k.Failf("sketch-variant", "sketch of a %d-base sequence changes under reverse complement", l)
				return
			}
			var parts [][]byte
			for _, s := range seqs {
				parts = append(parts, repartition(r, s, kk)...)
			}
			if v := mash.Sequences(size, kk, parts...).View(); !sameU64(v, want) {
				k.Failf("sketch-variant", "sketch of a %d-base sequence changes under re-partitioning with k-1 overlap", l)
				return
			}
			k.Count("sketches_checked", 1)
			k.Count("long_sequences_checked", 1)
			k.Count("variants_checked", 2)
			k.Nontrivial([]byte(fmt.Sprint(size, kk, l)), seq[:64])
		})
	}
}

// c17Motifs: sequences built around the motifs on which strand normalisation
// is decided late or not at all — perfect inverted repeats (hairpins: an arm,
// one middle base, the arm's reverse complement), even-length reverse
// palindromes, tandem repeats, homopolymer and N runs — with k chosen so that
// a k-mer spans exactly the motif (odd k up to 129, arms longer than any prefix
// a comparison might shortcut on). Random DNA contains none of these.
//
// genMotif returns a motif and the k at which a k-mer spans it: hairpins (an
// arm, a loop of 1..9 bases, the arm's reverse complement), even-length reverse
// palindromes — exact, or with one base changed somewhere —, tandem repeats of
// a short unit (among them (AT)n with a point mutation), homopolymer arms.
// Arms of 1 … 130 bases: a comparison that looks at a prefix of 8, 16, 32 or
// 64 bases (a machine word, a packed register) and decides ties on the rest
// meets its tie exactly here, and nowhere in random DNA.
func genMotif(r *rand.Rand, i int, alpha string) (motif []byte, kk int) {
	arm := pick(r, []int{1, 2, 7, 8, 9, 15, 16, 17, 20, 31, 32, 33, 40, 63, 64, 65, 100, 130})
	armSeq := randSeq(r, []byte("ACGT"), arm)
	if r.IntN(6) == 0 {
		armSeq = bytes.Repeat([]byte{pick(r, []byte(alpha))}, arm)
	}
	switch i % 5 {
	case 0, 1: // hairpin with a loop; k spans arm + loop + arm
		loop := randSeq(r, []byte(alpha+"acgtn"), 1+r.IntN(3)*r.IntN(4))
		motif = append(append(append([]byte{}, armSeq...), loop...), refRevComp(armSeq)...)
		kk = 2*arm + len(loop)
	case 2: // reverse palindrome, even k
		motif = append(append([]byte{}, armSeq...), refRevComp(armSeq)...)
		kk = 2 * arm
	case 3: // reverse palindrome with one base changed
		motif = append(append([]byte{}, armSeq...), refRevComp(armSeq)...)
		motif[r.IntN(len(motif))] = pick(r, []byte("ACGT"))
		kk = 2 * arm
	default: // tandem repeat of a short unit (every other time "AT"), any k, possibly one base changed
		unit := randSeq(r, []byte("ACGT"), 1+r.IntN(4))
		if r.IntN(2) == 0 {
			unit = []byte("AT")
		}
		motif = bytes.Repeat(unit, 3+(2*arm)/len(unit))
		if r.IntN(2) == 0 {
			motif[r.IntN(len(motif))] = pick(r, []byte("ACGT"))
		}
		kk = 1 + r.IntN(2*arm+1)
	}
	if r.IntN(3) == 0 && kk > 2 {
		kk -= 2 * r.IntN(min(3, kk/2)) // a k-mer inside the motif, sharing its centre
	}
	return motif, kk
}

func c17Motifs(c *Ctx) {
	n := c.N(300, 6000)
	for i := 0; i < n; i++ {
		c.Case(int64(i), func(k *K) {
			r := k.Rand()
			h := &hashOracle{memo: map[string]uint64{}}
			motif, kk := genMotif(r, i, "ACGTN")
			left, right := genDNA(r, r.IntN(60)), genDNA(r, r.IntN(60))
			seq := append(append(append([]byte{}, left...), motif...), right...)
			if r.IntN(2) == 0 {
				seq = refRevComp(seq) // the other strand first
			}
			size := pick(r, []int{1, 3, 1000})
			seqs := [][]byte{seq}
			k.Input("n", size)
			k.Input("k", kk)
			k.Input("motif", motif)
			k.Input("seqs", func() string { return seqsString(seqs) })
			want := refSketch(h, size, kk, seqs)
			got := append([]uint64{}, mash.Sequences(size, kk, seq).View()...)
			if !sameU64(got, want) {
				k.Failf("sketch", "Sequences(%d,%d,...) on a sequence built around the motif %.80q = %v, brute-force bottom-%d of the canonical k-mers is %v", size, kk, motif, got, size, want)
				return
			}
			rc := mash.Sequences(size, kk, refRevComp(seq)).View()
			if !sameU64(rc, want) {
				k.Failf("sketch-variant", "the sketch of the reverse complement differs: %v vs %v", rc, want)
				return
			}
			if d := mash.Distance(mash.Sequences(size, kk, seq), mash.Sequences(size, kk, refRevComp(bytes.ToLower(seq))), kk); len(want) == size && d != 0 {
				k.Failf("distance-identical", "Distance between a sequence and its lower-case reverse complement = %v, want 0", d)
				return
			}
			k.Count("sketches_checked", 2)
			k.Count("motif_cases", 1)
			k.Evals(2)
			k.Nontrivial(seq, []byte{byte(kk), byte(size)})
		})
	}
}

// c17Huge: calls whose sequences hold 2^20 bases and more IN ALL (one long
// sequence, a few long ones, thousands of short ones), in mixed case with Ns —
// the sizes at which a sketching routine would split the work. Too large for
// the brute-force reference; compared metamorphically: upper-cased input,
// reverse-complemented input, the sequences one Add at a time, in another
// order, and a smaller sketch as the tail of the larger one.
func c17Huge(c *Ctx) {
	layouts := [][]int{{1<<20 + 7}, {1 << 19, 1 << 19, 40}, {700000, 300, 400000}}
	if c.Thorough {
		layouts = append(layouts, []int{1 << 21, 1 << 21}, []int{3 << 20})
	}
	many := make([]int, 3000)
	for i := range many {
		many[i] = 300 + i%100
	}
	layouts = append(layouts, many)
	for i, lay := range layouts {
		c.Case(int64(i), func(k *K) {
			r := k.Rand()
			kk := pick(r, []int{15, 21, 31, 32, 33})
			var seqs, upper, rcs [][]byte
			total := 0
			for _, l := range lay {
				s := randSeq(r, []byte("ACGTacgtACGTacgtNn"), l)
				seqs, upper, rcs = append(seqs, s), append(upper, bytes.ToUpper(s)), append(rcs, refRevComp(s))
				total += l
			}
			k.Input("k", kk)
			k.Input("sequences", len(seqs))
			k.Input("bases_in_all", total)
			want := append([]uint64{}, mash.Sequences(1000, kk, upper...).View()...)
			variants := map[string]func() []uint64{
				"the mixed-case form of the sequences":     func() []uint64 { return mash.Sequences(1000, kk, seqs...).View() },
				"the reverse complements of the sequences": func() []uint64 { return mash.Sequences(1000, kk, rcs...).View() },
				"the sequences added one Add call at a time": func() []uint64 {
					mh := mash.Sequences(1000, kk)
					for _, s := range seqs {
						mash.Add(mh, kk, s)
					}
					return mh.View()
				},
				"the sequences in reverse order": func() []uint64 {
					rev := append([][]byte{}, seqs...)
					slices.Reverse(rev)
					return mash.Sequences(1000, kk, rev...).View()
				},
				"the first sequence in one call, the others in a second Add": func() []uint64 {
					mh := mash.Sequences(1000, kk, seqs[0])
					mash.Add(mh, kk, seqs[1:]...)
					return mh.View()
				},
			}
			for what, f := range variants {
				if got := f(); !sameU64(got, want) {
					k.Failf("sketch-variant", "%d sequences with %d bases in all (k=%d): the sketch of %s differs from the sketch of their upper-case form", len(seqs), total, kk, what)
					return
				}
				k.Count("variants_checked", 1)
			}
			if small := mash.Sequences(100, kk, seqs...).View(); !sameU64(small, want[len(want)-100:]) {
				k.Failf("sketch-variant", "a sketch of 100 values is not the tail of the sketch of 1000 values (%d bases in all)", total)
				return
			}
			k.Count("huge_calls_checked", 1)
			k.Nontrivial([]byte(fmt.Sprint("huge", lay[0], len(lay), kk)))
		})
	}
}

// c17Seed: mash.Seed is an exported setting; a caller may set it (once, at
// start-up, or between batches). Whatever it is set to, the laws of the
// statement hold under it: the same content gives the same sketch however often
// and however it is computed — also after garbage collections, which empty
// whatever pools the library keeps, and after the seed was different before.
// The seed is restored at the end of every case.
func c17Seed(c *Ctx) {
	n := c.N(12, 200)
	for i := 0; i < n; i++ {
		c.Case(int64(i), func(k *K) {
			r := k.Rand()
			old := mash.Seed
			defer func() { mash.Seed = old }()
			seq := randSeq(r, []byte("ACGTacgtN"), 300+r.IntN(3000))
			kk := pick(r, []int{7, 15, 21, 31})
			size := pick(r, []int{10, 200})
			sketch := func() []uint64 { return append([]uint64{}, mash.Sequences(size, kk, seq).View()...) }
			byAdd := func() []uint64 {
				mh := mash.Sequences(size, kk, seq[:len(seq)/2+kk-1])
				mash.Add(mh, kk, seq[len(seq)/2:])
				return append([]uint64{}, mh.View()...)
			}
			first := sketch() // under the seed the process started with
			for round := 0; round < 3; round++ {
				mash.Seed = uint32(r.Uint64())
				k.Input("seed", mash.Seed)
				a := sketch()
				runtime.GC()
				runtime.GC()
				b := sketch()
				cc := byAdd()
				d := append([]uint64{}, mash.Sequences(size, kk, refRevComp(seq)).View()...)
				switch {
				case !sameU64(a, b):
					k.Failf("sketch-variant", "with Seed = %d the same sequence gives two different sketches before and after a garbage collection", mash.Seed)
					return
				case !sameU64(a, cc):
					k.Failf("sketch-variant", "with Seed = %d the sketch built with Add differs from the one built in one call", mash.Seed)
					return
				case !sameU64(a, d):
					k.Failf("sketch-variant", "with Seed = %d the sketch of the reverse complement differs", mash.Seed)
					return
				}
				if dd := mash.Distance(mash.Sequences(size, kk, seq), mash.Sequences(size, kk, seq), kk); len(a) == size && dd != 0 {
					k.Failf("distance-identical", "with Seed = %d the distance of a sequence to itself is %v", mash.Seed, dd)
					return
				}
				k.Count("seeds_tried", 1)
			}
			mash.Seed = old
			runtime.GC()
			if again := sketch(); !sameU64(again, first) {
				k.Failf("sketch-variant", "after Seed was changed and set back, the same sequence gives a different sketch than before")
				return
			}
			k.Nontrivial(seq[:32], []byte(fmt.Sprint(kk, size, i)))
		})
	}
}

// c17Variants: FAMILIES of near-identical sequences in one call — a sequence
// followed by a copy with one substituted base (at EVERY position in turn), by
// a copy in another case, by its reverse complement, by a copy one base
// shorter/longer — as variant calls, amplicons and resequenced strains are.
// Anything that recognises "the same sequence again" to save work must do so
// exactly.
func c17Variants(c *Ctx) {
	n := c.N(120, 3000)
	for i := 0; i < n; i++ {
		c.Case(int64(i), func(k *K) {
			r := k.Rand()
			h := &hashOracle{memo: map[string]uint64{}}
			l := pick(r, []int{8, 9, 15, 16, 17, 24, 31, 32, 33, 40, 64, 65, 100})
			kk := 1 + r.IntN(min(l, 12))
			size := pick(r, []int{2, 50, 1000})
			base := randSeq(r, []byte("ACGT"), l)
			if i%3 == 1 {
				base = randSeq(r, []byte("ACGTacgtN"), l)
			}
			k.Input("n", size)
			k.Input("k", kk)
			for pos := -3; pos < l; pos++ {
				v := append([]byte{}, base...)
				switch pos {
				case -3:
					v = bytes.ToLower(v)
				case -2:
					v = v[:l-1]
				case -1:
					v = append(v, 'G')
				default:
					v[pos] = "ACGT"[(bytes.IndexByte([]byte("ACGT"), bytes.ToUpper(v[pos : pos+1])[0])+1+r.IntN(3))&3]
				}
				seqs := [][]byte{base, v}
				if r.IntN(3) == 0 {
					seqs = [][]byte{base, base, v, base}
				}
				want := refSketch(h, size, kk, seqs)
				got := append([]uint64{}, mash.Sequences(size, kk, cloneSeqs(seqs)...).View()...)
				if !sameU64(got, want) {
					k.Input("seqs", seqsString(seqs))
					k.Failf("sketch", "Sequences(%d,%d) of a sequence of %d bases and a copy that differs at position %d = %v, brute-force bottom-%d of the canonical k-mers of all of them is %v", size, kk, l, pos, got, size, want)
					return
				}
				m := mash.Sequences(size, kk)
				mash.Add(m, kk, cloneSeqs(seqs)...)
				if !sameU64(m.View(), want) {
					k.Input("seqs", seqsString(seqs))
					k.Failf("sketch-variant", "New(%d,%d).Add of a sequence of %d bases and a copy that differs at position %d = %v, want %v", size, kk, l, pos, m.View(), want)
					return
				}
				k.Count("sketches_checked", 2)
				k.Count("variant_families", 1)
				k.Evals(2)
			}
			k.Nontrivial(base, []byte{byte(kk), byte(size)})
		})
	}
}

// c17LongK: k as long as, and longer than, a LONG sequence (2^18 … 2^20 bases:
// where a sketching routine may switch to a bulk path sized from len(seq)-k+1).
// A sequence shorter than k holds no k-mer and contributes nothing — whatever
// its length; with k = len it holds one, with k = len-1 two.
func c17LongK(c *Ctx) {
	lens := []int{1<<18 - 1, 1<<18 + 5, 1<<20 + 3}
	if c.Thorough {
		lens = append(lens, 1<<16+1, 1<<17, 1<<19+9, 1<<22+1)
	}
	for i, l := range lens {
		c.Case(int64(i), func(k *K) {
			r := k.Rand()
			h := &hashOracle{memo: map[string]uint64{}}
			long := randSeq(r, []byte("ACGT"), l)
			short := randSeq(r, []byte("ACGTacgt"), 40)
			k.Input("long_sequence_length", l)
			for _, kk := range []int{l + 2, l + 1, l, l - 1, 2 * l, l + 1<<20} {
				for _, order := range [][][]byte{{short, long}, {long, short}, {long}} {
					var got []uint64
					if pv := catch(func() { got = append([]uint64{}, mash.Sequences(5, kk, cloneSeqs(order)...).View()...) }); pv != nil {
						k.Input("k", kk)
						k.Failf("panic", "Sequences(5, k=%d, ...) with a sequence of %d bases (k - len = %d) panicked: %v", kk, l, kk-l, pv)
						return
					}
					want := refSketch(h, 5, kk, order)
					if !sameU64(got, want) {
						k.Input("k", kk)
						k.Failf("sketch", "Sequences(5, k=%d, ...) with a sequence of %d bases = %v, want %v (the k-mers of length k that exist)", kk, l, got, want)
						return
					}
					k.Count("sketches_checked", 1)
					k.Count("long_k_sketches", 1)
					k.Evals(1)
				}
			}
			k.Nontrivial([]byte(fmt.Sprint("longk", l)))
		})
	}
}

// c17EdgeRuns: several sequences in ONE call whose ends are runs of one symbol —
// contigs that end in N and start with N (assembly gaps at scaffold breaks),
// poly-A tails followed by poly-A heads. Whatever a sketching loop remembers
// about the run it is in (to skip repeated k-mers) belongs to one sequence. For
// every k = 1..6 (thorough 9), every tail length 0..k+2 and head length
// 0..2k+2, against the brute-force sketch, in both orders and one Add each.
func c17EdgeRuns(c *Ctx) {
	maxK := c.N(6, 9)
	idx := int64(0)
	for kk := 1; kk <= maxK; kk++ {
		for _, sym := range []byte("NAn") {
			c.Case(idx, func(k *K) {
				r := k.Rand()
				h := &hashOracle{memo: map[string]uint64{}}
				k.Input("k", kk)
				k.Input("run_symbol", string(sym))
				for tail := 0; tail <= kk+2; tail++ {
					for head := 0; head <= 2*kk+2; head++ {
						s1 := append(randSeq(r, []byte("ACGT"), 4+r.IntN(8)), bytes.Repeat([]byte{sym}, tail)...)
						s2 := append(bytes.Repeat([]byte{sym}, head), randSeq(r, []byte("ACGT"), 4+r.IntN(8))...)
						seqs := [][]byte{s1, s2}
						if r.IntN(3) == 0 {
							seqs = append(seqs, bytes.Repeat([]byte{sym}, r.IntN(2*kk+2)), s1)
						}
						want := refSketch(h, 1000, kk, seqs)
						got := append([]uint64{}, mash.Sequences(1000, kk, cloneSeqs(seqs)...).View()...)
						if !sameU64(got, want) {
							k.Input("seqs", seqsString(seqs))
							k.Failf("sketch", "Sequences(1000,%d,...) of sequences that end in %d and start with %d %q: %d values, brute force over all k-mers of all sequences gives %d", kk, tail, head, sym, len(got), len(want))
							return
						}
						m := mash.Sequences(1000, kk)
						for j := len(seqs) - 1; j >= 0; j-- {
							mash.Add(m, kk, append([]byte{}, seqs[j]...))
						}
						if !sameU64(m.View(), want) {
							k.Input("seqs", seqsString(seqs))
							k.Failf("sketch-variant", "the same sequences added one Add at a time in reverse order give another sketch")
							return
						}
						k.Count("sketches_checked", 2)
						k.Count("edge_run_calls", 1)
						k.Evals(2)
					}
				}
				k.Nontrivial([]byte(fmt.Sprint("edgeruns", kk, sym)))
			})
			idx++
		}
	}
}
