package main

// C06 — delivery independence; File == Reader.

import (
	"bytes"
	"compress/gzip"
	"fmt"
	"math/rand/v2"
	"os"
	"path/filepath"
	"sort"
	"syscall"
)

var c06Formats = []string{"fasta", "fastq", "sam", "samh", "bed", "newick"}

func init() {
	register(&Property{
		ID:    "C06",
		Level: "exploration",
		Rule: "for each of the six iterators (fasta, fastq, sam.Reader, sam.ReaderHeader, bed, newick): inputs = well-formed files, mutated near-valid files and raw bytes; the item trace (records by content, errors by presence) under bytes.Reader is compared with the trace under " +
			"1-byte reads, a two-chunk split at every offset, every partition of short inputs, random chunk sizes and buffer-edge chunk sizes (4095..4097, 65535..65537) on large inputs, each with the last chunk delivered with and without io.EOF; " +
			"LF vs CRLF renderings of well-formed text; File(path) on a plain and a gzip file vs Reader on the bytes, and File on a missing path; " +
			"one line of 2^e+d bytes (e up to 24 quick / 25 thorough) under LF/CRLF, chunked delivery, cut after the line, File plain/gz; " +
			"non-trivial = a schedule in which some chunk boundary falls strictly inside a line, or a File configuration; distinct by hash of (format, input, schedule)",
		Assumptions: []string{"errors are compared by presence and position, not by text", "CRLF conversion is applied only to line terminators of well-formed text (fields contain no CR/LF; Newick names free of CR/LF)"},
		MinEvents:   map[string]int64{"schedules": 5000, "boundary_inside_line": 1000, "file_plain": 60, "file_gz": 60, "file_missing": 6, "crlf_pairs": 100, "partitions": 1000},
		Units: []Unit{
			{Name: "schedules", QShards: 8, TShards: 12, Run: c06Schedules},
			{Name: "partitions", QShards: 2, TShards: 8, Run: c06Partitions},
			{Name: "large", QShards: 2, TShards: 6, Run: c06Large},
			{Name: "crlf", TShards: 2, Run: c06CRLF},
			{Name: "files", TShards: 4, Run: c06Files},
			{Name: "huge", QShards: 16, TShards: 16, Run: c06Huge},
			{Name: "histories", QShards: 2, TShards: 6, Run: codecHistories(c06Formats...)},
			{Name: "readerzoo", QShards: 8, TShards: 10, Run: c06ReaderZoo},
			{Name: "bigfiles", QShards: 3, TShards: 6, Run: c06BigFiles},
			{Name: "parallel", Race: true, TShards: 2, Run: c06Parallel},
			{Name: "prefixes", Run: func(c *Ctx) {
				for i, f := range c06Formats {
					prefixUnit(f, true, int64(i)*1000)(c)
				}
			}},
		},
	})
}

// insideLine reports whether offset off (0<off<len) falls strictly inside a line.
func insideLine(x []byte, off int) bool {
	return off > 0 && off < len(x) && x[off-1] != '\n' && x[off] != '\n'
}

// compareSchedule decodes x under a scheduled reader and compares with ref.
func compareSchedule(k *K, cd *codec, x []byte, ref []item, sizes []int, eofWith bool, what string) bool {
	return compareScheduleE(k, cd, x, ref, sizes, eofWith, 0, what)
}

func compareScheduleE(k *K, cd *codec, x []byte, ref []item, sizes []int, eofWith bool, empties int, what string) bool {
	sr := &schedReader{data: x, sizes: sizes, eofWith: eofWith, empties: empties}
	got, over := collect(cd.seq(sr), len(x)+8)
	k.Count("schedules", 1)
	if over || !sameTrace(got, ref) {
		k.Input("schedule", fmt.Sprintf("%s eofWithData=%v", what, eofWith))
		k.Failf("schedule-dependence", "%s: trace under schedule [%s, eofWithData=%v] differs from the trace under bytes.Reader:\n got  %s\n want %s",
			cd.name, what, eofWith, traceString(got), traceString(ref))
		return false
	}
	return true
}

func c06Input(r *rand.Rand, format string) []byte {
	f := format
	if f == "samh" {
		f = "sam"
	}
	switch r.IntN(3) {
	case 0:
		return wellFormed(r, f, 0)
	default:
		return nearValid(r, f)
	}
}

func c06Schedules(c *Ctx) {
	per := c.N(150, 3000)
	idx := int64(0)
	for _, f := range c06Formats {
		cd := codecByName(f)
		for i := 0; i < per; i++ {
			c.Case(idx, func(k *K) {
				r := k.Rand()
				x := c06Input(r, f)
				if len(x) > 1500 {
					x = x[:1500]
				}
				k.Input("format", f)
				k.Input("input", func() string { return describeText(x) })
				ref, over := collect(cd.seq(bytes.NewReader(x)), len(x)+8)
				if over {
					k.Failf("unbounded", "%s: more than len(input)+8 items from %d bytes", f, len(x))
					return
				}
				k.Count("inputs", 1)
				for _, it := range ref {
					if it.Err {
						k.Count("inputs_with_error_items", 1)
						break
					}
				}
				inside := false
				for _, eofWith := range []bool{false, true} {
					if !compareSchedule(k, cd, x, ref, []int{1}, eofWith, "1-byte reads") {
						return
					}
					// two-chunk split at every offset
					for off := 0; off <= len(x); off++ {
						if !compareSchedule(k, cd, x, ref, []int{max(off, 1), len(x) + 1}, eofWith, fmt.Sprintf("split at %d", off)) {
							return
						}
						k.Evals(1)
						if insideLine(x, off) {
							inside = true
							k.Count("boundary_inside_line", 1)
						}
					}
					// random chunk sizes
					for j := 0; j < 6; j++ {
						sizes := make([]int, 1+r.IntN(5))
						for s := range sizes {
							sizes[s] = 1 + r.IntN(1+r.IntN(40))
						}
						if !compareSchedule(k, cd, x, ref, sizes, eofWith, fmt.Sprintf("chunks %v cycled", sizes)) {
							return
						}
						k.Evals(1)
						// the same schedule with an occasional (0, nil) read in between
						if j < 2 {
							e := 2 + r.IntN(4)
							if !compareScheduleE(k, cd, x, ref, sizes, eofWith, e, fmt.Sprintf("chunks %v cycled, every %dth read returns (0,nil)", sizes, e)) {
								return
							}
							k.Count("schedules_with_empty_reads", 1)
							k.Evals(1)
						}
					}
				}
				k.Count("two_chunk_splits", int64(2*(len(x)+1)))
				if inside {
					k.Nontrivial([]byte(f), x)
				}
			})
			idx++
		}
	}
}

// c06Partitions enumerates every partition of short inputs into successive reads.
func c06Partitions(c *Ctx) {
	maxLen := c.N(12, 16)
	per := c.N(6, 12)
	idx := int64(0)
	for _, f := range c06Formats {
		cd := codecByName(f)
		for i := 0; i < per; i++ {
			c.Case(idx, func(k *K) {
				r := k.Rand()
				var x []byte
				for tries := 0; tries < 50; tries++ {
					x = shortInput(r, f, maxLen)
					if len(x) >= 6 {
						break
					}
				}
				k.Input("format", f)
				k.Input("input", func() string { return describeText(x) })
				ref, _ := collect(cd.seq(bytes.NewReader(x)), len(x)+8)
				n := len(x)
				if n == 0 {
					return
				}
				total := 1 << (n - 1)
				for mask := 0; mask < total; mask++ {
					var sizes []int
					run := 1
					for b := 0; b < n-1; b++ {
						if mask&(1<<b) != 0 {
							sizes = append(sizes, run)
							run = 1
						} else {
							run++
						}
					}
					sizes = append(sizes, run, n+1)
					if !compareSchedule(k, cd, x, ref, sizes, mask&1 == 0, fmt.Sprintf("partition %v", sizes)) {
						return
					}
					k.Evals(1)
				}
				k.Count("partitions", int64(total))
				k.Nontrivial([]byte(f), x)
			})
			idx++
		}
	}
	c.Exhaustive(fmt.Sprintf("partitions: all 2^(n-1) partitions of each sampled input of length n <= %d", maxLen))
}

// shortInput builds an input of at most maxLen bytes that still contains structure.
func shortInput(r *rand.Rand, f string, maxLen int) []byte {
	var cands []string
	switch f {
	case "fasta":
		cands = []string{">a\nAC\n>b\nG\n", ">a\r\nAC\r\n>b", "AC\n>x\n\nGT", ">\n\n>\nA\n", ">ab\nA\nC\nG\n>", "\n>a\nA\n"}
	case "fastq":
		cands = []string{"@a\nAC\n+\n!!\n", "@a\nA\n+\n!\n@b\n", "@\n\n+\n\n@\n\n+\n", "@a\r\nA\r\n+\r\n!\r\n", "@a\nAC\n+\n!\n", "a\nA\n+\n!\n"}
	case "sam", "samh":
		cands = []string{"@h\n@g\t\"x\n", "a\t1\n@h\n\n", "@HD\r\n@x\r\n", "\"a\tb\n@c\n", "@a\n\n\nb\t\t\n"}
	case "bed":
		cands = []string{"c\t1\t2\nd\t3\t4\n", "c\t1\t2\r\n#x\r\nd", "#c\nc\t1\t2\t\"\n", "c\t1\t2\n\nd\t3\n", "c\t1\tx\nd\t3\t4\n"}
	case "newick":
		cands = []string{"(a,b)c;(d);", "('a b',c):1;", "(a:1,'x''y');", "a;b;\n c ;", "((a),b;", "('a'b);x;", "(a,\r\nb)\t;"}
	}
	x := []byte(pick(r, cands))
	if r.IntN(2) == 0 {
		x = mutate(r, x, []byte(pick(r, cands)))
	}
	if len(x) > maxLen {
		x = x[:maxLen]
	}
	return x
}

// c06Large uses inputs larger than the bufio (4 KiB) and scanner (64 KiB)
// buffers with chunk sizes around those sizes.
func c06Large(c *Ctx) {
	per := c.N(3, 12)
	idx := int64(0)
	for _, f := range c06Formats {
		cd := codecByName(f)
		for i := 0; i < per; i++ {
			c.Case(idx, func(k *K) {
				r := k.Rand()
				ff := f
				if ff == "samh" {
					ff = "sam"
				}
				var x []byte
				target := pick(r, []int{9000, 70000, 140000})
				if r.IntN(2) == 0 && ff != "bed" {
					x = wellFormedLong(r, ff)
					target = 0
				} else if ff == "bed" && r.IntN(2) == 0 {
					x = wellFormedLong(r, ff)
					target = 0
				}
				for len(x) < target {
					x = append(x, wellFormed(r, ff, 1+r.IntN(8))...)
					if ff == "fasta" || ff == "fastq" {
						// one long record crossing buffer sizes
						if r.IntN(3) == 0 {
							if ff == "fasta" {
								var b bytes.Buffer
								genFastaRecord(r, pick(r, []int{4000, 4096, 5000, 66000})).Write(&b)
								x = append(x, b.Bytes()...)
							} else {
								var b bytes.Buffer
								genFastqRecord(r, pick(r, []int{4000, 4096, 5000, 66000})).Write(&b)
								x = append(x, b.Bytes()...)
							}
						}
					}
				}
				if r.IntN(3) == 0 {
					x = mutate(r, x, nil)
				}
				k.Input("format", f)
				k.Input("input", func() string { return describeText(x) })
				ref, over := collect(cd.seq(bytes.NewReader(x)), len(x)+8)
				if over {
					k.Failf("unbounded", "more than len+8 items")
					return
				}
				for _, sz := range []int{4095, 4096, 4097, 65535, 65536, 65537, 1, 7} {
					if sz == 1 && len(x) > 80000 {
						continue
					}
					for _, eofWith := range []bool{false, true} {
						if !compareSchedule(k, cd, x, ref, []int{sz}, eofWith, fmt.Sprintf("chunks of %d", sz)) {
							return
						}
						k.Evals(1)
					}
				}
				// splits around the buffer edges
				for _, off := range []int{4095, 4096, 4097, 8191, 8192, 8193, 65535, 65536, 65537} {
					if off < len(x) {
						if !compareSchedule(k, cd, x, ref, []int{off, 3, len(x)}, false, fmt.Sprintf("split at %d then 3", off)) {
							return
						}
						k.Evals(1)
						if insideLine(x, off) {
							k.Count("boundary_inside_line", 1)
						}
					}
				}
				k.Count("large_inputs", 1)
				k.Count("large_items", int64(len(ref)))
				k.Nontrivial([]byte(f), x)
			})
			idx++
		}
	}
}

func c06CRLF(c *Ctx) {
	per := c.N(60, 2000)
	idx := int64(0)
	for _, f := range c06Formats {
		cd := codecByName(f)
		for i := 0; i < per; i++ {
			c.Case(idx, func(k *K) {
				r := k.Rand()
				ff := f
				if ff == "samh" {
					ff = "sam"
				}
				lf := plainWellFormed(r, ff)
				crlf := bytes.ReplaceAll(lf, []byte("\n"), []byte("\r\n"))
				k.Input("format", f)
				k.Input("lf_text", func() string { return describeText(lf) })
				a, _ := collect(cd.seq(bytes.NewReader(lf)), len(lf)+8)
				b, _ := collect(cd.seq(bytes.NewReader(crlf)), len(crlf)+8)
				for _, it := range a {
					if it.Err {
						k.Failf("wellformed-rejected", "%s: well-formed LF text produced an error item: %s", f, traceString(a))
						return
					}
				}
				if !sameTrace(a, b) {
					k.Failf("crlf", "%s: CRLF rendering decodes differently:\n LF   %s\n CRLF %s", f, traceString(a), traceString(b))
				}
				k.Count("crlf_pairs", 1)
				k.Count("crlf_records", int64(len(a)))
				if len(a) > 0 {
					k.Nontrivial([]byte(f), lf)
				}
			})
			idx++
		}
	}
}

func gzipBytes(x []byte, level int) []byte {
	var buf bytes.Buffer
	w, _ := gzip.NewWriterLevel(&buf, level)
	w.Write(x)
	w.Close()
	return buf.Bytes()
}

// gzipMembers compresses x as several gzip members written one after the other
// (what `cat a.gz b.gz > c.gz`, bgzip and parallel compressors produce): a valid
// gzip file whose content is the concatenation. Members may be empty and carry
// header fields.
func gzipMembers(r *rand.Rand, x []byte) []byte {
	var buf bytes.Buffer
	n := 2 + r.IntN(3)
	cuts := []int{0}
	for i := 1; i < n; i++ {
		cuts = append(cuts, r.IntN(len(x)+1))
	}
	cuts = append(cuts, len(x))
	sort.Ints(cuts)
	for i := 0; i+1 < len(cuts); i++ {
		w, _ := gzip.NewWriterLevel(&buf, 1+r.IntN(9))
		if r.IntN(3) == 0 {
			w.Name, w.Comment, w.Extra = "lane.fastq", "member", []byte{1, 2, 3}
		}
		w.Write(x[cuts[i]:cuts[i+1]])
		w.Close()
	}
	return buf.Bytes()
}

func c06Files(c *Ctx) {
	per := c.N(20, 400)
	dir, err := os.MkdirTemp("", "c06-files-")
	if err != nil {
		c.Info("files_skipped", err.Error())
		return
	}
	defer os.RemoveAll(dir)
	idx := int64(0)
	for _, f := range c06Formats {
		cd := codecByName(f)
		for i := 0; i < per; i++ {
			c.Case(idx, func(k *K) {
				r := k.Rand()
				x := c06Input(r, f)
				if r.IntN(10) == 0 {
					x = nil
				}
				if i%5 == 4 {
					// a line longer than the usual buffers; for SAM also in the leading header block (which File may
					// treat by a path of its own)
					gen := f
					if gen == "samh" {
						gen = "sam"
					}
					x = wellFormedLong(r, gen)
					if gen == "sam" {
						hdr := "@HD\tVN:1.6\n@PG\tID:bwa\tCL:" + string(longText(r, longSize(r), noCRLF)) + "\n@CO\t" + string(longText(r, pick(r, []int{4095, 4096, 4097, 9000}), noCRLF)) + "\n"
						x = append([]byte(hdr), x...)
					}
					k.Count("files_with_long_lines", 1)
				}
				k.Input("format", f)
				k.Input("input", func() string { return describeText(x) })
				ref, _ := collect(cd.seq(bytes.NewReader(x)), len(x)+8)
				plain := filepath.Join(dir, fmt.Sprintf("f%d%s", k.Idx, cd.ext))
				gz := plain + ".gz"
				if err := os.WriteFile(plain, x, 0o644); err != nil {
					k.Count("file_write_failed", 1)
					return
				}
				os.WriteFile(gz, gzipBytes(x, 1+r.IntN(9)), 0o644)
				defer os.Remove(plain)
				defer os.Remove(gz)
				got, over := collect(cd.file(plain), len(x)+8)
				if over || !sameTrace(got, ref) {
					k.Failf("file-plain", "%s.File(plain) differs from Reader on the same bytes:\n File   %s\n Reader %s", f, traceString(got), traceString(ref))
				}
				k.Count("file_plain", 1)
				got, over = collect(cd.file(gz), len(x)+8)
				if over || !sameTrace(got, ref) {
					k.Failf("file-gz", "%s.File(*.gz) differs from Reader on the uncompressed bytes:\n File   %s\n Reader %s", f, traceString(got), traceString(ref))
				}
				k.Count("file_gz", 1)
				// ONE File value ranged more than once: again after a complete pass, again after an abandoned pass, and
				// from inside its own loop (an all-against-all comparison of the records of one file). A path names the
				// same bytes every time, so every pass yields the records of the file.
				for _, path := range []string{plain, gz} {
					it := cd.file(path)
					fds0 := countFDs()
					collect(it, 1+r.IntN(3)) // an abandoned pass
					if fds := countFDs(); fds0 >= 0 && fds > fds0 && len(ref) > 3 {
						k.Failf("file-left-open", "%s.File(%s): %d more file descriptor(s) open after an abandoned pass than before it; the next passes then depend on how many files the process may hold", f, filepath.Base(path), fds-fds0)
						return
					}
					var outer []item
					for key, err := range it {
						outer = append(outer, item{Key: key, Err: err != nil})
						if len(outer) > len(x)+8 {
							break
						}
						if n := len(outer); n == 1 || n == 2 || n == len(ref)/2+1 || n == len(ref) {
							inner, over := collect(it, len(x)+8)
							if over || !sameTrace(inner, ref) {
								k.Failf("file-value-reranged", "%s.File(%s): a pass over the SAME File value started inside its own loop (at item %d) differs from Reader on the same bytes:\n File   %s\n Reader %s", f, filepath.Base(path), n, traceString(inner), traceString(ref))
								return
							}
							k.Count("nested_passes_over_one_file_value", 1)
						}
					}
					if !sameTrace(outer, ref) {
						k.Failf("file-value-reranged", "%s.File(%s): the outer pass over a File value that was also ranged inside its own loop differs from Reader on the same bytes:\n File   %s\n Reader %s", f, filepath.Base(path), traceString(outer), traceString(ref))
						return
					}
					again, over := collect(it, len(x)+8)
					if over || !sameTrace(again, ref) {
						k.Failf("file-value-reranged", "%s.File(%s): a later pass over the same File value differs from Reader on the same bytes:\n File   %s\n Reader %s", f, filepath.Base(path), traceString(again), traceString(ref))
						return
					}
					k.Evals(2)
				}
				{
					multi := filepath.Join(dir, fmt.Sprintf("m%d%s.gz", k.Idx, cd.ext))
					if os.WriteFile(multi, gzipMembers(r, x), 0o644) == nil {
						got, over := collect(cd.file(multi), len(x)+8)
						os.Remove(multi)
						if over || !sameTrace(got, ref) {
							k.Failf("file-gz", "%s.File on a *.gz file of several gzip members differs from Reader on the uncompressed bytes:\n File   %s\n Reader %s", f, traceString(got), traceString(ref))
						}
						k.Count("file_gz_multi_member", 1)
					}
				}
				// The same two files reached by other names: a symbolic link, a chain of two links, a hard link, a path
				// with "./", "//" and ".." in it, a name with blanks and non-ASCII letters, a read-only file. (Links to
				// the compressed file keep the .gz ending, which is what tells File to decompress.)
				if k.Idx%2 == 0 {
					sub := filepath.Join(dir, fmt.Sprintf("d%d", k.Idx))
					os.Mkdir(sub, 0o755)
					defer os.RemoveAll(sub)
					for _, tgt := range []struct{ path, ext string }{{plain, cd.ext}, {gz, cd.ext + ".gz"}} {
						sym := filepath.Join(sub, "link"+tgt.ext)
						sym2 := filepath.Join(sub, "link to link"+tgt.ext)
						hard := filepath.Join(sub, "hard"+tgt.ext)
						odd := filepath.Join(sub, "my reads \u00e9\u4e2d (1)"+tgt.ext)
						names := map[string]string{}
						if os.Symlink(tgt.path, sym) == nil {
							names["a symbolic link"] = sym
							if os.Symlink(filepath.Base(sym), sym2) == nil {
								names["a relative symbolic link to a symbolic link"] = sym2
							}
						}
						if os.Link(tgt.path, hard) == nil {
							names["a hard link"] = hard
						}
						if data, err := os.ReadFile(tgt.path); err == nil && os.WriteFile(odd, data, 0o400) == nil {
							names["a read-only file whose name has blanks and non-ASCII letters"] = odd
						}
						names["a path with ./, // and .. in it"] = sub + "/.//../" + filepath.Base(sub) + "/../" + filepath.Base(tgt.path)
						// ".." after a symbolic link to a directory elsewhere: the operating system follows the link first, so
						// sub/cur/../x names the sibling of the link's TARGET (store/x), not sub/x — where a decoy lies
						store := filepath.Join(sub, "store"+tgt.ext+".d")
						if os.MkdirAll(filepath.Join(store, "run1"), 0o755) == nil && os.Symlink(filepath.Join(store, "run1"), filepath.Join(sub, "cur"+tgt.ext+".d")) == nil {
							if data, err := os.ReadFile(tgt.path); err == nil && os.WriteFile(filepath.Join(store, "ref"+tgt.ext), data, 0o644) == nil {
								os.WriteFile(filepath.Join(sub, "ref"+tgt.ext), []byte("a decoy: not the records of the file\n"), 0o644)
								names["a path that goes up (..) from a symbolic link to a directory elsewhere"] = filepath.Join(sub, "cur"+tgt.ext+".d") + "/../ref" + tgt.ext
							}
						}
						if tgt.path == plain {
							for _, e := range []string{"", ".txt", ".bam", ".cram", ".dat", ".vcf", ".SAM", ".1"} {
								other := filepath.Join(sub, "named"+e)
								if os.WriteFile(other, x, 0o644) == nil {
									names["a file whose name ends in "+fmt.Sprintf("%q", e)] = other
								}
							}
						}
						// names with characters that mean something to shells, globs, URLs and Windows paths — brackets, stars,
						// question marks, braces, a tilde, percent escapes, a backslash — each next to a DECOY sibling that the
						// name would select if it were taken as a pattern or unescaped
						if data, err := os.ReadFile(tgt.path); err == nil {
							for _, nm := range [][2]string{{"sample[1]", "sample1"}, {"reads*", "readsX"}, {"q?", "qq"}, {"reads[2", ""}, {"a{b,c}", "ab"}, {"~x", ""}, {"p%41", "pA"}, {"a\\b", "ab2"}, {"x#1", "x"}, {"-", ""}, {"a b;c&d", ""}} {
								p := filepath.Join(sub, nm[0]+tgt.ext)
								if os.WriteFile(p, data, 0o644) != nil {
									continue
								}
								if nm[1] != "" {
									os.WriteFile(filepath.Join(sub, nm[1]+tgt.ext), []byte("a decoy: not the records of the file\n"), 0o644)
								}
								names[fmt.Sprintf("a file named %q (next to a decoy named %q)", nm[0]+tgt.ext, nm[1])] = p
							}
						}
						// a path that does NOT exist, next to a compressed file of the same name: File must yield an error (it
						// is asked for that path, not for one like it)
						if tgt.path == plain {
							ghost := filepath.Join(sub, "onlygz"+cd.ext)
							if data, err := os.ReadFile(gz); err == nil && os.WriteFile(ghost+".gz", data, 0o644) == nil {
								got, _ := collect(cd.file(ghost), len(x)+8)
								if len(got) != 1 || !got[0].Err {
									k.Input("path", ghost)
									k.Failf("file-missing", "%s.File on a path that does not exist (a file with the same name plus \".gz\" does) must yield exactly one error; got %s", f, traceString(got))
								}
								k.Count("file_missing_with_gz_sibling", 1)
							}
						}
						// a named pipe that another part of the program (here: a goroutine) writes the same bytes into — what a
						// shell's <(zcat x.gz) or a "mkfifo" hand-over gives: a path that is not a regular file (its size is 0)
						if fifo := filepath.Join(sub, "pipe"+tgt.ext); k.Idx%4 == 0 && syscall.Mkfifo(fifo, 0o600) == nil {
							if data, err := os.ReadFile(tgt.path); err == nil {
								done := make(chan struct{})
								go func() {
									defer close(done)
									if w, err := os.OpenFile(fifo, os.O_WRONLY, 0); err == nil {
										w.Write(data)
										w.Close()
									}
								}()
								got, over := collect(cd.file(fifo), len(x)+8)
								// (if File never opened the pipe the writer is still waiting for a reader: let it go)
								if rd, err := os.OpenFile(fifo, os.O_RDONLY|syscall.O_NONBLOCK, 0); err == nil {
									<-done
									rd.Close()
								}
								if over || !sameTrace(got, ref) {
									k.Input("path", fifo)
									k.Failf("file-path-variant", "%s.File on a named pipe carrying the file's bytes differs from Reader on them:\n File   %s\n Reader %s", f, traceString(got), traceString(ref))
								}
								k.Count("file_named_pipes", 1)
							}
						}
						for what, p := range names {
							got, over := collect(cd.file(p), len(x)+8)
							if over || !sameTrace(got, ref) {
								k.Input("path", p)
								k.Failf("file-path-variant", "%s.File on %s (%q) differs from Reader on the file's bytes:\n File   %s\n Reader %s", f, what, p, traceString(got), traceString(ref))
								break
							}
							k.Count("file_path_variants", 1)
						}
					}
				}
				// ONE File iterator value ranged again and again (after a stopped run and
				// after a complete one): File(path) names the file, so every range over it
				// yields what Reader yields on the file's bytes.
				for _, p := range []string{plain, gz} {
					one := cd.file(p)
					for range one {
						break
					}
					for pass := 1; pass <= 2; pass++ {
						got, over := collect(one, len(x)+8)
						if over || !sameTrace(got, ref) {
							k.Failf("file-reranged", "%s.File(%s): pass %d over ONE iterator value (after an earlier stopped run) differs from Reader on the file's bytes:\n File   %s\n Reader %s", f, filepath.Base(p), pass, traceString(got), traceString(ref))
							break
						}
					}
					k.Count("file_iterator_values_reranged", 1)
				}
				k.Count("file_items", int64(len(ref)))
				k.Nontrivial([]byte(f), x)
			})
			idx++
		}
		// Files named *.gz whose content is not a complete gzip stream: empty, plain
		// text, or a gzip stream cut short. Nothing can be "opened" in the first two:
		// an error and no record. A cut stream delivers leading records of the
		// fault-free decode and then an error, never a clean end.
		for i := 0; i < c.N(6, 60); i++ {
			c.Case(idx, func(k *K) {
				r := k.Rand()
				ff := f
				if ff == "samh" {
					ff = "sam"
				}
				x := plainWellFormed(r, ff)
				for len(x) < 200 {
					x = append(x, plainWellFormed(r, ff)...)
				}
				k.Input("format", f)
				k.Input("input", func() string { return describeText(x) })
				ref, _ := collect(cd.seq(bytes.NewReader(x)), len(x)+8)
				for _, it := range ref {
					if it.Err {
						return // (cannot happen for well-formed text; other units would report it)
					}
				}
				gz := gzipBytes(x, 1+r.IntN(9))
				type variant struct {
					name    string
					content []byte
					prefix  bool // leading records allowed
				}
				vs := []variant{{"empty", nil, false}, {"plain text named .gz", x, false}}
				for _, cut := range []int{1, 3, 9, 10, 11, len(gz) / 2, len(gz) - 9, len(gz) - 8, len(gz) - 4, len(gz) - 1} {
					if cut > 0 && cut < len(gz) {
						vs = append(vs, variant{fmt.Sprintf("gzip stream cut at %d of %d", cut, len(gz)), gz[:cut], true})
					}
				}
				for vi, v := range vs {
					p := filepath.Join(dir, fmt.Sprintf("b%d_%d%s.gz", k.Idx, vi, cd.ext))
					if os.WriteFile(p, v.content, 0o644) != nil {
						k.Count("file_write_failed", 1)
						continue
					}
					got, over := collect(cd.file(p), len(x)+8)
					os.Remove(p)
					nerr, nrec, okPrefix := 0, 0, true
					for j, it := range got {
						if it.Err {
							nerr++
							continue
						}
						if nerr > 0 && f != "sam" && f != "samh" {
							okPrefix = false // a record after the error
						}
						if nrec >= len(ref) || it != ref[nrec] || j != nrec {
							okPrefix = false
						}
						nrec++
					}
					k.Input("variant", v.name)
					switch {
					case over:
						k.Failf("file-broken-gz", "%s.File on %s: more than len+8 items", f, v.name)
					case nerr == 0:
						k.Failf("file-broken-gz", "%s.File on a *.gz file that is %s ended without an error item (%d records): %s", f, v.name, nrec, traceString(got))
					case !v.prefix && nrec > 0:
						k.Failf("file-broken-gz", "%s.File on a *.gz file that is %s delivered records: %s", f, v.name, traceString(got))
					case v.prefix && !okPrefix:
						k.Failf("file-broken-gz", "%s.File on a %s: the records before the error are not the leading records of the complete file:\n got  %s\n want a prefix of %s", f, v.name, traceString(got), traceString(ref))
					}
					k.Count("file_broken_gz", 1)
					k.Evals(1)
					if k.Failed() {
						return
					}
				}
				k.Nontrivial([]byte(f), x, []byte("broken-gz"))
			})
			idx++
		}
		// Missing path: exactly one item, an error.
		c.Case(idx, func(k *K) {
			for _, name := range []string{"does-not-exist" + cd.ext, "does-not-exist" + cd.ext + ".gz", "no-such-dir/x" + cd.ext} {
				p := filepath.Join(dir, name)
				k.Input("format", f)
				k.Input("path", p)
				got, _ := collect(cd.file(p), 5)
				if len(got) != 1 || !got[0].Err {
					k.Failf("file-missing", "%s.File on a missing path yielded %s, want exactly one error item", f, traceString(got))
				}
				k.Count("file_missing", 1)
				k.Evals(1)
			}
			k.Nontrivial([]byte(f), []byte("missing"))
		})
		idx++
	}
}

// hugeLineText builds a well-formed text with one line of exactly n content
// bytes between two small records. Returns the LF text and the offset just
// after the long line's content (before its terminator).
func hugeLineText(r *rand.Rand, f string, n int) ([]byte, int) {
	fill := func(alpha string, n int) []byte {
		b := make([]byte, n)
		for i := range b {
			b[i] = alpha[r.IntN(len(alpha))]
		}
		return b
	}
	var x []byte
	end := 0
	switch f {
	case "fasta":
		x = append(x, ">first\nACGT\n>"...)
		if r.IntN(2) == 0 {
			x = append(x, fill("abcdefgh ij", n-1)...) // the name line has n bytes including '>'
			end = len(x)
			x = append(x, "\nACGTAC\n"...)
		} else {
			x = append(x, "long\n"...)
			x = append(x, fill("ACGTN", n)...)
			end = len(x)
			x = append(x, '\n')
		}
		x = append(x, ">last\nTTGA\n"...)
	case "fastq":
		x = append(x, "@first\nACGT\n+\n!!!!\n@long\n"...)
		x = append(x, fill("ACGTN", n)...)
		x = append(x, "\n+\n"...)
		x = append(x, fill("!#5?IJ", n)...)
		end = len(x)
		x = append(x, "\n@last\nTT\n+\n##\n"...)
	case "sam", "samh":
		x = append(x, "@HD\tVN:1.6\nfirst\t0\tchr1\t1\t30\t4M\t*\t0\t0\tACGT\t!!!!\nlong\t4\t*\t0\t0\t*\t*\t0\t0\t"...)
		x = append(x, fill("ACGTN", n)...)
		x = append(x, "\t*"...)
		end = len(x)
		x = append(x, "\nlast\t16\tchr2\t7\t0\t2M\t=\t9\t-3\tTT\t##\tNM:i:1\n"...)
	case "bed":
		x = append(x, "chr1\t1\t2\tfirst\nchr2\t10\t20\t"...)
		x = append(x, fill("abcdefgh ij", n)...)
		end = len(x)
		x = append(x, "\nchr3\t5\t6\tlast\n"...)
	case "newick":
		x = append(x, "(first,b)c;\n("...)
		x = append(x, fill("abcdefghij", n)...)
		end = len(x)
		x = append(x, ":1.5,x);\n(last);\n"...)
	}
	return x, end
}

// c06Huge: one line whose length sits on or next to a power of two far above
// the usual buffer sizes (a reader with a line-length ceiling, or one whose
// buffer doubles, changes behaviour exactly there): LF against CRLF, whole
// against chunked delivery, and the stream cut right after the long line with
// the last bytes delivered with and without io.EOF.
func c06Huge(c *Ctx) {
	exps := []int{20, 22}
	deltas := []int{-2, -1, 0, 1}
	if c.Thorough {
		exps = []int{17, 18, 19, 20, 21, 22, 23, 24, 25}
		deltas = []int{-3, -2, -1, 0, 1, 2}
	}
	// around 4 KiB, 8 KiB and 64 KiB every length from 2^e - 40 to 2^e + 3: the fixed parts of a line (a '>' or '@',
	// the other SAM / BED fields, the terminator — one byte or two) shift where the long field ends relative
	// to a buffer of that size, and EVERY alignment of the line end with the buffer end must be met
	type ed struct{ e, d int }
	var eds []ed
	for _, e := range []int{12, 13, 16} {
		for d := -40; d <= 3; d++ {
			eds = append(eds, ed{e, d})
		}
	}
	for _, e := range exps {
		for _, d := range deltas {
			eds = append(eds, ed{e, d})
		}
	}
	idx := int64(0)
	for _, f := range c06Formats {
		cd := codecByName(f)
		for _, x := range eds {
			{
				e, d := x.e, x.d
				c.Case(idx, func(k *K) {
					r := k.Rand()
					n := 1<<e + d
					lf, end := hugeLineText(r, f, n)
					k.Input("format", f)
					k.Input("long_line_bytes", n)
					k.Input("input", func() string { return describeText(lf) })
					ref, over := collect(cd.seq(bytes.NewReader(lf)), 64)
					if over {
						k.Failf("unbounded", "more than 64 items from a text of a few records")
						return
					}
					for _, it := range ref {
						if it.Err {
							k.Failf("wellformed-rejected", "%s: well-formed LF text with one line of %d bytes produced an error item: %s", f, n, traceString(ref))
							return
						}
					}
					if f != "newick" {
						crlf := bytes.ReplaceAll(lf, []byte("\n"), []byte("\r\n"))
						b, _ := collect(cd.seq(bytes.NewReader(crlf)), 64)
						if !sameTrace(ref, b) {
							k.Failf("crlf", "%s: with one line of %d bytes the CRLF rendering decodes differently:\n LF   %s\n CRLF %s", f, n, traceString(ref), traceString(b))
							return
						}
						k.Count("crlf_pairs", 1)
					}
					for _, eofWith := range []bool{false, true} {
						for _, sizes := range [][]int{{len(lf)}, {1 << 16}, {1<<e - 1, 3, 1 << 12}} {
							if !compareSchedule(k, cd, lf, ref, sizes, eofWith, fmt.Sprintf("chunks %v cycled", sizes)) {
								return
							}
							k.Evals(1)
						}
					}
					// cut right after the long line's content: an unterminated last line
					cut := lf[:end]
					cref, _ := collect(cd.seq(bytes.NewReader(cut)), 64)
					for _, eofWith := range []bool{false, true} {
						for _, sizes := range [][]int{{len(cut)}, {1 << 16}} {
							if !compareSchedule(k, cd, cut, cref, sizes, eofWith, fmt.Sprintf("cut after the long line, chunks %v cycled", sizes)) {
								return
							}
							k.Evals(1)
						}
					}
					// File on the plain and the gzip-compressed form of both texts
					if dir, err := os.MkdirTemp("", "c06-huge-"); err == nil {
						for vi, v := range [][]byte{lf, cut} {
							want := ref
							if vi == 1 {
								want = cref
							}
							plain := filepath.Join(dir, fmt.Sprintf("h%d%s", vi, cd.ext))
							if os.WriteFile(plain, v, 0o644) != nil || os.WriteFile(plain+".gz", gzipBytes(v, 1), 0o644) != nil {
								k.Count("file_write_failed", 1)
								continue
							}
							for _, p := range []string{plain, plain + ".gz"} {
								got, over := collect(cd.file(p), 64)
								if over || !sameTrace(got, want) {
									k.Failf("file-huge", "%s.File(%s) on a text with one line of %d bytes (variant %d: 0 = whole, 1 = cut after the long line) differs from Reader on the same bytes:\n File   %s\n Reader %s",
										f, filepath.Base(p), n, vi, traceString(got), traceString(want))
								}
								k.Count("file_huge", 1)
							}
						}
						os.RemoveAll(dir)
					}
					k.Count("huge_line_inputs", 1)
					k.Count("boundary_inside_line", 1)
					k.Nontrivial([]byte(f), []byte(fmt.Sprint(n)))
				})
				idx++
			}
		}
	}
}

// c06Parallel: the delivery configurations of one input (bytes.Reader, chunked
// reader, File plain, File gz) decoded at the same time in eight goroutines,
// each compared with the trace computed beforehand (-race build: any race
// report is a violation).
func c06Parallel(c *Ctx) {
	dir, err := os.MkdirTemp("", "c06-par-")
	if err != nil {
		c.Info("parallel_skipped", err.Error())
		return
	}
	defer os.RemoveAll(dir)
	idx := int64(0)
	for _, f := range c06Formats {
		cd := codecByName(f)
		for i := 0; i < c.N(2, 12); i++ {
			c.Case(idx, func(k *K) {
				r := k.Rand()
				ff := f
				if ff == "samh" {
					ff = "sam"
				}
				x := wellFormedAtLeast(r, ff, 20000)
				if i%2 == 1 {
					x = append(x, nearValid(r, ff)...) // ends in something malformed: the error position must agree too
				}
				k.Input("format", f)
				k.Input("input", func() string { return describeText(x) })
				ref, _ := collect(cd.seq(bytes.NewReader(x)), len(x)+8)
				plain := filepath.Join(dir, fmt.Sprintf("p%d%s", k.Idx, cd.ext))
				if os.WriteFile(plain, x, 0o644) != nil || os.WriteFile(plain+".gz", gzipBytes(x, 6), 0o644) != nil {
					k.Count("file_write_failed", 1)
					return
				}
				defer os.Remove(plain)
				defer os.Remove(plain + ".gz")
				runParallel(k, 8, func(g int, r *rand.Rand) string {
					for it := 0; it < 4; it++ {
						var got []item
						var over bool
						what := ""
						switch (g + it) % 4 {
						case 0:
							what = "Reader on bytes"
							got, over = collect(cd.seq(bytes.NewReader(x)), len(x)+8)
						case 1:
							what = "Reader on a chunked reader"
							got, over = collect(cd.seq(&schedReader{data: x, sizes: []int{1 + r.IntN(700), 1 + r.IntN(5000)}, eofWith: it%2 == 0}), len(x)+8)
						case 2:
							what = "File (plain)"
							got, over = collect(cd.file(plain), len(x)+8)
						default:
							what = "File (gz)"
							got, over = collect(cd.file(plain+".gz"), len(x)+8)
						}
						if over || !sameTrace(got, ref) {
							return fmt.Sprintf("%s: %s, decoded while seven other decoders ran, differs from the trace computed beforehand:\n got  %s\n want %s", f, what, traceString(got), traceString(ref))
						}
					}
					return ""
				})
				k.Count("parallel_decodes", 8*4)
				k.Evals(8*4 - 1)
				k.Nontrivial([]byte(f), x[:64], []byte("parallel"))
			})
			idx++
		}
	}
}

// c06BigFiles: files of more than 32 MiB ON DISK — plain, gzip-compressed with
// stored blocks (so that the *.gz file itself is that big) and gzip-compressed
// normally — through File, compared with Reader on the bytes. A File that
// chooses its way of opening by the size of the file (a bigger buffer, a
// memory map, a read-ahead thread above some size) has to keep decompressing
// and decoding as before. Quick: FASTA, FASTQ and SAM; thorough: all formats.
func c06BigFiles(c *Ctx) {
	formats := []string{"fasta", "fastq", "sam"}
	if c.Thorough {
		formats = c06Formats
	}
	dir, err := os.MkdirTemp("", "c06-big-")
	if err != nil {
		c.Info("bigfiles_skipped", err.Error())
		return
	}
	defer os.RemoveAll(dir)
	for i, f := range formats {
		c.Case(int64(i), func(k *K) {
			r := k.Rand()
			cd := codecByName(f)
			gen := f
			if gen == "samh" {
				gen = "sam"
			}
			const want = 33<<20 + 12345
			var x []byte
			unit := giantText(r, gen, 1<<20)
			for len(x) < want {
				x = append(x, unit...)
				if gen == "bed" || gen == "newick" {
					continue
				}
				x = append(x, wellFormed(r, gen, 20)...)
			}
			k.Input("format", f)
			k.Input("bytes", len(x))
			ref, over := collect(cd.seq(bytes.NewReader(x)), 1<<20)
			if over {
				return
			}
			var stored bytes.Buffer
			zw, _ := gzip.NewWriterLevel(&stored, gzip.NoCompression)
			zw.Write(x)
			zw.Close()
			files := map[string][]byte{"big" + cd.ext: x, "big-stored" + cd.ext + ".gz": stored.Bytes(), "big-deflated" + cd.ext + ".gz": gzipBytes(x, 1)}
			for name, data := range files {
				p := filepath.Join(dir, fmt.Sprint(i)+name)
				if os.WriteFile(p, data, 0o644) != nil {
					k.Count("file_write_failed", 1)
					continue
				}
				got, over := collect(cd.file(p), 1<<20)
				os.Remove(p)
				if over || !sameTrace(got, ref) {
					d := 0
					for d < len(got) && d < len(ref) && got[d] == ref[d] {
						d++
					}
					k.Failf("file-big", "%s.File on %s (%d bytes on disk, %d bytes of text) yields %d items, Reader on the text %d; first difference at item %d", f, name, len(data), len(x), len(got), len(ref), d)
					return
				}
				k.Count("big_files_compared", 1)
				k.Evals(1)
			}
			k.Nontrivial([]byte(f), []byte("bigfiles"))
		})
	}
}
