//go:build verif

package main

// Harness side of the optional `verif` accessors in /repo.

import (
	"github.com/fluhus/biostuff/regions"
	"github.com/fluhus/biostuff/trie"
)

const hooksCompiled = true

// trieStructure: every node has a non-nil map and no nil child.
func trieStructure(k *K, t *trie.Trie, what string) bool {
	ok := true
	nodes := 0
	t.VerifWalk(func(path []byte, nilMap bool, nilChildren int) {
		nodes++
		if ok && (nilMap || nilChildren > 0) {
			ok = false
			k.Failf("trie-structure", "%s: node at path %q has nilMap=%v and %d nil children", what, path, nilMap, nilChildren)
		}
	})
	k.Count("hook_trie_nodes_walked", int64(nodes))
	return ok
}

// indexStructure: breakpoints strictly ascending, sets ascending and
// duplicate-free, last set empty.
func indexStructure(k *K, idx *regions.Index) bool {
	starts, sets := idx.VerifDump()
	k.Count("hook_index_dumps", 1)
	for i := range starts {
		if i > 0 && starts[i] <= starts[i-1] {
			k.Failf("index-structure", "breakpoints not strictly ascending: %v", starts)
			return false
		}
		for j := 1; j < len(sets[i]); j++ {
			if sets[i][j] <= sets[i][j-1] {
				k.Failf("index-structure", "interval set at breakpoint %d not ascending and duplicate-free: %v", starts[i], sets[i])
				return false
			}
		}
	}
	if n := len(sets); n > 0 && len(sets[n-1]) != 0 {
		k.Failf("index-structure", "the set after the last breakpoint is not empty: %v", sets[n-1])
		return false
	}
	return true
}

// sharesMemory: does a result of At alias the index?
func sharesMemory(idx *regions.Index, s []int) (bool, bool) { return idx.VerifShares(s), true }
