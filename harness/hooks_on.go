//go:build verif

package main

// Harness side of the optional `verif` accessors in /repo.

import (
	"github.com/fluhus/biostuff/regions"
	"github.com/fluhus/biostuff/trie"
)

const hooksCompiled = true

// trieStructure walks the trie through the verif accessor and records what it
// sees (nodes, nil maps, nil children). The representation is not part of the
// property, so these are observations for the evidence, never verdicts: a
// nil map only becomes a violation where it is observable (a later Add, Has,
// ForEach or JSON round trip misbehaving), which the boundary monitors decide.
func trieStructure(k *K, t *trie.Trie, what string) bool {
	nodes := 0
	t.VerifWalk(func(path []byte, nilMap bool, nilChildren int) {
		nodes++
		if nilMap {
			k.Count("hook_trie_nil_maps_seen", 1)
		}
		if nilChildren > 0 {
			k.Count("hook_trie_nil_children_seen", int64(nilChildren))
		}
	})
	k.Count("hook_trie_nodes_walked", int64(nodes))
	return true
}

// indexStructure dumps the index through the verif accessor and records the
// shape of what it holds. The representation is not part of the property
// (a correct index may store its sets unsorted, lazily, or differently), so
// nothing here is a verdict; answers are judged at At() only.
func indexStructure(k *K, idx *regions.Index) bool {
	starts, sets := idx.VerifDump()
	k.Count("hook_index_dumps", 1)
	k.Count("hook_index_breakpoints", int64(len(starts)))
	for i := range sets {
		for j := 1; j < len(sets[i]); j++ {
			if sets[i][j] <= sets[i][j-1] {
				k.Count("hook_index_unsorted_sets_seen", 1)
				break
			}
		}
	}
	return true
}

// sharesMemory: does a result of At alias the index?
func sharesMemory(idx *regions.Index, s []int) (bool, bool) { return idx.VerifShares(s), true }
