package main

// C01 — FASTA write -> read, any wrapping.

import (
	"bytes"
	"fmt"
	"io"
	"math/rand/v2"
	"strings"

	"github.com/fluhus/biostuff/formats/fasta"
)

var fastaNameExcl = setOf("\r\n")
var fastaSeqExcl = setOf("\r\n>")

func genFastaRecord(r *rand.Rand, seqLen int) *fasta.Fasta {
	nameLen := 0
	switch r.IntN(5) {
	case 0:
		nameLen = 0
	case 1:
		nameLen = r.IntN(3)
	default:
		nameLen = r.IntN(40)
	}
	rec := &fasta.Fasta{Name: randBytesExcl(r, nameLen, fastaNameExcl), Sequence: randBytesExcl(r, seqLen, fastaSeqExcl)}
	if r.IntN(6) == 0 { // what sequences look like: letters, with runs and repeats (poly-A tails, N gaps, masked stretches)
		rec.Sequence = runSeq(r, []byte(pick(r, []string{"ACGT", "ACGTN", "ACGTNacgtn-*", "AN", " A\t"})), seqLen)
	}
	return rec
}

func genFastaLen(r *rand.Rand) int {
	switch r.IntN(12) {
	case 0:
		return 0
	case 1:
		return 80 * r.IntN(6)
	case 2:
		return 80*r.IntN(6) + pick(r, []int{1, 79})
	case 3:
		return pick(r, []int{4095, 4096, 4097, 8192, 65535, 65536, 65537, 70000})
	case 4:
		return r.IntN(3)
	default:
		return r.IntN(400)
	}
}

func genFastaList(r *rand.Rand) []*fasta.Fasta {
	n := r.IntN(9)
	if r.IntN(60) == 0 { // many small records: state carried from record to record accumulates
		n = 300 + r.IntN(3000)
		recs := make([]*fasta.Fasta, n)
		for i := range recs {
			recs[i] = genFastaRecord(r, r.IntN(100))
		}
		return recs
	}
	var recs []*fasta.Fasta
	big := 0
	for i := 0; i < n; i++ {
		l := genFastaLen(r)
		if l > 4000 {
			big++
			if big > 1 {
				l = r.IntN(200)
			}
		}
		rec := genFastaRecord(r, l)
		if r.IntN(25) == 0 {
			rec.Name = randBytesExcl(r, longSize(r), fastaNameExcl) // name longer than the I/O buffers
		}
		recs = append(recs, rec)
	}
	return recs
}

// fastaLayout is an independent formatter: it renders records with arbitrary
// line widths, blank lines between lines, LF or CRLF, and with or without the
// final newline.
type fastaLayout struct {
	widths  []int // drawn per line, cycled; 0 = random 1..200
	blanks  int   // probability (percent) of inserting blank lines after a line
	crlf    bool
	noFinal bool
	longRun bool // some runs of blank lines are longer than the I/O buffers (2049 … 70 000 line ends)
}

var layoutWidths = []int{1, 2, 3, 59, 60, 61, 79, 80, 81, 4095, 4096, 4097, 0, 0, 0}

func genLayout(r *rand.Rand) fastaLayout {
	l := fastaLayout{}
	nw := 1 + r.IntN(3)
	for i := 0; i < nw; i++ {
		l.widths = append(l.widths, pick(r, layoutWidths))
	}
	if r.IntN(2) == 0 {
		l.blanks = pick(r, []int{10, 50, 100})
	}
	l.crlf = r.IntN(2) == 0
	l.noFinal = r.IntN(2) == 0
	l.longRun = l.blanks > 0 && r.IntN(4) == 0
	return l
}

func (l fastaLayout) String() string {
	return fmt.Sprintf("widths=%v blanks=%d%% crlf=%v noFinalNewline=%v longBlankRuns=%v", l.widths, l.blanks, l.crlf, l.noFinal, l.longRun)
}

func (l fastaLayout) render(r *rand.Rand, recs []*fasta.Fasta) []byte {
	eol := "\n"
	if l.crlf {
		eol = "\r\n"
	}
	var lines [][]byte
	wi := 0
	for _, rec := range recs {
		lines = append(lines, append([]byte(">"), rec.Name...))
		seq := rec.Sequence
		for len(seq) > 0 {
			w := l.widths[wi%len(l.widths)]
			wi++
			if w == 0 {
				w = 1 + r.IntN(200)
			}
			w = min(w, len(seq))
			lines = append(lines, seq[:w])
			seq = seq[w:]
		}
	}
	var buf bytes.Buffer
	for i, line := range lines {
		buf.Write(line)
		last := i == len(lines)-1
		if !last || !l.noFinal {
			buf.WriteString(eol)
		}
		// Blank lines between lines (never before the first line, never after
		// the last when the final newline is omitted).
		if l.blanks > 0 && !last && r.IntN(100) < l.blanks {
			j := 1 + r.IntN(3)
			if l.longRun && buf.Len() < 1<<20 && r.IntN(3) == 0 {
				j = pick(r, []int{100, 2047, 2048, 2049, 4095, 4096, 4097, 8200, 70000})
			}
			for ; j > 0; j-- {
				buf.WriteString(eol)
			}
		}
	}
	return buf.Bytes()
}

// fastaWrite returns the bytes of Write over all records and checks they equal
// the concatenated MarshalText results.
func fastaWrite(k *K, recs []*fasta.Fasta) []byte {
	var ms []func() ([]byte, error)
	var ws []func(io.Writer) error
	for _, rec := range recs {
		ms = append(ms, rec.MarshalText)
		ws = append(ws, rec.Write)
	}
	return heldMarshalCheck(k, ms, ws)
}

// fastaShape is the writer-shape monitor: an independent line parser.
func fastaShape(k *K, recs []*fasta.Fasta, text []byte) {
	if len(recs) == 0 {
		if len(text) != 0 {
			k.Failf("shape", "no records but %d bytes written", len(text))
		}
		return
	}
	if len(text) == 0 || text[len(text)-1] != '\n' {
		k.Failf("shape", "written text does not end with a newline")
		return
	}
	lines := bytes.Split(text[:len(text)-1], []byte("\n"))
	ri := -1
	var seq []byte
	flush := func() bool {
		if ri >= 0 && !bytes.Equal(seq, recs[ri].Sequence) {
			k.Failf("shape", "record %d: sequence lines concatenate to %d bytes, want %d", ri, len(seq), len(recs[ri].Sequence))
			return false
		}
		return true
	}
	for li, line := range lines {
		if len(line) > 0 && line[0] == '>' {
			if !flush() {
				return
			}
			ri++
			seq = seq[:0]
			if ri >= len(recs) {
				k.Failf("shape", "more name lines than records (line %d)", li)
				return
			}
			if !bytes.Equal(line[1:], recs[ri].Name) {
				k.Failf("shape", "record %d: name line %q, want >%q", ri, line, recs[ri].Name)
				return
			}
			continue
		}
		if ri < 0 {
			k.Failf("shape", "sequence line before the first name line")
			return
		}
		if len(line) > 80 {
			k.Failf("shape", "record %d: sequence line of %d characters (max 80)", ri, len(line))
			return
		}
		seq = append(seq, line...)
	}
	if !flush() {
		return
	}
	if ri != len(recs)-1 {
		k.Failf("shape", "%d name lines for %d records", ri+1, len(recs))
	}
}

func fastaDecodeCompare(k *K, what string, recs []*fasta.Fasta, text []byte) {
	fastaDecodeFrom(k, what, recs, bytes.NewReader(text))
}

func fastaDecodeFrom(k *K, what string, recs []*fasta.Fasta, src io.Reader) {
	// Records are held until the iteration is over and compared only then: a
	// reader that recycles a record's buffers for the next record is seen.
	var held []*fasta.Fasta
	for got, err := range fasta.Reader(src) {
		if err != nil {
			k.Failf("roundtrip", "%s: reader error at item %d: %v", what, len(held), err)
			return
		}
		if len(held) >= len(recs) {
			k.Failf("roundtrip", "%s: more than %d records decoded; extra: %s", what, len(recs), fastaKey(got))
			return
		}
		if !bytes.Equal(got.Name, recs[len(held)].Name) || !bytes.Equal(got.Sequence, recs[len(held)].Sequence) {
			k.Failf("roundtrip", "%s: record %d decoded as %.300s, want %.300s", what, len(held), fastaKey(got), fastaKey(recs[len(held)]))
			return
		}
		held = append(held, got)
	}
	if len(held) != len(recs) {
		k.Failf("roundtrip", "%s: decoded %d records, want %d", what, len(held), len(recs))
		return
	}
	for i, got := range held {
		if !bytes.Equal(got.Name, recs[i].Name) || !bytes.Equal(got.Sequence, recs[i].Sequence) {
			k.Failf("record-not-stable", "%s: record %d was correct when yielded but reads %.300s after the iteration went on (want %.300s)", what, i, fastaKey(got), fastaKey(recs[i]))
			return
		}
	}
}

func fastaListString(recs []*fasta.Fasta) string {
	s := fmt.Sprintf("%d records:", len(recs))
	if len(recs) > 40 {
		return s + " (many small records)"
	}
	for _, r := range recs {
		if len(r.Name) > 200 {
			s += fmt.Sprintf(" {namelen=%d seqlen=%d}", len(r.Name), len(r.Sequence))
		} else if len(r.Sequence) > 120 {
			s += fmt.Sprintf(" {name=%q seqlen=%d}", r.Name, len(r.Sequence))
		} else {
			s += fmt.Sprintf(" {name=%q seq=%q}", r.Name, r.Sequence)
		}
	}
	return s
}

func init() {
	register(&Property{
		ID:    "C01",
		Level: "exploration",
		Rule: "record lists from seeded generators (names: any bytes but CR/LF; sequences: any bytes but CR/LF/'>'; every length in a range plus buffer-edge lengths) " +
			"written with Write/MarshalText and decoded, plus re-rendered in random layouts (line widths, blank lines, CRLF, no final newline); " +
			"non-trivial = non-empty list with a sequence longer than 80 or of positive length divisible by 80, or a non-default layout; distinct by hash of the rendered text",
		Assumptions: []string{"names free of CR/LF, sequences free of CR/LF/'>' (the property's domain)",
			"blank lines are inserted between lines only, never before the first line of the file"},
		MinEvents: map[string]int64{"records_roundtripped": 100, "layouts_decoded": 100},
		Units: []Unit{
			{Name: "lengths", TShards: 4, Run: c01Lengths},
			{Name: "lists", QShards: 2, TShards: 8, Run: c01Lists},
			{Name: "sizes", QShards: 2, TShards: 8, Run: c01Sizes},
			{Name: "prefixes", Run: prefixUnit("fasta", false, 0)},
			{Name: "edges", Run: edgeUnit("fasta")},
			{Name: "lexicon", TShards: 4, Run: lexiconUnit("fasta")},
			{Name: "mixedsizes", QShards: 4, TShards: 8, Run: mixedSizesUnit("fasta")},
			{Name: "fieldlens", TShards: 2, Run: lengthUnit("fasta")},
			{Name: "parallel", Race: true, Run: codecParallel("fasta")},
			{Name: "histories", Run: codecHistories("fasta")},
			{Name: "readerzoo", TShards: 4, Run: zooUnit("fasta")},
			{Name: "exactsizes", QShards: 2, TShards: 4, Run: exactSizeUnit("fasta")},
			{Name: "tiny", TShards: 4, Run: tinyUnit("fasta")},
			{Name: "gigantic", Run: c01Gigantic},
			{Name: "namesbyseq", QShards: 2, TShards: 4, Run: c01NamesBySeq},
			firstCallUnit(firstCodec("fasta")),
		},
	})
}

func c01Lengths(c *Ctx) {
	var lens []int
	for l := 0; l <= c.N(200, 2000); l++ {
		lens = append(lens, l)
	}
	lens = append(lens, 239, 240, 241, 319, 320, 321, 4095, 4096, 4097, 65535, 65536, 65537, 70000, 300000)
	if c.Thorough {
		for p := 4096; p <= 1<<20; p *= 2 {
			lens = append(lens, p-1, p, p+1)
		}
	}
	for i, l := range lens {
		c.Case(int64(i), func(k *K) {
			r := k.Rand()
			rec := genFastaRecord(r, l)
			recs := []*fasta.Fasta{rec}
			k.Input("records", func() string { return fastaListString(recs) })
			text := fastaWrite(k, recs)
			fastaShape(k, recs, text)
			fastaDecodeCompare(k, "written text", recs, text)
			k.Count("records_roundtripped", 1)
			lay := genLayout(r)
			k.Input("layout", lay)
			alt := lay.render(r, recs)
			fastaDecodeCompare(k, "layout "+lay.String(), recs, alt)
			k.Count("layouts_decoded", 1)
			if l >= 4095 {
				// long sequences also UNWRAPPED (one line) and in lines of 64 KiB and of half the sequence, each read
				// through every reader of the zoo (among them *bufio.Readers of 16 bytes … 1 MiB that the caller owns)
				for _, w := range []int{1 << 30, 1 << 16, l/2 + 1} {
					lay := fastaLayout{widths: []int{w}, crlf: w == 1<<16, noFinal: w != 1<<30}
					alt := lay.render(r, recs)
					for _, z := range readerZoo(r, alt, "") {
						if strings.HasPrefix(z.name, "iotest.") && l > 70000 {
							continue
						}
						src := z.mk()
						fastaDecodeFrom(k, "layout "+lay.String()+" read from "+z.name, recs, src)
						if cl, ok := src.(io.Closer); ok {
							cl.Close()
						}
						if k.Failed() {
							return
						}
						k.Count("long_layouts_through_the_reader_zoo", 1)
					}
				}
			}
			if l > 80 || (l > 0 && l%80 == 0) {
				k.Nontrivial(text, alt)
			}
		})
	}
	c.Exhaustive(fmt.Sprintf("lengths: every sequence length 0..%d", c.N(200, 2000)))
}

func c01Lists(c *Ctx) {
	n := c.N(1200, 40000)
	nlayAll := c.N(8, 16)
	for i := 0; i < n; i++ {
		c.Case(int64(i), func(k *K) {
			nlay := nlayAll
			r := k.Rand()
			recs := genFastaList(r)
			var ar *arenaT
			if k.Idx%2 == 1 && len(recs) <= 40 {
				// names and sequences as adjacent windows of one buffer
				var parts [][]byte
				for _, rec := range recs {
					parts = append(parts, rec.Name, rec.Sequence)
				}
				ar = newArena(r, parts...)
				for j, rec := range recs {
					rec.Name, rec.Sequence = ar.parts[2*j], ar.parts[2*j+1]
				}
				k.Count("arena_cases", 1)
			}
			k.Input("records", func() string { return fastaListString(recs) })
			text := fastaWrite(k, recs)
			if ar != nil && arenaFail(k, ar, "Fasta.Write/MarshalText") {
				return
			}
			fastaShape(k, recs, text)
			fastaDecodeCompare(k, "written text", recs, text)
			k.Count("records_roundtripped", int64(len(recs)))
			long := false
			for _, rec := range recs {
				if l := len(rec.Sequence); l > 80 || (l > 0 && l%80 == 0) {
					long = true
				}
				if len(rec.Sequence) == 0 {
					k.Count("empty_sequences", 1)
				}
				if len(rec.Name) == 0 {
					k.Count("empty_names", 1)
				}
			}
			if long {
				k.Nontrivial(text)
			}
			if len(recs) > 40 {
				nlay = 2
				k.Count("many_record_files", 1)
			}
			for j := 0; j < nlay; j++ {
				lay := genLayout(r)
				alt := lay.render(r, recs)
				k.Input("layout", lay)
				k.Input("layout_text", alt)
				fastaDecodeCompare(k, "layout "+lay.String(), recs, alt)
				k.Count("layouts_decoded", 1)
				k.Evals(1)
				if len(recs) > 0 {
					k.Nontrivial(alt)
				}
			}
		})
	}
}

// c01Sizes sweeps (name length, sequence length) combinations densely around
// the multiples of the usual 4 KiB / 16 KiB / 64 KiB buffer sizes, writing two
// records each (a defect at a record's last line shows in the record that
// follows it).
func c01Sizes(c *Ctx) {
	nameLens := []int{0, 1, 4, 10, 45, 100}
	type span struct{ lo, hi int }
	spans := []span{{3800, 4300}}
	if c.Thorough {
		nameLens = nil
		for l := 0; l <= 130; l++ {
			nameLens = append(nameLens, l)
		}
		spans = []span{{3800, 4400}, {7900, 8300}, {11950, 12150}, {16200, 16500}, {65300, 65700}}
	}
	idx := int64(0)
	for _, nl := range nameLens {
		for _, sp := range spans {
			for sl := sp.lo; sl <= sp.hi; sl++ {
				c.Case(idx, func(k *K) {
					r := k.Rand()
					recs := []*fasta.Fasta{
						{Name: randBytesExcl(r, nl, fastaNameExcl), Sequence: randBytesExcl(r, sl, fastaSeqExcl)},
						genFastaRecord(r, r.IntN(100)),
					}
					k.Input("name_len", nl)
					k.Input("seq_len", sl)
					text := fastaWrite(k, recs)
					fastaShape(k, recs, text)
					fastaDecodeCompare(k, "written text", recs, text)
					k.Count("records_roundtripped", 2)
					k.Count("size_sweep_cases", 1)
					k.Nontrivial([]byte(fmt.Sprint(nl, sl)), text[:min(64, len(text))])
				})
				idx++
			}
		}
	}
}

// c01Gigantic: one sequence of more than 2^26 (thorough: 2^27) bases — a small
// chromosome — written, and read back from the written text and from a single
// unwrapped line. "Every sequence length" has no ceiling a caller was told of.
func c01Gigantic(c *Ctx) {
	lens := []int{1<<26 + 10}
	if c.Thorough {
		lens = append(lens, 1<<27+3)
	}
	for i, l := range lens {
		c.Case(int64(i), func(k *K) {
			r := k.Rand()
			seq := bytes.Repeat(randSeq(r, []byte("ACGTN"), 1<<16+1), l/(1<<16+1)+1)[:l]
			recs := []*fasta.Fasta{{Name: []byte("chrG a gigantic sequence"), Sequence: seq}}
			k.Input("sequence_length", l)
			text := fastaWrite(k, recs)
			fastaDecodeFrom(k, "written text", recs, bytes.NewReader(text))
			if k.Failed() {
				return
			}
			one := append(append([]byte(">chrG a gigantic sequence\n"), seq...), '\n')
			fastaDecodeFrom(k, "one unwrapped line", recs, bytes.NewReader(one))
			k.Count("gigantic_sequences", 1)
			k.Evals(2)
			k.Nontrivial([]byte(fmt.Sprint("gigantic", l)))
		})
	}
}

// c01NamesBySeq: sequences longer than any buffer (33 000 … 70 001 bases;
// thorough 140 000) under a name of EVERY length 0..200 (thorough 0..600) — the
// two-dimensional sweep: the length sweeps elsewhere vary one field while the
// other stays short.
func c01NamesBySeq(c *Ctx) {
	seqLens := []int{33000, 40000, 70001}
	maxName := 200
	if c.Thorough {
		seqLens = append(seqLens, 140000)
		maxName = 600
	}
	idx := int64(0)
	for _, sl := range seqLens {
		for nl := 0; nl <= maxName; nl++ {
			c.Case(idx, func(k *K) {
				r := k.Rand()
				rec := &fasta.Fasta{Name: randSeq(r, []byte("abcXYZ019 |._"), nl), Sequence: randSeq(r, []byte("ACGTN"), sl)}
				recs := []*fasta.Fasta{rec, {Name: []byte("next"), Sequence: []byte("ACGT")}}
				k.Input("name_length", nl)
				k.Input("sequence_length", sl)
				text := fastaWrite(k, recs)
				if k.Failed() {
					return
				}
				fastaDecodeCompare(k, "written text", recs, text)
				k.Count("records_roundtripped", 2)
				k.Count("long_records_by_name_length", 1)
				k.Evals(1)
				k.Nontrivial([]byte(fmt.Sprint("namesbyseq", nl, sl)))
			})
			idx++
		}
	}
}
