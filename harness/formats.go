package main

// Canonical record keys and item traces for the five record formats.

import (
	"fmt"
	"io"
	"iter"
	"math"
	"sort"
	"strings"

	"github.com/fluhus/biostuff/formats/bed"
	"github.com/fluhus/biostuff/formats/fasta"
	"github.com/fluhus/biostuff/formats/fastq"
	"github.com/fluhus/biostuff/formats/newick"
	"github.com/fluhus/biostuff/formats/sam"
)

// item is one element of an iterator's output: a record (by canonical key) or
// an error (by presence only).
type item struct {
	Key string
	Err bool
}

func (it item) String() string {
	if it.Err {
		if it.Key != "" {
			return "ERR+" + it.Key
		}
		return "ERR"
	}
	return it.Key
}

func traceString(tr []item) string {
	var sb strings.Builder
	for i, it := range tr {
		if i > 0 {
			sb.WriteString(" | ")
		}
		s := it.String()
		if len(s) > 200 {
			s = s[:200] + "…"
		}
		sb.WriteString(s)
		if sb.Len() > 3000 {
			fmt.Fprintf(&sb, " … (%d items)", len(tr))
			break
		}
	}
	return sb.String()
}

func sameTrace(a, b []item) bool {
	if len(a) != len(b) {
		return false
	}
	for i := range a {
		if a[i] != b[i] {
			return false
		}
	}
	return true
}

func fastaKey(f *fasta.Fasta) string {
	if f == nil {
		return "<nil>"
	}
	return fmt.Sprintf("FA{%q %q}", f.Name, f.Sequence)
}

func fastqKey(f *fastq.Fastq) string {
	if f == nil {
		return "<nil>"
	}
	return fmt.Sprintf("FQ{%q %q %q}", f.Name, f.Sequence, f.Quals)
}

func floatKey(f float64) string {
	if math.IsNaN(f) {
		return "NaN"
	}
	return fmt.Sprintf("%x", math.Float64bits(f))
}

func tagKey(v any) string {
	switch x := v.(type) {
	case byte:
		return fmt.Sprintf("A:%d", x)
	case int:
		return fmt.Sprintf("i:%d", x)
	case float64:
		return "f:" + floatKey(x)
	case string:
		return fmt.Sprintf("Z:%q", x)
	case []byte:
		return fmt.Sprintf("H:%x", x)
	default:
		return fmt.Sprintf("?%T:%v", v, v)
	}
}

func samKey(s *sam.SAM) string {
	if s == nil {
		return "<nil>"
	}
	names := make([]string, 0, len(s.Tags))
	for n := range s.Tags {
		names = append(names, n)
	}
	sort.Strings(names)
	var sb strings.Builder
	fmt.Fprintf(&sb, "SAM{%q %d %q %d %d %q %q %d %d %q %q", s.Qname, int(s.Flag), s.Rname, s.Pos, s.Mapq, s.Cigar,
		s.Rnext, s.Pnext, s.Tlen, s.Seq, s.Qual)
	for _, n := range names {
		fmt.Fprintf(&sb, " %q=%s", n, tagKey(s.Tags[n]))
	}
	sb.WriteByte('}')
	return sb.String()
}

func samOrHeaderKey(sh sam.SAMOrHeader) string {
	switch {
	case sh.H != nil && sh.S != nil:
		return "BOTH{" + *sh.H + " " + samKey(sh.S) + "}"
	case sh.H != nil:
		return fmt.Sprintf("HDR{%q}", *sh.H)
	case sh.S != nil:
		return samKey(sh.S)
	}
	return "<empty>"
}

func bedKey(b *bed.BED) string {
	if b == nil {
		return "<nil>"
	}
	return fmt.Sprintf("BED{%d %q %d %d %q %d %q %d %d %v %d [%s] [%s]}", b.N, b.Chrom, b.ChromStart, b.ChromEnd, b.Name,
		b.Score, b.Strand, b.ThickStart, b.ThickEnd, b.ItemRGB, b.BlockCount, joinInts(b.BlockSizes), joinInts(b.BlockStarts))
}

// treeKey renders a tree canonically without recursion (trees may be deep).
func treeKey(n *newick.Node) string {
	if n == nil {
		return "<nil>"
	}
	var sb strings.Builder
	type frame struct {
		n *newick.Node
		i int
	}
	stack := []frame{{n, 0}}
	for len(stack) > 0 {
		f := &stack[len(stack)-1]
		if f.i == 0 {
			fmt.Fprintf(&sb, "(%q:%s", f.n.Name, floatKeyDist(f.n.Distance))
		}
		if f.i < len(f.n.Children) {
			c := f.n.Children[f.i]
			f.i++
			if c == nil {
				sb.WriteString("(<nil>)")
				continue
			}
			stack = append(stack, frame{c, 0})
			continue
		}
		sb.WriteByte(')')
		stack = stack[:len(stack)-1]
	}
	return sb.String()
}

// floatKeyDist: distances compare as numbers (NaN==NaN, -0==0).
func floatKeyDist(f float64) string {
	if f == 0 {
		return "0"
	}
	return floatKey(f)
}

// A codec gives uniform access to one format's iterators.
type codec struct {
	name string
	ext  string
	// read decodes a stream into an item trace, stopping after maxItems items
	// (by returning false from the loop body).
	seq  func(r io.Reader) iter.Seq2[string, error]
	file func(path string) iter.Seq2[string, error]
}

func mapSeq[T any](s iter.Seq2[T, error], key func(T) string) iter.Seq2[string, error] {
	return func(yield func(string, error) bool) {
		for v, err := range s {
			k := ""
			if err == nil || !isNilish(v) {
				k = key(v)
				// appending to one field of a yielded record (id := append(rec.Name, "/1"...)) writes into that field's
				// spare capacity: no other field of the record may live there
				if fillSpare(v) {
					if k2 := key(v); k2 != k {
						k += " [FIELDS SHARE MEMORY: after writing into the spare capacity of each slice field the record reads " + k2 + "]"
					}
				}
				scribble(v)
			}
			if !yield(k, err) {
				return
			}
		}
	}
}

func isNilish(v any) bool {
	switch x := v.(type) {
	case *fasta.Fasta:
		return x == nil
	case *fastq.Fastq:
		return x == nil
	case *sam.SAM:
		return x == nil
	case *bed.BED:
		return x == nil
	case *newick.Node:
		return x == nil
	case sam.SAMOrHeader:
		return x.H == nil && x.S == nil
	}
	return false
}

var codecs = []*codec{
	{"fasta", ".fa",
		func(r io.Reader) iter.Seq2[string, error] { return mapSeq(fasta.Reader(r), fastaKey) },
		func(p string) iter.Seq2[string, error] { return mapSeq(fasta.File(p), fastaKey) }},
	{"fastq", ".fq",
		func(r io.Reader) iter.Seq2[string, error] { return mapSeq(fastq.Reader(r), fastqKey) },
		func(p string) iter.Seq2[string, error] { return mapSeq(fastq.File(p), fastqKey) }},
	{"sam", ".sam",
		func(r io.Reader) iter.Seq2[string, error] { return mapSeq(sam.Reader(r), samKey) },
		func(p string) iter.Seq2[string, error] { return mapSeq(sam.File(p), samKey) }},
	{"samh", ".sam",
		func(r io.Reader) iter.Seq2[string, error] { return mapSeq(sam.ReaderHeader(r), samOrHeaderKey) },
		func(p string) iter.Seq2[string, error] { return mapSeq(sam.FileHeader(p), samOrHeaderKey) }},
	{"bed", ".bed",
		func(r io.Reader) iter.Seq2[string, error] { return mapSeq(bed.Reader(r), bedKey) },
		func(p string) iter.Seq2[string, error] { return mapSeq(bed.File(p), bedKey) }},
	{"newick", ".nwk",
		func(r io.Reader) iter.Seq2[string, error] { return mapSeq(newick.Reader(r), treeKey) },
		func(p string) iter.Seq2[string, error] { return mapSeq(newick.File(p), treeKey) }},
}

func codecByName(n string) *codec {
	for _, c := range codecs {
		if c.name == n {
			return c
		}
	}
	panic("no codec " + n)
}

// collect drains an iterator into a trace; it stops consuming after maxItems
// items and reports that it had to.
func collect(s iter.Seq2[string, error], maxItems int) (tr []item, overflow bool) {
	for k, err := range s {
		if len(tr) >= maxItems {
			return tr, true
		}
		tr = append(tr, item{Key: k, Err: err != nil})
	}
	return tr, false
}

// scribble overwrites everything reachable from a yielded record, right after
// its canonical key has been taken: byte slices up to their capacity, maps get
// a foreign entry, trees are renamed and their child lists cleared. A yielded
// record is the caller's; if the reader (or another record, or a later decode)
// still shares memory with it, the damage shows up in what is observed next.
func scribble(v any) {
	fill := func(b []byte) {
		b = b[:cap(b)]
		for i := range b {
			b[i] = '#'
		}
	}
	fillInts := func(x []int) {
		x = x[:cap(x)]
		for i := range x {
			x[i] = -7777
		}
	}
	var samRec func(x *sam.SAM)
	samRec = func(x *sam.SAM) {
		if x == nil {
			return
		}
		for _, val := range x.Tags {
			if b, ok := val.([]byte); ok {
				fill(b)
			}
		}
		if x.Tags != nil {
			for name := range x.Tags {
				x.Tags[name] = "#scribbled"
			}
			x.Tags["zz"] = "#scribbled"
		}
		x.Qname, x.Rname, x.Cigar, x.Rnext, x.Seq, x.Qual = "#", "#", "#", "#", "#", "#"
		x.Flag, x.Pos, x.Mapq, x.Pnext, x.Tlen = 4095, -7777, -7777, -7777, -7777
	}
	switch x := v.(type) {
	case *fasta.Fasta:
		if x != nil {
			fill(x.Name)
			fill(x.Sequence)
		}
	case *fastq.Fastq:
		if x != nil {
			fill(x.Name)
			fill(x.Sequence)
			fill(x.Quals)
		}
	case *sam.SAM:
		samRec(x)
	case sam.SAMOrHeader:
		samRec(x.S)
		if x.H != nil {
			*x.H = "#scribbled"
		}
	case *bed.BED:
		if x != nil {
			fillInts(x.BlockSizes)
			fillInts(x.BlockStarts)
			x.Chrom, x.Name, x.Strand = "#", "#", "#"
			x.N, x.ChromStart, x.ChromEnd, x.Score, x.BlockCount = -7777, -7777, -7777, -7777, -7777
		}
	case *newick.Node:
		if x == nil {
			return
		}
		stack := []*newick.Node{x}
		for len(stack) > 0 {
			n := stack[len(stack)-1]
			stack = stack[:len(stack)-1]
			for _, c := range n.Children {
				if c != nil {
					stack = append(stack, c)
				}
			}
			ch := n.Children[:cap(n.Children)]
			for i := range ch {
				ch[i] = nil
			}
			n.Name, n.Distance, n.Children = "#scribbled", -7777, nil
		}
	}
}

// fillSpare writes into the spare capacity (len..cap) of every slice field of
// a yielded record, leaving the fields' contents alone; reports whether there
// was any spare capacity to write into.
func fillSpare(v any) bool {
	any := false
	fill := func(b []byte) {
		sp := b[len(b):cap(b)]
		for i := range sp {
			sp[i] = '!'
			any = true
		}
	}
	fillInts := func(x []int) {
		sp := x[len(x):cap(x)]
		for i := range sp {
			sp[i] = -1111
			any = true
		}
	}
	samRec := func(x *sam.SAM) {
		if x == nil {
			return
		}
		for _, val := range x.Tags {
			switch b := val.(type) {
			case []byte:
				fill(b)
			case []int:
				fillInts(b)
			}
		}
	}
	switch x := v.(type) {
	case *fasta.Fasta:
		if x != nil {
			fill(x.Name)
			fill(x.Sequence)
		}
	case *fastq.Fastq:
		if x != nil {
			fill(x.Name)
			fill(x.Sequence)
			fill(x.Quals)
		}
	case *sam.SAM:
		samRec(x)
	case sam.SAMOrHeader:
		samRec(x.S)
	case *bed.BED:
		if x != nil {
			fillInts(x.BlockSizes)
			fillInts(x.BlockStarts)
		}
	}
	return any
}
