package main

// C04 — BED lines with 3..12 fields.

import (
	"bytes"
	"fmt"
	"io"
	"math"
	"math/rand/v2"

	"github.com/fluhus/biostuff/formats/bed"
)

func genBedText(r *rand.Rand, chrom bool) string {
	for {
		s := genSamText(r, 16)
		if chrom && len(s) > 0 && s[0] == '#' {
			continue
		}
		return s
	}
}

func randInts(r *rand.Rand, n int) []int {
	out := make([]int, n)
	for i := range out {
		out[i] = randInt(r)
	}
	return out
}

// genBED returns a record with all twelve fields populated; fields beyond N
// carry junk on purpose. The fields within N are in the property's domain.
func genBED(r *rand.Rand, n int) *bed.BED {
	b := &bed.BED{
		N:          n,
		Chrom:      genBedText(r, true),
		ChromStart: randInt(r),
		ChromEnd:   randInt(r),
		Name:       genBedText(r, false),
		Score:      randInt(r),
		Strand:     pick(r, []string{"", "+", "-", "."}),
		ThickStart: randInt(r),
		ThickEnd:   randInt(r),
		ItemRGB:    [3]byte{byte(r.IntN(256)), byte(r.IntN(256)), byte(r.IntN(256))},
	}
	if r.IntN(4) == 0 {
		b.ItemRGB = [3]byte{0, 255, byte(r.IntN(2) * 255)}
	}
	switch {
	case n == 12:
		cnt := r.IntN(6)
		b.BlockCount = cnt
		b.BlockSizes = randInts(r, cnt)
		b.BlockStarts = randInts(r, cnt)
	case n == 11:
		// Block starts are not written, so the only consistent record has no blocks.
		b.BlockCount = 0
		b.BlockSizes = nil
		b.BlockStarts = randInts(r, r.IntN(3)) // junk beyond N
	case n == 10:
		b.BlockCount = 0
		b.BlockSizes = randInts(r, r.IntN(3))  // junk beyond N
		b.BlockStarts = randInts(r, r.IntN(3)) // junk beyond N
	default:
		b.BlockCount = randInt(r) // junk beyond N
		b.BlockSizes = randInts(r, r.IntN(3))
		b.BlockStarts = randInts(r, r.IntN(3))
	}
	return b
}

// bedExpected is the record a reader must return for b: the first N fields,
// everything else zero.
func bedExpected(b *bed.BED) *bed.BED {
	e := &bed.BED{N: b.N, Chrom: b.Chrom, ChromStart: b.ChromStart, ChromEnd: b.ChromEnd}
	if b.N > 3 {
		e.Name = b.Name
	}
	if b.N > 4 {
		e.Score = b.Score
	}
	if b.N > 5 {
		e.Strand = b.Strand
	}
	if b.N > 6 {
		e.ThickStart = b.ThickStart
	}
	if b.N > 7 {
		e.ThickEnd = b.ThickEnd
	}
	if b.N > 8 {
		e.ItemRGB = b.ItemRGB
	}
	if b.N > 9 {
		e.BlockCount = b.BlockCount
	}
	if b.N > 10 {
		e.BlockSizes = b.BlockSizes
	}
	if b.N > 11 {
		e.BlockStarts = b.BlockStarts
	}
	return e
}

func bedWrite(k *K, b *bed.BED) []byte {
	var w bytes.Buffer
	if err := b.Write(&w); err != nil {
		k.Failf("write-error", "Write returned %v for N=%d", err, b.N)
	}
	m, err := b.MarshalText()
	if err != nil {
		k.Failf("marshal-error", "MarshalText returned %v for N=%d", err, b.N)
	}
	if !bytes.Equal(w.Bytes(), m) {
		k.Failf("write-vs-marshal", "Write and MarshalText differ: %q vs %q", w.Bytes(), m)
	}
	writerZoo(k, []func(io.Writer) error{b.Write}, m)
	txt := w.Bytes()
	if len(txt) == 0 || txt[len(txt)-1] != '\n' || bytes.Count(txt, []byte("\n")) != 1 {
		k.Failf("one-line", "record is not exactly one LF-terminated line: %q", txt)
		return txt
	}
	if nf := bytes.Count(txt, []byte("\t")) + 1; nf != b.N {
		k.Failf("field-count", "line has %d tab-separated fields, want N=%d: %q", nf, b.N, txt)
	}
	return txt
}

func init() {
	register(&Property{
		ID:    "C04",
		Level: "exploration",
		Rule: "for every N in 3..12, BED records with all twelve fields populated (junk beyond N) from seeded generators (text: any bytes but TAB/CR/LF incl. double quotes, chrom not starting '#'; hostile ints; any RGB; " +
			"block lists consistent with the count) written and read back singly and in files sharing one N; N outside 3..12 must be refused with nothing emitted; " +
			"non-trivial = every round-trip case (all carry junk beyond N or a full 12-field record); distinct by hash of (N, written text)",
		Assumptions: []string{"text fields free of TAB/CR/LF; chrom does not start with '#'; strand in {\"\",+,-,.}",
			"for N=12 BlockCount = len(BlockSizes) = len(BlockStarts); for N in {10,11} the only record consistent after a round trip has BlockCount 0 (block lists are not all among the first N fields)"},
		MinEvents: map[string]int64{"records_roundtripped": 1000, "files": 50, "refusals": 16},
		Units: []Unit{
			{Name: "records", TShards: 8, Run: c04Records},
			{Name: "files", TShards: 2, Run: c04Files},
			{Name: "refuse", Run: c04Refuse},
			{Name: "long", TShards: 4, Run: c04Long},
			{Name: "sizes", TShards: 6, Run: c04Sizes},
			{Name: "prefixes", Run: prefixUnit("bed", false, 0)},
			{Name: "edges", Run: edgeUnit("bed")},
			{Name: "lexicon", TShards: 4, Run: lexiconUnit("bed")},
			{Name: "mixedsizes", QShards: 4, TShards: 8, Run: mixedSizesUnit("bed")},
			{Name: "fieldlens", TShards: 2, Run: lengthUnit("bed")},
			{Name: "parallel", Race: true, Run: codecParallel("bed")},
			{Name: "histories", Run: codecHistories("bed")},
			{Name: "readerzoo", TShards: 4, Run: zooUnit("bed")},
			{Name: "exactsizes", QShards: 2, TShards: 4, Run: exactSizeUnit("bed")},
			{Name: "tiny", TShards: 4, Run: tinyUnit("bed")},
			firstCallUnit(firstCodec("bed")),
		},
	})
}

func c04Records(c *Ctx) {
	per := c.N(1500, 100000)
	idx := int64(0)
	for n := 3; n <= 12; n++ {
		for j := 0; j < per; j++ {
			c.Case(idx, func(k *K) {
				r := k.Rand()
				b := genBED(r, n)
				k.Input("record", func() string { return bedKey(b) })
				want := bedKey(bedExpected(b))
				txt := bedWrite(k, b)
				k.Input("text", txt)
				got, over := collect(codecByName("bed").seq(bytes.NewReader(txt)), 3)
				if over || len(got) != 1 || got[0].Err || got[0].Key != want {
					k.Failf("roundtrip", "decoded %s\nwant    %s", traceString(got), want)
				}
				k.Count("records_roundtripped", 1)
				k.Count(fmt.Sprintf("N=%d", n), 1)
				k.Nontrivial([]byte{byte(n)}, txt)
			})
			idx++
		}
	}
}

func c04Files(c *Ctx) {
	n := c.N(1000, 50000)
	for i := 0; i < n; i++ {
		c.Case(int64(i), func(k *K) {
			r := k.Rand()
			nf := 3 + r.IntN(10)
			nr := 1 + r.IntN(20)
			if r.IntN(60) == 0 { // many records
				nr = 300 + r.IntN(3000)
				k.Count("many_record_files", 1)
			}
			var text bytes.Buffer
			var want []item
			var ms []func() ([]byte, error)
			var ws []func(io.Writer) error
			dup := r.IntN(4) == 0 // identical lines in a row (duplicates are everywhere in real interval files)
			for j := 0; j < nr; j++ {
				b := genBED(r, nf)
				reps := 1
				if dup && r.IntN(3) == 0 {
					reps = 2 + r.IntN(3)
					k.Count("repeated_lines", int64(reps-1))
				}
				for ; reps > 0; reps-- {
					ms = append(ms, b.MarshalText)
					ws = append(ws, b.Write)
					want = append(want, item{Key: bedKey(bedExpected(b))})
				}
			}
			nr = len(want)
			// all records marshalled first (results held), then written and compared
			text.Write(heldMarshalCheck(k, ms, ws))
			k.Input("N", nf)
			k.Input("text", func() string { return describeText(text.Bytes()) })
			got, over := collect(codecByName("bed").seq(bytes.NewReader(text.Bytes())), nr+3)
			if over || !sameTrace(got, want) {
				k.Failf("file-roundtrip", "file of %d records with N=%d decoded differently:\n got  %s\n want %s", nr, nf, traceString(got), traceString(want))
			}
			k.Count("files", 1)
			k.Count("file_records", int64(nr))
			k.Nontrivial(text.Bytes())
		})
	}
}

func c04Refuse(c *Ctx) {
	bad := []int{math.MinInt, -1, 0, 1, 2, 13, 14, math.MaxInt, -12, 100}
	for i, n := range bad {
		c.Case(int64(i), func(k *K) {
			r := k.Rand()
			for rep := 0; rep < 20; rep++ {
				b := genBED(r, 12)
				b.N = n
				k.Input("N", n)
				k.Input("record", bedKey(b))
				w := &limitWriter{k: -1}
				err := b.Write(w)
				if err == nil {
					k.Failf("refusal", "Write accepted N=%d", n)
				}
				if len(w.buf) != 0 {
					k.Failf("refusal", "Write emitted %d bytes (%q) for N=%d", len(w.buf), w.buf, n)
				}
				m, merr := b.MarshalText()
				if merr == nil {
					k.Failf("refusal", "MarshalText accepted N=%d and returned %q", n, m)
				}
				k.Count("refusals", 1)
				k.Evals(1)
			}
			k.Nontrivial([]byte(fmt.Sprint(n)))
		})
	}
	c.Exhaustive("refuse: N in {MinInt,-12,-1,0,1,2,13,14,100,MaxInt}")
}

// c04Long: lines longer than the usual I/O buffers (long names, many blocks).
func c04Long(c *Ctx) {
	n := c.N(150, 6000)
	for i := 0; i < n; i++ {
		c.Case(int64(i), func(k *K) {
			r := k.Rand()
			nf := 4 + r.IntN(9)
			nr := 1 + r.IntN(3)
			long := r.IntN(nr)
			var text bytes.Buffer
			var want []item
			for j := 0; j < nr; j++ {
				b := genBED(r, nf)
				if j == long {
					if nf == 12 && r.IntN(2) == 0 {
						cnt := 700 + r.IntN(3000)
						b.BlockCount, b.BlockSizes, b.BlockStarts = cnt, randInts(r, cnt), randInts(r, cnt)
					} else if r.IntN(3) == 0 {
						b.Chrom = "c" + string(longText(r, longSize(r), nil))
					} else {
						b.Name = string(longText(r, longSize(r), nil))
					}
				}
				text.Write(bedWrite(k, b))
				want = append(want, item{Key: bedKey(bedExpected(b))})
			}
			k.Input("N", nf)
			k.Input("text", func() string { return describeText(text.Bytes()) })
			got, over := collect(codecByName("bed").seq(bytes.NewReader(text.Bytes())), nr+3)
			if over || !sameTrace(got, want) {
				k.Failf("long-roundtrip", "file with a long line (N=%d) decoded differently:\n got  %.1500s\n want %.1500s", nf, traceString(got), traceString(want))
			}
			k.Count("long_line_files", 1)
			k.Count("records_roundtripped", int64(nr))
			k.Nontrivial(text.Bytes())
		})
	}
}

// c04Sizes sweeps name lengths densely around multiples of the usual buffer sizes.
func c04Sizes(c *Ctx) {
	spans := [][2]int{{3950, 4200}, {8040, 8200}}
	if c.Thorough {
		spans = [][2]int{{3900, 4250}, {8000, 8300}, {16200, 16500}, {65300, 65700}}
	}
	idx := int64(0)
	for _, sp := range spans {
		for l := sp[0]; l <= sp[1]; l++ {
			c.Case(idx, func(k *K) {
				r := k.Rand()
				k.Input("name_len", l)
				// two records per length: one with random fields, and one with every field present and each at
				// its widest (real coordinates, three-digit colour values, the same for every length) — so that
				// the END OF EVERY FIELD meets every offset around the buffer sizes as the name grows byte by byte
				for variant := 0; variant < 2 && !k.Failed(); variant++ {
					nf := 4 + r.IntN(9)
					if variant == 1 {
						nf = 9 + int(k.Idx%4)
					}
					first := genBED(r, nf)
					first.Name = string(longText(r, l, nil))
					if variant == 1 {
						first.Chrom, first.ChromStart, first.ChromEnd = "chr1", 155000000, 155100000
						first.Score, first.Strand = 1000, "+"
						first.ThickStart, first.ThickEnd = first.ChromStart, first.ChromEnd
						first.ItemRGB = [3]byte{255, 128, 128}
						k.Count("size_sweep_cases_all_fields_wide", 1)
					}
					second := genBED(r, nf)
					k.Input("N", nf)
					var ms []func() ([]byte, error)
					var ws []func(io.Writer) error
					var want []item
					for _, rec := range []*bed.BED{first, second} {
						ms = append(ms, rec.MarshalText)
						ws = append(ws, rec.Write)
						want = append(want, item{Key: bedKey(bedExpected(rec))})
					}
					text := heldMarshalCheck(k, ms, ws)
					got, over := collect(codecByName("bed").seq(bytes.NewReader(text)), 5)
					if over || !sameTrace(got, want) {
						k.Failf("roundtrip", "records around a buffer-size boundary decoded differently:\n got  %.800s\n want %.800s", traceString(got), traceString(want))
					}
					k.Count("records_roundtripped", 2)
					k.Count("size_sweep_cases", 1)
					k.Nontrivial([]byte(fmt.Sprint(nf, l, variant)), text[:min(64, len(text))])
				}
			})
			idx++
		}
	}
}
