package main

// "readers" units (see readers.go): the library call runs while reader
// goroutines read the memory it was told to leave alone; the -race build
// reports any write to it, including one that is undone before the call
// returns. The functional results are checked as well, so the units are
// meaningful (if weaker) in a build without the race detector.

import (
	"bytes"
	"fmt"
	"math"

	"github.com/fluhus/biostuff/align"
	"github.com/fluhus/biostuff/formats/newick"
	"github.com/fluhus/biostuff/sequtil"
)

func c19Readers(c *Ctx) {
	n := c.N(150, 3000)
	for i := 0; i < n; i++ {
		c.Case(int64(i), func(k *K) {
			r := k.Rand()
			size := 2 + r.IntN(60)
			if r.IntN(8) == 0 {
				size = 500 + r.IntN(3000)
			}
			root, nodes := randomTree(r, size, r.IntN(4))
			for j, nd := range nodes {
				nd.Name = fmt.Sprint("n", j)
				nd.Distance = float64(j)
			}
			k.Input("nodes", size)
			k.Input("tree", func() string { return fmt.Sprintf("%.2000s", treeKey(root)) })
			wantPre, wantPost := refPreOrder(root), refPostOrder(root)
			before := treeKey(root)
			read := func() uint64 {
				var s uint64
				for _, nd := range nodes {
					s += uint64(len(nd.Children)) + uint64(len(nd.Name)) + math.Float64bits(nd.Distance)
					for _, ch := range nd.Children {
						if ch != nil {
							s++
						}
					}
				}
				return s
			}
			var pre, post, part []*newick.Node
			underReaders(2, read, func() {
				for nd := range root.PreOrder() {
					pre = append(pre, nd)
				}
				for nd := range root.PostOrder() {
					post = append(post, nd)
				}
				stopAt := r.IntN(size)
				for nd := range root.PostOrder() {
					part = append(part, nd)
					if len(part) > stopAt {
						break
					}
				}
			})
			if !samePtrs(pre, wantPre) || !samePtrs(post, wantPost) || !samePtrs(part, wantPost[:len(part)]) {
				k.Failf("traversal-under-readers", "traversal of a tree that other goroutines are reading differs from the recursive order (%d/%d/%d nodes, want %d)", len(pre), len(post), len(part), len(wantPre))
			}
			if treeKey(root) != before {
				k.Failf("tree-modified", "the tree changed during traversal")
			}
			k.Count("traversals_under_readers", 3)
			k.Evals(2)
			k.Nontrivial([]byte(before))
		})
	}
}

func c12Readers(c *Ctx) {
	n := c.N(300, 6000)
	for i := 0; i < n; i++ {
		c.Case(int64(i), func(k *K) {
			r := k.Rand()
			l := 1 + r.IntN(200)
			if r.IntN(10) == 0 {
				l = 1000 + r.IntN(9000)
			}
			src := randSeq(r, []byte(dna10), l)
			prefix := randSeq(r, []byte(dna10), r.IntN(20))
			dst := withCap(prefix, pick(r, []int{0, 1, l - 1, l, l + 5}))
			kk := 1 + r.IntN(min(l, 40))
			k.Input("seq", src)
			k.Input("dst_prefix", prefix)
			k.Input("k", kk)
			src0, dst0 := append([]byte{}, src...), append([]byte{}, dst...)
			var got []byte
			var gotStr string
			items := 0
			underReaders(2, func() uint64 { return sumBytes(src, dst) }, func() {
				got = sequtil.ReverseComplement(dst, src)
				gotStr = sequtil.ReverseComplementString(string(src))
				for range sequtil.CanonicalSubsequences(src, kk) {
					items++
				}
			})
			want := refRevComp(src0)
			if !bytes.Equal(got, append(append([]byte{}, dst0...), want...)) || gotStr != string(want) || items != l-kk+1 {
				k.Failf("revcomp-under-readers", "results computed while other goroutines read src and dst are wrong (ReverseComplement %.100q, %d canonical items, want %d)", got, items, l-kk+1)
			}
			if !bytes.Equal(src, src0) || !bytes.Equal(dst, dst0) {
				k.Failf("input-modified", "src or the existing content of dst changed")
			}
			k.Count("calls_under_readers", 3)
			k.Evals(2)
			k.Nontrivial(src, prefix)
		})
	}
}

func c13Readers(c *Ctx) {
	n := c.N(300, 6000)
	for i := 0; i < n; i++ {
		c.Case(int64(i), func(k *K) {
			r := k.Rand()
			l := 1 + r.IntN(200)
			if r.IntN(10) == 0 {
				l = 1000 + r.IntN(9000)
			}
			src := randSeq(r, []byte(dna8), l)
			need := (l + 3) / 4
			prefix := randBytesExcl(r, r.IntN(12), nil)
			dst := withCap(prefix, pick(r, []int{0, 1, need - 1, need, need + 5}))
			packed := refPack(src)
			dst2 := withCap(prefix, pick(r, []int{0, 1, 4 * need, 4*need + 3}))
			k.Input("seq", src)
			k.Input("dst_prefix", prefix)
			src0, dst0, packed0, dst20 := append([]byte{}, src...), append([]byte{}, dst...), append([]byte{}, packed...), append([]byte{}, dst2...)
			var gotP, gotU []byte
			// only what the statement protects explicitly: the existing content of dst
			underReaders(2, func() uint64 { return sumBytes(dst, dst2) }, func() {
				gotP = sequtil.DNATo2Bit(dst, src)
				gotU = sequtil.DNAFrom2Bit(dst2, packed)
			})
			if !bytes.Equal(gotP, append(append([]byte{}, dst0...), packed0...)) || !bytes.Equal(gotU, append(append([]byte{}, dst20...), refUnpack(packed0)...)) {
				k.Failf("pack-under-readers", "results computed while other goroutines read the inputs are wrong: DNATo2Bit %x, DNAFrom2Bit %.100q", gotP, gotU)
			}
			if !bytes.Equal(src, src0) || !bytes.Equal(dst, dst0) || !bytes.Equal(packed, packed0) || !bytes.Equal(dst2, dst20) {
				k.Failf("input-modified", "an input or the existing content of dst changed")
			}
			k.Count("calls_under_readers", 2)
			k.Evals(1)
			k.Nontrivial(src, prefix)
		})
	}
}

func matrixSum(m align.SubstitutionMatrix) uint64 {
	var s uint64
	for key, v := range m {
		s += uint64(key[0]) + uint64(key[1])<<8 + math.Float64bits(v)
	}
	return s
}

func c08Readers(c *Ctx) {
	n := c.N(200, 4000)
	for i := 0; i < n; i++ {
		c.Case(int64(i), func(k *K) {
			r := k.Rand()
			alpha := []byte("acgt")[:2+r.IntN(3)]
			m, _ := c08Gen(r, 0, alpha) // Local-compatible (non-positive gap scores)
			a, b := relatedPair(r, alpha, pick(r, []int{8, 30, 120}))
			k.Input("a", a)
			k.Input("b", b)
			k.Input("matrix", matrixDesc(m))
			a0, b0 := append([]byte{}, a...), append([]byte{}, b...)
			snap := map[[2]byte]float64{}
			for key, v := range m {
				snap[key] = v
			}
			var gs, ls []align.Step
			var gscore, lscore float64
			var ai, bi int
			underReaders(2, func() uint64 { return sumBytes(a, b) + matrixSum(m) }, func() {
				gs, gscore = align.Global(a, b, m)
				ls, ai, bi, lscore = align.Local(a, b, m)
			})
			if !bytes.Equal(a, a0) || !bytes.Equal(b, b0) {
				k.Failf("input-modified", "Global/Local changed a or b")
			}
			if d := sameMatrix(m, snap); d != "" {
				k.Failf("matrix-modified", "Global/Local changed the matrix: %s", d)
			}
			if rs, ca, cb, prob := rescore(a0, b0, snap, gs, 0, 0); prob != "" || ca != len(a0) || cb != len(b0) || rs != gscore {
				k.Failf("global-under-readers", "Global result computed while other goroutines read its inputs does not re-score: %s score %v vs %v", prob, gscore, rs)
			}
			if len(ls) > 0 {
				if rs, _, _, prob := rescore(a0, b0, snap, ls, ai, bi); prob != "" || rs != lscore {
					k.Failf("local-under-readers", "Local result computed while other goroutines read its inputs does not re-score: %s score %v vs %v", prob, lscore, rs)
				}
			}
			k.Count("calls_under_readers", 2)
			k.Evals(1)
			k.Nontrivial(a, b, []byte(matrixString(m)))
		})
	}
}

func c20Readers(c *Ctx) {
	n := c.N(200, 4000)
	for i := 0; i < n; i++ {
		c.Case(int64(i), func(k *K) {
			r := k.Rand()
			alpha := append(genLabels(r, 2+r.IntN(6)), align.Gap)
			m := align.SubstitutionMatrix{}
			for _, x := range alpha {
				for _, y := range alpha {
					if x <= y && r.IntN(5) > 0 {
						m[[2]byte{x, y}] = float64(r.IntN(9) - 4)
					}
				}
			}
			snap := map[[2]byte]float64{}
			for key, v := range m {
				snap[key] = v
			}
			k.Input("matrix", func() string { return matrixString(snap) })
			var res align.SubstitutionMatrix
			var gostr string
			underReaders(2, func() uint64 { return matrixSum(m) }, func() {
				res = m.Symmetrical()
				gostr = m.GoString()
			})
			if d := sameMatrix(m, snap); d != "" {
				k.Failf("receiver-modified", "Symmetrical/GoString changed the receiver: %s", d)
			}
			for key, v := range snap {
				if res[key] != v || res[[2]byte{key[1], key[0]}] != v {
					k.Failf("symmetrical-under-readers", "Symmetrical computed while other goroutines read the receiver lacks %q or its mirror image with score %v", key, v)
					break
				}
			}
			if len(gostr) == 0 {
				k.Failf("gostring-empty", "GoString returned nothing")
			}
			k.Count("calls_under_readers", 2)
			k.Evals(1)
			k.Nontrivial([]byte(matrixString(snap)))
		})
	}
}
