package main

// C02 — FASTQ write -> read; malformed records rejected.

import (
	"bytes"
	"fmt"
	"io"
	"math/rand/v2"

	"github.com/fluhus/biostuff/formats/fastq"
)

var noCRLF = setOf("\r\n")

func genFastqRecord(r *rand.Rand, n int) *fastq.Fastq {
	nameLen := 0
	if r.IntN(5) > 0 {
		nameLen = r.IntN(40)
	}
	fq := &fastq.Fastq{Name: randBytesExcl(r, nameLen, noCRLF), Sequence: randBytesExcl(r, n, noCRLF), Quals: randBytesExcl(r, n, noCRLF)}
	if r.IntN(6) == 0 { // runs and repeats: poly-A / poly-N reads, flat quality strings
		fq.Sequence = runSeq(r, []byte(pick(r, []string{"ACGT", "ACGTN", "AN", "@+A"})), n)
		fq.Quals = runSeq(r, []byte(pick(r, []string{"!#I", "!", "@+I~", "FFFF:,#"})), n)
	}
	if n > 0 && r.IntN(3) == 0 {
		fq.Quals[0] = pick(r, []byte{'@', '+', '"', '>'})
	}
	if n > 0 && r.IntN(6) == 0 {
		fq.Sequence[0] = pick(r, []byte{'@', '+', '"'})
	}
	return fq
}

func genFastqLen(r *rand.Rand) int {
	switch r.IntN(10) {
	case 0:
		return 0
	case 1:
		return 1 + r.IntN(3)
	case 2:
		return pick(r, []int{4095, 4096, 4097})
	default:
		return r.IntN(300)
	}
}

func genFastqList(r *rand.Rand, maxn int) []*fastq.Fastq {
	n := r.IntN(maxn + 1)
	if r.IntN(80) == 0 { // many small records
		n = 300 + r.IntN(3000)
		recs := make([]*fastq.Fastq, n)
		for i := range recs {
			recs[i] = genFastqRecord(r, r.IntN(80))
		}
		return recs
	}
	var recs []*fastq.Fastq
	for i := 0; i < n; i++ {
		recs = append(recs, genFastqRecord(r, genFastqLen(r)))
	}
	return recs
}

func fastqListString(recs []*fastq.Fastq) string {
	s := fmt.Sprintf("%d records:", len(recs))
	if len(recs) > 40 {
		return s + " (many small records)"
	}
	for _, r := range recs {
		if len(r.Sequence) > 100 || len(r.Name) > 100 {
			s += fmt.Sprintf(" {name=%.60q namelen=%d len=%d}", r.Name, len(r.Name), len(r.Sequence))
		} else {
			s += fmt.Sprintf(" {name=%q seq=%q quals=%q}", r.Name, r.Sequence, r.Quals)
		}
	}
	return s
}

func fastqWrite(k *K, recs []*fastq.Fastq) []byte {
	var ms []func() ([]byte, error)
	var ws []func(io.Writer) error
	for _, rec := range recs {
		ms = append(ms, rec.MarshalText)
		ws = append(ws, rec.Write)
	}
	return heldMarshalCheck(k, ms, ws)
}

// fastqShape: each record is exactly the four lines @name, seq, +, quals.
func fastqShape(k *K, recs []*fastq.Fastq, text []byte) {
	var want bytes.Buffer
	for _, r := range recs {
		want.WriteByte('@')
		want.Write(r.Name)
		want.WriteByte('\n')
		want.Write(r.Sequence)
		want.WriteString("\n+\n")
		want.Write(r.Quals)
		want.WriteByte('\n')
	}
	if !bytes.Equal(want.Bytes(), text) {
		i := 0
		for i < len(text) && i < want.Len() && text[i] == want.Bytes()[i] {
			i++
		}
		k.Failf("shape", "written text is not the four-line form; first difference at byte %d (got %d bytes, want %d)", i, len(text), want.Len())
	}
}

func sameFastq(a, b *fastq.Fastq) bool {
	return bytes.Equal(a.Name, b.Name) && bytes.Equal(a.Sequence, b.Sequence) && bytes.Equal(a.Quals, b.Quals)
}

func fastqDecodeCompare(k *K, recs []*fastq.Fastq, text []byte) {
	// Records are held until the iteration is over and compared again then.
	var held []*fastq.Fastq
	for got, err := range fastq.Reader(bytes.NewReader(text)) {
		if err != nil {
			k.Failf("roundtrip", "reader error at item %d: %v", len(held), err)
			return
		}
		if len(held) >= len(recs) {
			k.Failf("roundtrip", "more than %d records decoded", len(recs))
			return
		}
		if !sameFastq(got, recs[len(held)]) {
			k.Failf("roundtrip", "record %d decoded as %.300s, want %.300s", len(held), fastqKey(got), fastqKey(recs[len(held)]))
			return
		}
		held = append(held, got)
	}
	if len(held) != len(recs) {
		k.Failf("roundtrip", "decoded %d records, want %d", len(held), len(recs))
		return
	}
	for i, got := range held {
		if !sameFastq(got, recs[i]) {
			k.Failf("record-not-stable", "record %d was correct when yielded but reads %.300s after the iteration went on (want %.300s)", i, fastqKey(got), fastqKey(recs[i]))
			return
		}
	}
}

// fastqCorruptionCheck decodes a corrupted text and checks: items 0..i-1 are
// the originals, item i is an error, and no item is a record that is not one
// of the originals.
func fastqCorruptionCheck(k *K, what string, recs []*fastq.Fastq, i int, text []byte) {
	orig := map[string]bool{}
	for _, r := range recs {
		orig[fastqKey(r)] = true
	}
	// The same text is delivered in four ways in turn (by case and text length):
	// from memory, with the last bytes together with io.EOF, byte by byte, and by
	// a reader that ends with an error which wraps io.EOF (a connection closed
	// early) instead of the bare io.EOF value. The expectation is the same.
	var src io.Reader = bytes.NewReader(text)
	switch (int(k.Idx) + len(text)) % 4 {
	case 1:
		src = &schedReader{data: text, sizes: []int{7, 1, 4096}, eofWith: true}
		k.Count("delivered_eof_with_data", 1)
	case 2:
		src = &schedReader{data: text}
		k.Count("delivered_bytewise", 1)
	case 3:
		src = &faultReader{data: text, k: len(text), forever: len(text)%2 == 0, withData: len(text)%3 == 0, budget: len(text) + 10000,
			err: fmt.Errorf("read tcp 10.0.0.1:443: connection closed by peer: %w", io.EOF)}
		k.Count("delivered_ending_in_wrapped_eof", 1)
	}
	n := 0
	sawErrAt := -1
	for got, err := range fastq.Reader(src) {
		if n > len(recs)+4 {
			k.Failf("corruption", "%s: more than %d items", what, n)
			return
		}
		if err != nil {
			if sawErrAt < 0 {
				sawErrAt = n
			}
			n++
			continue
		}
		if got == nil {
			k.Failf("corruption", "%s: item %d is a nil record without error", what, n)
			return
		}
		if n < i {
			if !sameFastq(got, recs[n]) {
				k.Failf("corruption", "%s: preceding record %d not intact: got %.200s want %.200s", what, n, fastqKey(got), fastqKey(recs[n]))
				return
			}
		} else if n == i {
			k.Failf("corruption", "%s: item %d is a record (%.200s), want an error for the corrupted record", what, n, fastqKey(got))
			return
		} else if !orig[fastqKey(got)] {
			k.Failf("corruption", "%s: item %d is a fabricated record %.200s", what, n, fastqKey(got))
			return
		}
		n++
	}
	if sawErrAt != i {
		k.Failf("corruption", "%s: error expected at item %d, observed at %d (items: %d)", what, i, sawErrAt, n)
	}
}

func init() {
	register(&Property{
		ID:    "C02",
		Level: "exploration",
		Rule: "FASTQ record lists from seeded generators (any bytes but CR/LF, equal sequence/quality lengths, hostile first bytes '@' '+' '\"', read lengths incl. >64 KiB and MiB) round-tripped; " +
			"valid files corrupted at one record (leading '@' replaced, '+' line replaced/deleted, qualities lengthened/shortened, truncation at every offset before the fourth line); " +
			"non-trivial = non-empty list (round trip) or any corruption case; distinct by hash of the text fed to the reader",
		Assumptions: []string{"name, sequence, qualities free of CR/LF; sequence and qualities of equal length",
			"a '+' line is deleted only when the qualities do not themselves begin with '+', so that the corrupted text has no valid reading"},
		MinEvents: map[string]int64{"records_roundtripped": 100, "corruptions": 500, "truncations": 500},
		Units: []Unit{
			{Name: "lengths", TShards: 4, Run: c02Lengths},
			{Name: "lists", TShards: 4, Run: c02Lists},
			{Name: "corrupt", QShards: 8, TShards: 12, Run: c02Corrupt},
			{Name: "sizes", TShards: 6, Run: c02Sizes},
			{Name: "prefixes", Run: prefixUnit("fastq", false, 0)},
			{Name: "edges", Run: edgeUnit("fastq")},
			{Name: "lexicon", TShards: 4, Run: lexiconUnit("fastq")},
			{Name: "mixedsizes", QShards: 4, TShards: 8, Run: mixedSizesUnit("fastq")},
			{Name: "fieldlens", TShards: 2, Run: lengthUnit("fastq")},
			{Name: "parallel", Race: true, Run: codecParallel("fastq")},
			{Name: "histories", Run: codecHistories("fastq")},
			{Name: "readerzoo", TShards: 4, Run: zooUnit("fastq")},
			{Name: "exactsizes", QShards: 2, TShards: 4, Run: exactSizeUnit("fastq")},
			{Name: "tiny", TShards: 4, Run: tinyUnit("fastq")},
			{Name: "namesbyseq", QShards: 2, TShards: 4, Run: c02NamesBySeq},
			{Name: "quallens", QShards: 2, TShards: 4, Run: c02QualLens},
			firstCallUnit(firstCodec("fastq")),
		},
	})
}

func c02Lengths(c *Ctx) {
	lens := []int{0, 1, 2, 3, 100, 4095, 4096, 4097, 65535, 65536, 65537, 70000, 200000}
	for l := 4; l < c.N(64, 600); l++ {
		lens = append(lens, l)
	}
	if c.Thorough {
		lens = append(lens, 1<<20, 1<<20+1, 4<<20, 131071, 131072, 131073)
	}
	for i, l := range lens {
		c.Case(int64(i), func(k *K) {
			r := k.Rand()
			recs := []*fastq.Fastq{genFastqRecord(r, l)}
			if r.IntN(4) == 0 {
				recs[0].Name = randBytesExcl(r, longSize(r), noCRLF) // name longer than the I/O buffers
			}
			if r.IntN(2) == 0 {
				recs = append(recs, genFastqRecord(r, r.IntN(50)))
			}
			k.Input("records", func() string { return fastqListString(recs) })
			text := fastqWrite(k, recs)
			fastqShape(k, recs, text)
			fastqDecodeCompare(k, recs, text)
			k.Count("records_roundtripped", int64(len(recs)))
			if l > 65535 {
				k.Count("reads_over_64KiB", 1)
			}
			k.Nontrivial(text)
		})
	}
}

func c02Lists(c *Ctx) {
	n := c.N(4000, 200000)
	for i := 0; i < n; i++ {
		c.Case(int64(i), func(k *K) {
			r := k.Rand()
			recs := genFastqList(r, 8)
			var ar *arenaT
			if k.Idx%2 == 1 && len(recs) <= 40 {
				var parts [][]byte
				for _, rec := range recs {
					parts = append(parts, rec.Name, rec.Sequence, rec.Quals)
				}
				ar = newArena(r, parts...)
				for j, rec := range recs {
					rec.Name, rec.Sequence, rec.Quals = ar.parts[3*j], ar.parts[3*j+1], ar.parts[3*j+2]
				}
				k.Count("arena_cases", 1)
			}
			k.Input("records", func() string { return fastqListString(recs) })
			text := fastqWrite(k, recs)
			if ar != nil && arenaFail(k, ar, "Fastq.Write/MarshalText") {
				return
			}
			fastqShape(k, recs, text)
			fastqDecodeCompare(k, recs, text)
			k.Count("records_roundtripped", int64(len(recs)))
			if len(recs) > 0 {
				k.Nontrivial(text)
			}
		})
	}
}

func c02Corrupt(c *Ctx) {
	n := c.N(5000, 200000)
	for ci := 0; ci < n; ci++ {
		c.Case(int64(ci), func(k *K) {
			r := k.Rand()
			var recs []*fastq.Fastq
			nrec := 1 + r.IntN(6)
			for j := 0; j < nrec; j++ {
				l := r.IntN(30)
				if r.IntN(8) == 0 {
					l = 0
				}
				if k.Idx%4 == 3 { // lines longer than an error message would quote in full
					l = 61 + r.IntN(140)
				}
				rec := genFastqRecord(r, l)
				if k.Idx%4 == 3 && r.IntN(2) == 0 {
					rec.Name = randBytesExcl(r, 61+r.IntN(140), noCRLF)
				}
				recs = append(recs, rec)
			}
			i := r.IntN(nrec)
			k.Input("records", func() string { return fastqListString(recs) })
			k.Input("corrupted_record", i)
			// Offsets of the record and of its lines in the valid text.
			var pre bytes.Buffer
			for _, rec := range recs[:i] {
				rec.Write(&pre)
			}
			var post bytes.Buffer
			for _, rec := range recs[i+1:] {
				rec.Write(&post)
			}
			rec := recs[i]
			line := func(parts ...[]byte) []byte {
				var b bytes.Buffer
				b.Write(pre.Bytes())
				for _, p := range parts {
					b.Write(p)
					b.WriteByte('\n')
				}
				b.Write(post.Bytes())
				return b.Bytes()
			}
			name := append([]byte("@"), rec.Name...)
			plus := []byte("+")
			kind := r.IntN(6)
			if k.Idx%70 == 69 {
				kind = 6
			}
			switch kind {
			case 6:
				// The file ends INSIDE a long line of the record (its name, its sequence), at a distance from the
				// start of that line that is a multiple of the usual buffer sizes (one less, exactly, one more):
				// a reader that collects a long line chunk by chunk sees its last chunk end together with the
				// input. Every cut lies before the fourth line, so the record must be reported as an error.
				rec = genFastqRecord(r, pick(r, []int{40, 66000, 131200}))
				rec.Name = randBytesExcl(r, pick(r, []int{66000, 70000, 131200, 30}), noCRLF)
				recs[i] = rec
				name = append([]byte("@"), rec.Name...)
				full := line(name, rec.Sequence, plus, rec.Quals)
				lineStarts := []int{pre.Len(), pre.Len() + len(name) + 1}
				lineLens := []int{len(name), len(rec.Sequence)}
				for li := range lineStarts {
					for _, m := range []int{4095, 4096, 4097, 8192, 65535, 65536, 65537, 131071, 131072, 131073} {
						if m > lineLens[li] {
							continue
						}
						t := lineStarts[li] + m
						text := full[:t]
						k.Input("kind", fmt.Sprintf("file ends %d bytes into line %d of the record (that line has %d bytes)", m, li+1, lineLens[li]))
						k.Input("text", func() string { return describeText(text) })
						fastqCorruptionCheck(k, fmt.Sprintf("cut %d bytes into a long line", m), recs, i, text)
						k.Count("truncations", 1)
						k.Count("truncations_inside_long_lines", 1)
						k.Evals(1)
						if k.Failed() {
							return
						}
					}
				}
				k.Nontrivial(full[:min(len(full), 300)], []byte("long-line-cuts"))
			case 5:
				// Coincidences of lengths: the qualities are short by exactly 1 + the length of the following one, two
				// or three lines, so that a line break sits where the qualities of a well-formed record would end (a
				// reader that jumps ahead by len(sequence) instead of looking for the end of the line lands on it); or
				// the line break after the qualities is missing. Also with reads longer than the usual buffers.
				if post.Len() == 0 {
					extra := genFastqRecord(r, r.IntN(20))
					recs = append(recs, extra)
					extra.Write(&post)
				}
				following := bytes.SplitAfter(post.Bytes(), []byte("\n"))
				nl := 1 + r.IntN(min(3, len(following)-1))
				d := 0
				for _, l := range following[:nl] {
					d += len(l)
				}
				// d = 1 + (bytes of the nl lines without the last line break)
				L := d + 1 + r.IntN(20)
				switch r.IntN(3) {
				case 1:
					L = 4090 + r.IntN(12) + d
				case 2:
					L = pick(r, []int{65536, 65537, 70000, 131072}) + r.IntN(3)
				}
				rec = genFastqRecord(r, L)
				recs[i] = rec
				name = append([]byte("@"), rec.Name...)
				var text []byte
				if r.IntN(4) == 0 {
					b := line(name, rec.Sequence, plus, rec.Quals)
					cut := pre.Len() + len(name) + 1 + L + 1 + 2 + L // the line break after the qualities
					text = append(append([]byte{}, b[:cut]...), b[cut+1:]...)
					k.Input("kind", "line break after the qualities missing")
				} else {
					text = line(name, rec.Sequence, plus, rec.Quals[:L-d])
					k.Input("kind", fmt.Sprintf("read of %d bases, qualities short by %d = 1 + the length of the following %d line(s)", L, d, nl))
				}
				k.Input("text", text)
				fastqCorruptionCheck(k, "length coincidence", recs, i, text)
				k.Count("corruptions", 1)
				k.Count("length_coincidences", 1)
				k.Nontrivial(text)
			case 0: // leading '@' replaced, or deleted when the name does not itself begin with '@'
				if r.IntN(3) == 0 && !bytes.HasPrefix(rec.Name, []byte("@")) {
					text := line(rec.Name, rec.Sequence, plus, rec.Quals)
					k.Input("kind", "leading '@' deleted")
					k.Input("text", text)
					fastqCorruptionCheck(k, "leading @ deleted", recs, i, text)
					k.Count("corruptions", 1)
					k.Count("at_deleted", 1)
					k.Nontrivial(text)
					break
				}
				var nb byte
				for {
					nb = byte(r.IntN(256))
					if nb != '@' && nb != '\n' && nb != '\r' {
						break
					}
				}
				bad := append([]byte{nb}, rec.Name...)
				text := line(bad, rec.Sequence, plus, rec.Quals)
				k.Input("kind", fmt.Sprintf("leading '@' replaced by %q", nb))
				k.Input("text", text)
				fastqCorruptionCheck(k, "no leading @", recs, i, text)
				k.Count("corruptions", 1)
				k.Nontrivial(text)
			case 1: // '+' line replaced or deleted
				if r.IntN(2) == 0 && !bytes.HasPrefix(rec.Quals, []byte("+")) {
					text := line(name, rec.Sequence, rec.Quals)
					k.Input("kind", "'+' line deleted")
					k.Input("text", text)
					fastqCorruptionCheck(k, "'+' line deleted", recs, i, text)
					k.Count("corruptions", 1)
					k.Nontrivial(text)
				} else {
					var bad []byte
					if r.IntN(3) > 0 {
						bad = randBytesExcl(r, 1+r.IntN(4), noCRLF)
						if bad[0] == '+' {
							bad[0] = '-'
						}
					}
					if r.IntN(3) == 0 {
						// what the optional text after '+' may be — the name again — behind another first byte; or the
						// header line itself, duplicated
						bad = append([]byte{pick(r, []byte("-@ >!"))}, rec.Name...)
					}
					text := line(name, rec.Sequence, bad, rec.Quals)
					k.Input("kind", fmt.Sprintf("'+' line replaced by %q", bad))
					k.Input("text", text)
					fastqCorruptionCheck(k, "'+' line replaced", recs, i, text)
					k.Count("corruptions", 1)
					k.Nontrivial(text)
				}
			case 2: // qualities lengthened or shortened
				d := 1 + r.IntN(3)
				var q []byte
				if r.IntN(2) == 0 && len(rec.Quals) >= d {
					q = rec.Quals[:len(rec.Quals)-d]
					k.Input("kind", fmt.Sprintf("qualities shortened by %d", d))
				} else {
					q = append(append([]byte{}, rec.Quals...), randBytesExcl(r, d, noCRLF)...)
					k.Input("kind", fmt.Sprintf("qualities lengthened by %d", d))
				}
				text := line(name, rec.Sequence, plus, q)
				k.Input("text", text)
				fastqCorruptionCheck(k, "quality length", recs, i, text)
				k.Count("corruptions", 1)
				k.Nontrivial(text)
			default: // truncation at every offset before the fourth line
				full := line(name, rec.Sequence, plus, rec.Quals)
				s := pre.Len()
				q := s + len(name) + 1 + len(rec.Sequence) + 1 + 2
				for t := s + 1; t <= q; t++ {
					text := full[:t]
					k.Input("kind", fmt.Sprintf("file truncated to %d bytes (record starts at %d, fourth line at %d)", t, s, q))
					k.Input("text", text)
					fastqCorruptionCheck(k, fmt.Sprintf("truncated at %d", t), recs, i, text)
					k.Count("truncations", 1)
					k.Evals(1)
					k.Nontrivial(text)
					if k.Failed() {
						break
					}
				}
			}
		})
	}
}

// c02Sizes sweeps read lengths densely around the points where the written
// record crosses multiples of the usual buffer sizes; two records per case.
func c02Sizes(c *Ctx) {
	spans := [][2]int{{1900, 2200}}
	if c.Thorough {
		spans = [][2]int{{1900, 2200}, {3950, 4250}, {8000, 8300}, {32600, 32900}}
	}
	idx := int64(0)
	for _, nl := range []int{0, 5, 40} {
		for _, sp := range spans {
			for l := sp[0]; l <= sp[1]; l++ {
				c.Case(idx, func(k *K) {
					r := k.Rand()
					first := genFastqRecord(r, l)
					first.Name = randBytesExcl(r, nl, noCRLF)
					recs := []*fastq.Fastq{first, genFastqRecord(r, r.IntN(60))}
					k.Input("name_len", nl)
					k.Input("read_len", l)
					text := fastqWrite(k, recs)
					fastqShape(k, recs, text)
					fastqDecodeCompare(k, recs, text)
					k.Count("records_roundtripped", 2)
					k.Count("size_sweep_cases", 1)
					k.Nontrivial([]byte(fmt.Sprint(nl, l)), text[:min(64, len(text))])
				})
				idx++
			}
		}
	}
}

// c02NamesBySeq: reads longer than any buffer under a name of EVERY length
// 0..200 (thorough 0..600) — see c01NamesBySeq.
func c02NamesBySeq(c *Ctx) {
	seqLens := []int{33000, 40000, 70001}
	maxName := 200
	if c.Thorough {
		seqLens = append(seqLens, 140000)
		maxName = 600
	}
	idx := int64(0)
	for _, sl := range seqLens {
		for nl := 0; nl <= maxName; nl++ {
			c.Case(idx, func(k *K) {
				r := k.Rand()
				rec := &fastq.Fastq{Name: randSeq(r, []byte("abcXYZ019 |._"), nl), Sequence: randSeq(r, []byte("ACGTN"), sl), Quals: randSeq(r, []byte("!#5I~"), sl)}
				recs := []*fastq.Fastq{rec, {Name: []byte("next"), Sequence: []byte("ACGT"), Quals: []byte("IIII")}}
				k.Input("name_length", nl)
				k.Input("sequence_length", sl)
				text := fastqWrite(k, recs)
				if k.Failed() {
					return
				}
				fastqDecodeCompare(k, recs, text)
				k.Count("records_roundtripped", 2)
				k.Count("long_records_by_name_length", 1)
				k.Evals(1)
				k.Nontrivial([]byte(fmt.Sprint("namesbyseq", nl, sl)))
			})
			idx++
		}
	}
}

// c02QualLens: "qualities of a different length produce an error" — for EVERY
// pair of lengths: sequences of 0..64 bases with quality lines of 0..300 bytes
// (thorough 0..1200), and sequences of 100, 384 and 1000 bases with quality
// lines up to 1700 bytes longer. The corrupt unit changes the length by 1..3;
// a length test that goes through sizes of buffers (capacities, size classes,
// blocks) is wrong for particular pairs far from the diagonal.
func c02QualLens(c *Ctx) {
	maxQ := c.N(300, 1200)
	type span struct{ s, lo, hi int }
	var spans []span
	for sl := 0; sl <= 64; sl++ {
		spans = append(spans, span{sl, 0, maxQ})
	}
	for _, sl := range []int{100, 384, 1000} {
		spans = append(spans, span{sl, max(0, sl-40), sl + 1700})
	}
	for i, sp := range spans {
		c.Case(int64(i), func(k *K) {
			r := k.Rand()
			first := &fastq.Fastq{Name: []byte("r1"), Sequence: []byte("ACGT"), Quals: []byte("IIII")}
			last := &fastq.Fastq{Name: []byte("r3"), Sequence: []byte("GG"), Quals: []byte("#5")}
			seq := randSeq(r, []byte("ACGTN"), sp.s)
			for q := sp.lo; q <= sp.hi; q++ {
				if q == sp.s {
					continue
				}
				quals := randSeq(r, []byte("!#5?I~"), q)
				bad := &fastq.Fastq{Name: []byte("r2"), Sequence: seq, Quals: quals}
				var text []byte
				text = append(text, "@r1\nACGT\n+\nIIII\n@r2\n"...)
				text = append(append(append(append(text, seq...), "\n+\n"...), quals...), "\n@r3\nGG\n+\n#5\n"...)
				k.Input("sequence_length", sp.s)
				k.Input("quality_length", q)
				fastqCorruptionCheck(k, "quality length", []*fastq.Fastq{first, bad, last}, 1, text)
				if k.Failed() {
					return
				}
				k.Count("corruptions", 1)
				k.Count("length_pairs", 1)
				k.Evals(1)
			}
			k.Nontrivial([]byte(fmt.Sprint("quallens", sp.s)))
		})
	}
}
