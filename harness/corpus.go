package main

// Well-formed file generators per format and grammar-aware mutation, shared
// by C06, C07, C11 and C18.

import (
	"bytes"
	"fmt"
	"math/rand/v2"

	"github.com/fluhus/biostuff/formats/fasta"
	"github.com/fluhus/biostuff/formats/fastq"
)

// wellFormed returns a well-formed text of the given format ("fasta",
// "fastq", "sam", "samh", "bed", "newick") with roughly `size` records/items
// (0 = random small).
func wellFormed(r *rand.Rand, format string, size int) []byte {
	if size <= 0 {
		size = r.IntN(9)
	}
	var buf bytes.Buffer
	switch format {
	case "fasta":
		for i := 0; i < size; i++ {
			l := genFastaLen(r)
			if l > 4000 && r.IntN(4) > 0 {
				l = r.IntN(300)
			}
			genFastaRecord(r, l).Write(&buf)
		}
	case "fastq":
		for i := 0; i < size; i++ {
			genFastqRecord(r, genFastqLen(r)).Write(&buf)
		}
	case "sam", "samh":
		for i := r.IntN(4); i > 0; i-- {
			buf.WriteString(genSamHeader(r))
			buf.WriteByte('\n')
		}
		for i := 0; i < size; i++ {
			if r.IntN(12) == 0 {
				buf.WriteString("\n") // empty lines are skipped
			}
			genSAM(r).Write(&buf)
		}
	case "bed":
		n := 3 + r.IntN(10)
		for i := 0; i < size; i++ {
			if r.IntN(10) == 0 {
				buf.WriteString("#comment " + string(randBytesExcl(r, r.IntN(10), noCRLF)) + "\n")
			}
			if r.IntN(10) == 0 {
				buf.WriteString("\n") // empty lines are skipped
			}
			genBED(r, n).Write(&buf)
		}
	case "newick":
		for i := 0; i < size; i++ {
			root, nodes := randomTree(r, 1+r.IntN(10), r.IntN(4))
			decorate(r, nodes)
			m, _ := root.MarshalText()
			buf.Write(m)
			buf.WriteString(pick(r, treeSeparators))
		}
	case "ncbi":
		buf.Write(genNCBITable(r).render(r, genNCBILayout(r)))
	default:
		panic("wellFormed: unknown format " + format)
	}
	return buf.Bytes()
}

// plainWellFormed returns well-formed text made of LF-terminated lines whose
// fields are free of CR (and, for Newick, names free of CR/LF) so that an
// LF -> CRLF conversion is meaning-preserving.
func plainWellFormed(r *rand.Rand, format string) []byte {
	switch format {
	case "fasta":
		var buf bytes.Buffer
		for _, rec := range genFastaList(r) {
			rec.Write(&buf)
		}
		return buf.Bytes()
	case "newick":
		var buf bytes.Buffer
		for i := r.IntN(6); i > 0; i-- {
			root, nodes := randomTree(r, 1+r.IntN(10), r.IntN(4))
			decorate(r, nodes)
			for _, n := range nodes {
				n.Name = string(bytes.Map(func(c rune) rune {
					if c == '\n' || c == '\r' {
						return 'x'
					}
					return c
				}, []byte(n.Name)))
			}
			m, _ := root.MarshalText()
			buf.Write(m)
			buf.WriteString("\n")
		}
		return buf.Bytes()
	}
	return wellFormed(r, format, 0)
}

const delimiterSoup = "\t\n\r >@+#;:,()'\"_*"

var numberSoup = []string{"0", "-1", "1.5", "x", "", "9999999999999999999999999", "+7", "0x10", "1e3", " 5", "5 ", "-", "--1", "NaN", "1_0"}

// mutate applies 1..4 grammar-aware edits.
func mutate(r *rand.Rand, text []byte, other []byte) []byte {
	out := append([]byte{}, text...)
	for e := 1 + r.IntN(4); e > 0; e-- {
		switch r.IntN(12) {
		case 0: // flip a byte
			if len(out) > 0 {
				out[r.IntN(len(out))] ^= byte(1 << r.IntN(8))
			}
		case 1: // delete a byte or a short range
			if len(out) > 0 {
				i := r.IntN(len(out))
				j := min(len(out), i+1+r.IntN(3))
				out = append(out[:i], out[j:]...)
			}
		case 2: // insert a random byte
			i := r.IntN(len(out) + 1)
			out = append(out[:i], append([]byte{byte(r.IntN(256))}, out[i:]...)...)
		case 3, 4: // insert a delimiter of any format
			i := r.IntN(len(out) + 1)
			out = append(out[:i], append([]byte{delimiterSoup[r.IntN(len(delimiterSoup))]}, out[i:]...)...)
		case 5: // duplicate a line
			lines := bytes.SplitAfter(out, []byte("\n"))
			if len(lines) > 0 {
				i := r.IntN(len(lines))
				lines = append(lines[:i+1], lines[i:]...)
				out = bytes.Join(lines, nil)
			}
		case 6: // swap two lines
			lines := bytes.SplitAfter(out, []byte("\n"))
			if len(lines) > 1 {
				i, j := r.IntN(len(lines)), r.IntN(len(lines))
				lines[i], lines[j] = lines[j], lines[i]
				out = bytes.Join(lines, nil)
			}
		case 7: // drop a line
			lines := bytes.SplitAfter(out, []byte("\n"))
			if len(lines) > 0 {
				i := r.IntN(len(lines))
				lines = append(lines[:i], lines[i+1:]...)
				out = bytes.Join(lines, nil)
			}
		case 8: // truncate
			if len(out) > 0 {
				out = out[:r.IntN(len(out))]
			}
		case 9: // replace a number
			start := -1
			if len(out) > 0 {
				p := r.IntN(len(out))
				for i := 0; i < len(out); i++ {
					q := (p + i) % len(out)
					if out[q] >= '0' && out[q] <= '9' {
						start = q
						break
					}
				}
			}
			if start >= 0 {
				end := start
				for end < len(out) && out[end] >= '0' && out[end] <= '9' {
					end++
				}
				rep := numberSoup[r.IntN(len(numberSoup))]
				out = append(out[:start], append([]byte(rep), out[end:]...)...)
			}
		case 10: // splice with another file
			if len(other) > 0 {
				i := r.IntN(len(out) + 1)
				j := r.IntN(len(other))
				out = append(out[:i:i], other[j:]...)
			}
		case 11: // replace a field separator
			if len(out) > 0 {
				p := r.IntN(len(out))
				for i := 0; i < len(out); i++ {
					q := (p + i) % len(out)
					if out[q] == '\t' || out[q] == ':' || out[q] == ',' {
						out[q] = delimiterSoup[r.IntN(len(delimiterSoup))]
						break
					}
				}
			}
		}
	}
	return out
}

// nearValid returns either a mutated well-formed text, a well-formed text of a
// different format, or raw random bytes.
func nearValid(r *rand.Rand, format string) []byte {
	switch r.IntN(10) {
	case 0:
		return randBytesExcl(r, r.IntN(200), nil)
	case 1:
		others := []string{"fasta", "fastq", "sam", "bed", "newick", "ncbi"}
		return wellFormed(r, pick(r, others), 0)
	default:
		return mutate(r, wellFormed(r, format, 0), wellFormed(r, format, 0))
	}
}

func describeText(b []byte) string {
	if len(b) > 600 {
		return fmt.Sprintf("%q… (%d bytes, base64 of all: %s)", b[:600], len(b), b64(b))
	}
	return quoteBytes(b)
}

var _ = fasta.Fasta{}
var _ = fastq.Fastq{}

// longSizes are field lengths around the bufio (4 KiB) and scanner (64 KiB)
// buffer sizes and beyond.
var longSizes = []int{4000, 4090, 4095, 4096, 4097, 4100, 5000, 8191, 8192, 8193, 12000, 20000, 65535, 65536, 65537, 70000, 140000}

func longSize(r *rand.Rand) int {
	if r.IntN(4) == 0 {
		return 4000 + r.IntN(4500)
	}
	return pick(r, longSizes)
}

// longText returns n bytes free of TAB/CR/LF (and of the other given bytes).
func longText(r *rand.Rand, n int, excl *byteSet) []byte {
	if excl == nil {
		excl = samTextExcl
	}
	return randBytesExcl(r, n, excl)
}

// wellFormedLong returns a well-formed text of 1..4 records in which at least
// one line is longer than the usual I/O buffers.
func wellFormedLong(r *rand.Rand, format string) []byte {
	var buf bytes.Buffer
	n := 1 + r.IntN(3)
	long := r.IntN(n)
	for i := 0; i < n; i++ {
		isLong := i == long
		switch format {
		case "fasta":
			rec := genFastaRecord(r, r.IntN(200))
			if isLong {
				if r.IntN(2) == 0 {
					rec.Name = randBytesExcl(r, longSize(r), fastaNameExcl)
				} else {
					rec.Sequence = randBytesExcl(r, longSize(r), fastaSeqExcl)
				}
			}
			rec.Write(&buf)
		case "fastq":
			rec := genFastqRecord(r, r.IntN(100))
			if isLong {
				if r.IntN(3) == 0 {
					rec.Name = randBytesExcl(r, longSize(r), noCRLF)
				} else {
					rec = genFastqRecord(r, longSize(r))
				}
			}
			rec.Write(&buf)
		case "sam", "samh":
			if isLong && r.IntN(4) == 0 {
				buf.WriteString("@CO\t" + string(longText(r, longSize(r), noCRLF)) + "\n")
			}
			rec := genSAM(r)
			if isLong {
				l := longSize(r)
				switch r.IntN(4) {
				case 0:
					rec.Seq, rec.Qual = string(longText(r, l, nil)), string(longText(r, l, nil))
				case 1:
					rec.Qname = "q" + string(longText(r, l, nil))
				case 2:
					if rec.Tags == nil {
						rec.Tags = map[string]any{}
					}
					rec.Tags["ZZ"] = string(longText(r, l, nil))
				default:
					if rec.Tags == nil {
						rec.Tags = map[string]any{}
					}
					h := make([]byte, l/2)
					for j := range h {
						h[j] = byte(r.IntN(256))
					}
					rec.Tags["XH"] = h
				}
			}
			rec.Write(&buf)
		case "bed":
			rec := genBED(r, 12)
			if isLong {
				if r.IntN(2) == 0 {
					rec.Name = string(longText(r, longSize(r), nil))
				} else {
					cnt := 700 + r.IntN(3000)
					rec.BlockCount = cnt
					rec.BlockSizes = randInts(r, cnt)
					rec.BlockStarts = randInts(r, cnt)
				}
			}
			rec.Write(&buf)
		case "newick":
			root, nodes := randomTree(r, 1+r.IntN(6), r.IntN(4))
			decorate(r, nodes)
			if isLong {
				nd := nodes[r.IntN(len(nodes))]
				if r.IntN(2) == 0 {
					nd.Name = string(randBytesExcl(r, longSize(r), nil))
				} else {
					nd.Name = string(randSeq(r, []byte("abcdefghijklmnopqrstuvwxyz"), longSize(r)))
				}
			}
			m, _ := root.MarshalText()
			buf.Write(m)
			buf.WriteString(pick(r, treeSeparators))
		default:
			panic("wellFormedLong: unknown format " + format)
		}
	}
	return buf.Bytes()
}

// giantText: three records, the middle one with ONE line of about n bytes
// (a name, a read, SEQ and QUAL, a node label) — longer than any buffer a
// reader is likely to choose (64 KiB, 1 MiB, 4 MiB).
func giantText(r *rand.Rand, format string, n int) []byte {
	var buf bytes.Buffer
	for i := 0; i < 3; i++ {
		big := i == 1
		switch format {
		case "fasta":
			rec := genFastaRecord(r, r.IntN(200))
			if big {
				rec.Name = randBytesExcl(r, n, fastaNameExcl)
			}
			rec.Write(&buf)
		case "fastq":
			rec := genFastqRecord(r, r.IntN(100))
			if big {
				rec = genFastqRecord(r, n/2)
			}
			rec.Write(&buf)
		case "sam", "samh":
			if i == 0 && format == "samh" {
				buf.WriteString("@CO\t" + string(longText(r, n/4, noCRLF)) + "\n")
			}
			rec := genSAM(r)
			if big {
				rec.Seq, rec.Qual = string(longText(r, n/2, nil)), string(longText(r, n/2, nil))
				if rec.Tags == nil {
					rec.Tags = map[string]any{}
				}
				rec.Tags["ZZ"] = string(longText(r, 2000, nil))
			}
			rec.Write(&buf)
		case "bed":
			rec := genBED(r, 12)
			if big {
				rec.Name = string(longText(r, n, nil))
			}
			rec.Write(&buf)
		case "newick":
			root, nodes := randomTree(r, 1+r.IntN(6), r.IntN(4))
			decorate(r, nodes)
			if big {
				nodes[len(nodes)-1].Name = string(randSeq(r, []byte("abcdefghijklmnopqrstuvwxyz_ '"), n))
			}
			m, _ := root.MarshalText()
			buf.Write(m)
			buf.WriteString("\n")
		default:
			panic("giantText: unknown format " + format)
		}
	}
	return buf.Bytes()
}
