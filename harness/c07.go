package main

// C07 — a failing stream is reported, never mistaken for a clean end.

import (
	"bufio"
	"bytes"
	"compress/flate"
	"compress/gzip"
	"context"
	"errors"
	"fmt"
	"io"
	"io/fs"
	"iter"
	"math/rand/v2"
	"net"
	"os"
	"syscall"

	"github.com/fluhus/biostuff/formats/bed"
	"github.com/fluhus/biostuff/formats/fasta"
	"github.com/fluhus/biostuff/formats/fastq"
	"github.com/fluhus/biostuff/formats/newick"
	"github.com/fluhus/biostuff/formats/sam"
)

func init() {
	register(&Property{
		ID:    "C07",
		Level: "fault_enumeration",
		Rule: "read side: for each of the six iterators and each well-formed input x, a reader that delivers exactly k bytes and then fails with a non-EOF error, for EVERY k in 0..len(x), in four behaviours " +
			"(fail once then EOF / fail forever, x delivery in one piece / byte-wise / error returned together with the last bytes); the consumer never stops; " +
			"write side: for each record type and each generated record with output length L, a writer that accepts exactly k bytes and then fails, for EVERY k in 0..L-1, plus the unlimited writer; " +
			"eight error values per reader incl. ones wrapping / imitating io.EOF; " +
			"non-trivial = a fault run whose offset falls strictly inside the input (0<k<len) or any failing-writer run; distinct by hash of (format, input, k, behaviour)",
		Assumptions: []string{"inputs are well-formed (fault-free decode has no error item)", "the injected error is a plain non-EOF error value; read budget len(x)+10000 calls decides 'spins forever' on logical steps",
			"thorough tier: the same fault below File() via strace -e inject=read:error=EIO on the N-th read of the scratch file; skipped (recorded) if strace cannot attach"},
		MinEvents: map[string]int64{"fault_runs": 5000, "error_items": 5000, "records_before_fault": 1000, "write_fault_runs": 2000, "write_ok_runs": 100},
		Units: []Unit{
			{Name: "readfaults", QShards: 4, TShards: 12, Run: c07ReadFaults},
			{Name: "readfaults-large", QShards: 12, TShards: 16, Run: c07ReadFaultsLarge},
			{Name: "readfaults-giant", QShards: 6, TShards: 12, Run: c07ReadFaultsGiant},
			{Name: "histories", QShards: 2, TShards: 6, Run: codecHistories(c06Formats...)},
			{Name: "writefaults", QShards: 2, TShards: 8, Run: c07WriteFaults},
			{Name: "writefaults-large", QShards: 10, TShards: 16, Run: c07WriteFaultsLarge},
			{Name: "refusedcalls", TShards: 2, Run: c07RefusedCalls},
			{Name: "filefaults", Thorough: true, Run: c07FileFaults},
		},
	})
}

type faultMode struct {
	forever, bytewise, withData bool
}

// faultErrors are the non-EOF error values a failing reader returns.
// Among them errors that merely LOOK like io.EOF — one that wraps it, one whose
// Is method answers true for it, one with the same text: none of them is the
// io.EOF value, so none of them is a clean end of data.
var faultErrors = []error{errInjected, io.ErrUnexpectedEOF, io.ErrClosedPipe, io.ErrNoProgress,
	fmt.Errorf("read tcp 10.0.0.1:443: connection closed by peer: %w", io.EOF), eofLike{}, errors.New("EOF"),
	&os.PathError{Op: "read", Path: "/dev/stdin", Err: syscall.EIO},
	// errors that describe themselves as temporary or as a timeout (Temporary() / Timeout() true): still failures
	// of this stream as far as the decoder can know — nothing says a retry would succeed, and none is promised
	syscall.EAGAIN, syscall.EINTR, os.ErrDeadlineExceeded, &net.OpError{Op: "read", Net: "tcp", Err: timeoutErr{}},
	// errors of the layers a stream usually comes through — decompression, a cancelled context, a closed file, a
	// buffer of the caller's own: what a decompressor calls "trailing garbage" or a "bad header" is a failed read
	gzip.ErrHeader, gzip.ErrChecksum, fmt.Errorf("reading member 2: %w", gzip.ErrHeader), flate.CorruptInputError(7),
	context.Canceled, fs.ErrClosed, io.ErrShortBuffer}

// (Not in the list: bufio.ErrBufferFull. bufio.Reader.ReadLine takes that value from its source for its own
// "line longer than the buffer" signal, so a source that returns it is indistinguishable from a long line to any
// decoder built on the standard library — an alarm raised with it says nothing about the decoder.)
var _ = bufio.ErrBufferFull

type timeoutErr struct{}

func (timeoutErr) Error() string   { return "i/o timeout" }
func (timeoutErr) Timeout() bool   { return true }
func (timeoutErr) Temporary() bool { return true }

type eofLike struct{}

func (eofLike) Error() string        { return "stream reset" }
func (eofLike) Is(target error) bool { return target == io.EOF }

func (m faultMode) index() int {
	i := 0
	if m.forever {
		i |= 1
	}
	if m.bytewise {
		i |= 2
	}
	if m.withData {
		i |= 4
	}
	return i
}

func (m faultMode) String() string {
	return fmt.Sprintf("forever=%v bytewise=%v errorWithLastBytes=%v", m.forever, m.bytewise, m.withData)
}

var faultModes = []faultMode{{false, false, false}, {true, false, false}, {false, true, false}, {true, false, true}, {true, true, false}, {false, false, true}}

// faultRun decodes x through a reader failing after k bytes and applies the
// C07 monitor. Returns false after a violation.
func faultRun(k *K, cd *codec, x []byte, ref []item, kk int, m faultMode) bool {
	fr := &faultReader{data: x, k: kk, bytewise: m.bytewise, forever: m.forever, withData: m.withData && kk > 0, budget: len(x) + 10000,
		err: faultErrors[(kk+len(x)+3*m.index())%len(faultErrors)]}
	limit := 2*len(x) + 16
	var got []item
	over := false
	theSeq := cd.seq(fr)
	p := catch(func() {
		for key, err := range theSeq {
			if len(got) >= limit {
				over = true
				break
			}
			got = append(got, item{Key: key, Err: err != nil})
		}
	})
	k.Count("fault_runs", 1)
	fail := func(kind, format string, args ...any) bool {
		k.Input("fault_offset", kk)
		k.Input("fault_mode", m)
		k.Input("fault_error", fr.fail().Error())
		k.Failf(kind, "%s: %s\n items: %s\n fault-free: %s", cd.name, fmt.Sprintf(format, args...), traceString(got), traceString(ref))
		return false
	}
	if p != nil {
		if _, ok := p.(readBudgetExceeded); ok {
			return fail("spins-on-failing-reader", "iterator kept calling Read on a failing reader (%d calls for %d bytes)", fr.calls, len(x))
		}
		panic(p)
	}
	if over {
		return fail("unbounded-iteration", "more than %d items for %d input bytes with a failing reader", limit, len(x))
	}
	ri := 0
	nerr := 0
	for _, it := range got {
		if it.Err {
			nerr++
			continue
		}
		if ri >= len(ref) || it.Key != ref[ri].Key {
			return fail("fabricated-record", "record item %d (%.200s) is not the corresponding record of the fault-free decode", ri, it.Key)
		}
		ri++
	}
	if nerr == 0 {
		return fail("clean-end", "the stream failed after %d of %d bytes but no error item was delivered (%d records)", kk, len(x), ri)
	}
	k.Count("error_items", int64(nerr))
	k.Count("records_before_fault", int64(ri))
	// The reader keeps failing: ranging over the same iterator value once more
	// must report the failure again, not end as though the data were complete.
	if m.forever && kk%5 == 0 {
		var again []item
		p2 := catch(func() {
			for key, err := range theSeq {
				if len(again) >= limit {
					break
				}
				again = append(again, item{Key: key, Err: err != nil})
			}
		})
		if p2 != nil {
			if _, ok := p2.(readBudgetExceeded); ok {
				return fail("spins-on-failing-reader", "second pass over the same iterator value kept calling Read on a failing reader")
			}
			panic(p2)
		}
		nerr2 := 0
		for _, it := range again {
			if it.Err {
				nerr2++
			} else {
				got = again
				return fail("fabricated-record", "second pass over the same iterator value (reader still failing) delivered a record: %.200s", it.Key)
			}
		}
		if nerr2 == 0 {
			got = again
			return fail("clean-end", "second pass over the same iterator value ended cleanly although the reader is still failing")
		}
		k.Count("second_passes_on_failing_reader", 1)
	}
	return true
}

func c07Input(r *rand.Rand, f string, lo, hi int) []byte {
	ff := f
	if ff == "samh" {
		ff = "sam"
	}
	var x []byte
	for tries := 0; ; tries++ {
		x = wellFormed(r, ff, 1+r.IntN(6))
		if len(x) >= lo && len(x) <= hi {
			return x
		}
		if tries > 200 {
			if len(x) > hi {
				// cut at a record boundary is format specific; just regenerate smaller
				x = wellFormed(r, ff, 1)
				if len(x) <= hi {
					return x
				}
			} else if len(x) > 0 {
				return x
			}
		}
	}
}

func c07ReadFaults(c *Ctx) {
	per := c.N(16, 600)
	idx := int64(0)
	for _, f := range c06Formats {
		cd := codecByName(f)
		for i := 0; i < per; i++ {
			c.Case(idx, func(k *K) {
				r := k.Rand()
				x := c07Input(r, f, 60, 600)
				// a third of the inputs with other line ends (CRLF, bare CR where the format reads it, no final newline):
				// kept if the format decodes the variant without error items
				if v := i % 6; v >= 3 {
					var alt []byte
					switch v {
					case 3:
						alt = bytes.ReplaceAll(x, []byte("\n"), []byte("\r\n"))
					case 4:
						alt = bytes.TrimSuffix(bytes.ReplaceAll(x, []byte("\n"), []byte("\r\n")), []byte("\n"))
					default:
						alt = bytes.ReplaceAll(x, []byte("\n"), []byte("\r"))
					}
					refAlt, _ := collect(cd.seq(bytes.NewReader(alt)), len(alt)+8)
					refLF, _ := collect(cd.seq(bytes.NewReader(x)), len(x)+8)
					ok := len(refAlt) == len(refLF) && len(refAlt) > 0
					for _, it := range refAlt {
						ok = ok && !it.Err
					}
					if ok {
						x = alt
						k.Count("inputs_with_other_line_ends", 1)
					}
				}
				// One input in eight is SLOPPY at its end, the way hand-edited and concatenated files are: blank lines, a
				// line of blanks, a stray CR, a second final newline, the last record cut short. Whether the format
				// takes it or reports a parse error is not the question here — with a failing reader behind it, the
				// iteration must still not end as though the data were complete.
				sloppy := i%8 == 5
				if sloppy {
					x = append(append([]byte{}, x...), pick(r, []string{"\n", "\n\n\n", "\r\n\r\n", " \n", "\t", "\r", "\n \n\n", "\n\n\n\n\n\n\n\n\n\n"})...)
					if r.IntN(4) == 0 {
						x = x[:len(x)-min(len(x)-1, 3+r.IntN(12))]
					}
					k.Count("inputs_sloppy_at_the_end", 1)
				}
				k.Input("format", f)
				k.Input("input", func() string { return describeText(x) })
				ref, _ := collect(cd.seq(bytes.NewReader(x)), len(x)+8)
				if sloppy { // keep the records, drop the format's own complaints
					var recs []item
					for _, it := range ref {
						if !it.Err {
							recs = append(recs, it)
						}
					}
					ref = recs
				}
				for _, it := range ref {
					if it.Err {
						k.Failf("wellformed-rejected", "%s: fault-free decode of a well-formed input has an error item: %s", f, traceString(ref))
						return
					}
				}
				k.Count("inputs", 1)
				for kk := 0; kk <= len(x); kk++ {
					for mi, m := range faultModes {
						if mi >= 4 && kk%3 != 0 {
							continue
						}
						if !faultRun(k, cd, x, ref, kk, m) {
							return
						}
						k.Evals(1)
						if kk > 0 && kk < len(x) {
							k.Nontrivial([]byte(f), x, []byte{byte(kk), byte(kk >> 8), byte(mi)})
						}
					}
				}
				k.Count("fault_offsets", int64(len(x)+1))
			})
			idx++
		}
	}
	c.Exhaustive("readfaults: every fault offset 0..len(x) of every sampled input")
}

// c07ReadFaultsLarge: inputs of 10..70 KiB with offsets sampled around buffer
// boundaries.
func c07ReadFaultsLarge(c *Ctx) {
	idx := int64(0)
	for _, f := range c06Formats {
		cd := codecByName(f)
		for i := 0; i < c.N(6, 12); i++ {
			c.Case(idx, func(k *K) {
				r := k.Rand()
				ff := f
				if ff == "samh" {
					ff = "sam"
				}
				var x []byte
				target := pick(r, []int{10000, 70000})
				if !k.c.Thorough {
					target = 10000
				}
				for len(x) < target {
					x = append(x, wellFormed(r, ff, 1+r.IntN(8))...)
				}
				if i%2 == 1 {
					x = wellFormedLong(r, ff)
				} else if ff == "bed" { // one N per file
					x = nil
					var buf bytes.Buffer
					for buf.Len() < target {
						genBED(r, 12).Write(&buf)
					}
					x = buf.Bytes()
				}
				k.Input("format", f)
				k.Input("input", func() string { return describeText(x) })
				ref, _ := collect(cd.seq(bytes.NewReader(x)), len(x)+8)
				for _, it := range ref {
					if it.Err {
						k.Failf("wellformed-rejected", "%s: fault-free decode has an error item", f)
						return
					}
				}
				offs := map[int]bool{}
				for _, b := range []int{4096, 8192, 16384, 32768, 65536} {
					for d := -3; d <= 3; d++ {
						offs[b+d] = true
					}
				}
				for j := 0; j < k.c.N(60, 300); j++ {
					offs[r.IntN(len(x)+1)] = true
				}
				offs[len(x)] = true
				offs[len(x)-1] = true
				// around every line terminator (evenly thinned to 1500 of them): a decoder that knows how long a line
				// must be, or reads a line in one request, meets the fault exactly at its end
				var nls []int
				for p, b := range x {
					if b == '\n' {
						nls = append(nls, p)
					}
				}
				step := 1 + len(nls)/1500
				for j := 0; j < len(nls); j += step {
					for d := -1; d <= 2; d++ {
						offs[nls[j]+d] = true
					}
				}
				k.Count("line_end_fault_offsets_large", int64(len(nls)/step))
				// inside long lines: at buffer multiples counted from the START OF THE LINE (a reader that collects a
				// long line chunk by chunk meets its chunk ends there, wherever the line begins in the stream)
				prev := 0
				for _, nl := range append(nls, len(x)) {
					if nl-prev > 4096 {
						for _, bsz := range []int{4096, 8192, 65536} {
							for m := 1; m <= 3 && prev+m*bsz <= nl+1; m++ {
								for d := -1; d <= 1; d++ {
									offs[prev+m*bsz+d] = true
								}
							}
						}
						k.Count("long_lines_with_chunk_end_faults", 1)
					}
					prev = nl + 1
				}
				for kk := range offs {
					if kk < 0 || kk > len(x) {
						continue
					}
					for _, m := range faultModes {
						if m.bytewise && (kk > 20000 || m.forever) {
							continue
						}
						if !faultRun(k, cd, x, ref, kk, m) {
							return
						}
						k.Evals(1)
					}
				}
				k.Nontrivial([]byte(f), x)
			})
			idx++
		}
	}
}

// c07ReadFaultsGiant: one line longer than 1 MiB (thorough: also 4.5 MiB) with
// faults around the usual buffer multiples inside it, around its end, and at
// random places of its tail, in every non-bytewise fault mode.
func c07ReadFaultsGiant(c *Ctx) {
	sizes := []int{1<<20 + 200000}
	if c.Thorough {
		sizes = append(sizes, 4<<20+500000)
	}
	idx := int64(0)
	for _, f := range c06Formats {
		cd := codecByName(f)
		for _, size := range sizes {
			c.Case(idx, func(k *K) {
				r := k.Rand()
				x := giantText(r, f, size)
				k.Input("format", f)
				k.Input("input_bytes", len(x))
				ref, _ := collect(cd.seq(bytes.NewReader(x)), 64)
				for _, it := range ref {
					if it.Err {
						k.Failf("wellformed-rejected", "%s: fault-free decode of a text with a line of %d bytes has an error item", f, size)
						return
					}
				}
				offs := map[int]bool{len(x): true, len(x) - 1: true}
				for _, b := range []int{4096, 65536, 1 << 20, 2 << 20, 4 << 20} {
					for d := -1; d <= 1; d++ {
						offs[b+d] = true
					}
				}
				first := bytes.IndexByte(x, '\n')
				for p, b := range x {
					if b == '\n' && (p < first+300000 || p > len(x)-300000 || r.IntN(3) == 0) && len(offs) < 70 {
						for d := -1; d <= 2; d++ {
							offs[p+d] = true
						}
					}
				}
				for j := 0; j < 25; j++ { // the tail of the long line and what follows it
					offs[len(x)-1-r.IntN(size/2)] = true
				}
				for kk := range offs {
					if kk < 0 || kk > len(x) {
						continue
					}
					for _, m := range faultModes {
						if m.bytewise {
							continue
						}
						if !faultRun(k, cd, x, ref, kk, m) {
							return
						}
						k.Evals(1)
					}
				}
				k.Count("giant_line_inputs", 1)
				k.Count("giant_line_fault_offsets", int64(len(offs)))
				k.Nontrivial([]byte(f), []byte(fmt.Sprint("giant", size)))
			})
			idx++
		}
	}
}

// writers of every record type.
type writable struct {
	kind    string
	write   func(w io.Writer) error
	marshal func() ([]byte, error)
	desc    func() string
}

func genWritable(r *rand.Rand, kind int) writable {
	switch kind {
	case 0:
		rec := genFastaRecord(r, pick(r, []int{0, 1, 79, 80, 81, 160, 200, r.IntN(300)}))
		return writable{"fasta", rec.Write, rec.MarshalText, func() string { return fastaKey(rec) }}
	case 1:
		rec := genFastqRecord(r, r.IntN(120))
		return writable{"fastq", rec.Write, rec.MarshalText, func() string { return fastqKey(rec) }}
	case 2:
		rec := genSAM(r)
		return writable{"sam", rec.Write, rec.MarshalText, func() string { return samKey(rec) }}
	case 3:
		rec := genBED(r, 3+r.IntN(10))
		return writable{"bed", rec.Write, rec.MarshalText, func() string { return bedKey(rec) }}
	default:
		root, nodes := randomTree(r, 1+r.IntN(12), r.IntN(4))
		decorate(r, nodes)
		return writable{"newick", root.Write, root.MarshalText, func() string { return treeKey(root) }}
	}
}

func c07WriteFaults(c *Ctx) {
	per := c.N(60, 4000)
	idx := int64(0)
	for kind := 0; kind < 5; kind++ {
		for i := 0; i < per; i++ {
			c.Case(idx, func(k *K) {
				r := k.Rand()
				w := genWritable(r, kind)
				k.Input("kind", w.kind)
				k.Input("record", w.desc)
				want, err := w.marshal()
				if err != nil {
					k.Failf("marshal-error", "MarshalText returned %v", err)
					return
				}
				ok := &limitWriter{k: -1}
				if err := w.write(ok); err != nil {
					k.Failf("write-error", "%s.Write returned %v although the writer accepted everything", w.kind, err)
				}
				if !bytes.Equal(ok.buf, want) {
					k.Failf("write-vs-marshal", "%s: Write produced %d bytes, MarshalText %d", w.kind, len(ok.buf), len(want))
				}
				k.Count("write_ok_runs", 1)
				writerZoo(k, []func(io.Writer) error{w.write}, want)
				L := len(want)
				for kk := 0; kk < L; kk++ {
					lw := &limitWriter{k: kk}
					err := w.write(lw)
					k.Count("write_fault_runs", 1)
					k.Evals(1)
					if err == nil {
						k.Input("writer_accepts_bytes", kk)
						k.Failf("write-error-swallowed", "%s.Write returned nil although the writer failed after %d of %d bytes", w.kind, kk, L)
						return
					}
					// the same fault through destinations that have more methods than Write
					for dk := 1; dk <= 11; dk++ {
						if !(kk%3 == dk%3 || kk >= L-2 || kk < 2) {
							continue
						}
						// kinds 4..7: the same four method sets over a destination whose failures are NOT sticky (a
						// fixed-capacity buffer refuses the piece that does not fit and accepts smaller ones after it):
						// whatever was refused is missing from the output, so Write must still report it
						// kinds 8..11: a write-behind destination that reports its failure together with a FULL count
						lw2 := &limitWriter{k: kk, nonSticky: dk >= 4 && dk < 8, fullCount: dk >= 8}
						dst, dname := faultDest(dk, lw2)
						if dk >= 8 {
							dname += ", which takes the whole piece and reports the failure together with a full count (n == len(p), err != nil)"
						} else if dk >= 4 {
							dname += ", which refuses a call that does not fit and accepts later ones that do"
						}
						if err := w.write(dst); err == nil && (lw2.failed > 0 || len(lw2.buf) < L) {
							k.Input("writer_accepts_bytes", kk)
							k.Input("destination", dname)
							k.Failf("write-error-swallowed", "%s.Write to %s returned nil although the destination failed after %d of %d bytes (%d of its calls returned an error, %d bytes arrived)", w.kind, dname, kk, L, lw2.failed, len(lw2.buf))
							return
						}
						k.Count("write_fault_runs_other_destinations", 1)
					}
					if !bytes.Equal(lw.buf, want[:len(lw.buf)]) {
						k.Input("writer_accepts_bytes", kk)
						k.Failf("write-prefix", "%s.Write wrote bytes that are not a prefix of the full output before failing", w.kind)
						return
					}
					// A failed Write must leave nothing behind: the next Write and
					// MarshalText, to a healthy writer, produce exactly the record again.
					if kk%3 == 0 || kk == L-1 {
						after := &limitWriter{k: -1}
						err2 := w.write(after)
						m2, merr := w.marshal()
						if err2 != nil || merr != nil || !bytes.Equal(after.buf, want) || !bytes.Equal(m2, want) {
							k.Input("writer_accepts_bytes", kk)
							k.Failf("write-after-failed-write", "%s: after a Write that failed at byte %d of %d, the next Write to a healthy writer produced %.200q (err %v) and MarshalText %.200q (err %v), want %.200q", w.kind, kk, L, after.buf, err2, m2, merr, want)
							return
						}
						k.Count("healthy_writes_after_failed", 1)
					}
				}
				if !refusedCalls(k, w.kind, w.write, r) {
					return
				}
				k.Nontrivial([]byte(w.kind), want)
			})
			idx++
		}
	}
	c.Exhaustive("writefaults: every failure offset 0..L-1 of every sampled record's output")
}

var _ iter.Seq[int]
var _ = fasta.Fasta{}
var _ = fastq.Fastq{}
var _ = sam.SAM{}
var _ = bed.BED{}
var _ = newick.Node{}
var _ *rand.Rand

// genLargeWritable returns a record whose output is larger than the usual
// writer buffer sizes (4 KiB, 16 KiB, 64 KiB).
func genLargeWritable(r *rand.Rand, kind int, i int) writable {
	// sizes by case number, so that even the quick tier's two cases per kind cover both sides of 16 KiB and 64 KiB
	sizes := []int{17000, 70000, 9000, 33000, 4200, 16385, 66000, 20000}
	size := sizes[(i+kind)%len(sizes)]
	if i >= 1000 {
		size = i
	}
	switch kind {
	case 0:
		rec := genFastaRecord(r, size)
		return writable{"fasta", rec.Write, rec.MarshalText, func() string { return fmt.Sprintf("fasta record with %d bases", size) }}
	case 1:
		rec := genFastqRecord(r, size/2)
		return writable{"fastq", rec.Write, rec.MarshalText, func() string { return fmt.Sprintf("fastq record with %d bases", size/2) }}
	case 2:
		rec := genSAM(r)
		rec.Seq, rec.Qual = string(longText(r, size/2, nil)), string(longText(r, size/2, nil))
		return writable{"sam", rec.Write, rec.MarshalText, func() string { return fmt.Sprintf("sam record with %d bases", size/2) }}
	case 3:
		rec := genBED(r, 12)
		cnt := size / 20
		rec.BlockCount, rec.BlockSizes, rec.BlockStarts = cnt, randInts(r, cnt), randInts(r, cnt)
		return writable{"bed", rec.Write, rec.MarshalText, func() string { return fmt.Sprintf("bed record with %d blocks", cnt) }}
	default:
		root, nodes := randomTree(r, 40, r.IntN(4))
		decorate(r, nodes)
		for j := 0; j < 4; j++ {
			nodes[r.IntN(len(nodes))].Name = string(randSeq(r, []byte("abcdefghij '"), size/4))
		}
		return writable{"newick", root.Write, root.MarshalText, func() string { return fmt.Sprintf("tree with 40 nodes and long names (%d bytes)", size) }}
	}
}

// c07WriteFaultsLarge: failing writers on large records; failure offsets are
// every offset of the last 6000 bytes, every offset within 40 bytes of a
// multiple of 4096, and every 61st offset otherwise.
func c07WriteFaultsLarge(c *Ctx) {
	per := c.N(2, 16)
	idx := int64(0)
	for kind := 0; kind < 5; kind++ {
		for i := 0; i < per; i++ {
			c.Case(idx, func(k *K) {
				r := k.Rand()
				w := genLargeWritable(r, kind, i)
				k.Input("kind", w.kind)
				k.Input("record", w.desc)
				want, err := w.marshal()
				if err != nil {
					k.Failf("marshal-error", "MarshalText returned %v", err)
					return
				}
				ok := &limitWriter{k: -1}
				if err := w.write(ok); err != nil {
					k.Failf("write-error", "%s.Write returned %v although the writer accepted everything", w.kind, err)
				}
				if !bytes.Equal(ok.buf, want) {
					k.Failf("write-vs-marshal", "%s: Write produced %d bytes, MarshalText %d", w.kind, len(ok.buf), len(want))
				}
				k.Count("write_ok_runs", 1)
				writerZoo(k, []func(io.Writer) error{w.write}, want)
				L := len(want)
				k.Input("output_len", L)
				for kk := 0; kk < L; kk++ {
					near := kk%4096 < 40 || kk%4096 > 4056
					if !(kk >= L-6000 || near || kk%61 == 0) {
						continue
					}
					lw := &limitWriter{k: kk}
					err := w.write(lw)
					k.Count("write_fault_runs", 1)
					k.Count("large_write_fault_runs", 1)
					k.Evals(1)
					if err == nil {
						k.Input("writer_accepts_bytes", kk)
						k.Failf("write-error-swallowed", "%s.Write returned nil although the writer failed after %d of %d bytes", w.kind, kk, L)
						return
					}
					if kk >= L-100 || kk%7 == 0 {
						lw2 := &limitWriter{k: kk, fullCount: kk%2 == 1}
						dst, dname := faultDest(1+kk%3, lw2)
						if lw2.fullCount {
							dname += ", which reports the failure together with a full count"
						}
						if err := w.write(dst); err == nil && (lw2.failed > 0 || len(lw2.buf) < L) {
							k.Input("writer_accepts_bytes", kk)
							k.Input("destination", dname)
							k.Failf("write-error-swallowed", "%s.Write to %s returned nil although the destination failed after %d of %d bytes", w.kind, dname, kk, L)
							return
						}
						k.Count("write_fault_runs_other_destinations", 1)
					}
					if kk%97 == 0 || kk == L-1 {
						after := &limitWriter{k: -1}
						if err2 := w.write(after); err2 != nil || !bytes.Equal(after.buf, want) {
							k.Input("writer_accepts_bytes", kk)
							k.Failf("write-after-failed-write", "%s: after a Write that failed at byte %d of %d, the next Write to a healthy writer produced %d bytes (err %v), want the %d bytes of the record", w.kind, kk, L, len(after.buf), err2, L)
							return
						}
						k.Count("healthy_writes_after_failed", 1)
					}
				}
				if !refusedCalls(k, w.kind, w.write, r) {
					return
				}
				k.Nontrivial([]byte(w.kind), want[:min(200, len(want))], []byte(fmt.Sprint(L)))
			})
			idx++
		}
	}
}

// callRefuser refuses exactly ONE call (the n-th Write it receives) and takes
// every other one: a destination with a transient failure. Whatever was refused
// is missing from the output, whichever call it was — the first, one in the
// middle, the last but one.
type callRefuser struct {
	refuse, calls, got int
}

func (c *callRefuser) Write(p []byte) (int, error) {
	c.calls++
	if c.calls-1 == c.refuse {
		return 0, errInjectedWrite
	}
	c.got += len(p)
	return len(p), nil
}

// refusedCalls: for a Write that hands its text over in several calls, each
// call in turn (all of them up to 60 calls, else the first and last 20 and 20
// in between) is refused once. Reports false after a violation.
func refusedCalls(k *K, kind string, write func(io.Writer) error, r *rand.Rand) bool {
	counter := &callRefuser{refuse: -1}
	if err := write(counter); err != nil {
		return true
	}
	total := counter.calls
	var js []int
	for j := 0; j < total; j++ {
		if total <= 60 || j < 20 || j >= total-20 {
			js = append(js, j)
		}
	}
	for j := 0; total > 60 && j < 20; j++ {
		js = append(js, 20+r.IntN(total-40))
	}
	for _, j := range js {
		cr := &callRefuser{refuse: j}
		if err := write(cr); err == nil {
			k.Input("refused_call", j)
			k.Failf("write-error-swallowed", "%s.Write returned nil although the destination refused call %d of %d (it accepted all the others: %d bytes arrived)", kind, j+1, total, cr.got)
			return false
		}
		k.Count("write_runs_with_one_refused_call", 1)
		k.Evals(1)
	}
	return true
}

// c07RefusedCalls: records of 70 000 … 1 200 000 bytes of text (a Write that
// streams its output hands such a record over in several pieces), each call of
// the destination refused once in turn.
func c07RefusedCalls(c *Ctx) {
	sizes := []int{70000, 140000, 300000}
	if c.Thorough {
		sizes = append(sizes, 1200000)
	}
	idx := int64(0)
	for kind := 0; kind < 5; kind++ {
		for _, size := range sizes {
			c.Case(idx, func(k *K) {
				r := k.Rand()
				w := genLargeWritable(r, kind, size)
				k.Input("kind", w.kind)
				k.Input("record", w.desc)
				ok := &limitWriter{k: -1}
				if err := w.write(ok); err != nil {
					k.Failf("write-error", "%s.Write returned %v although the writer accepted everything", w.kind, err)
					return
				}
				k.Count("write_ok_runs", 1)
				if !refusedCalls(k, w.kind, w.write, r) {
					return
				}
				k.Nontrivial([]byte(w.kind), []byte(fmt.Sprint("refusedcalls", size)))
			})
			idx++
		}
	}
}
