package main

// C15 — the trie as a set of sequences under any history.

import (
	"bytes"
	"encoding/json"
	"fmt"
	"math/rand/v2"
	"sort"
	"strings"

	"github.com/fluhus/biostuff/trie"
)

// setModel is the reference: the set M of maximal sequences.
type setModel struct {
	m map[string]bool
}

func newSetModel() *setModel { return &setModel{m: map[string]bool{}} }

func (s *setModel) Add(b string) {
	if b == "" {
		return
	}
	for x := range s.m {
		if strings.HasPrefix(x, b) {
			return // already a prefix of a member
		}
	}
	for x := range s.m {
		if strings.HasPrefix(b, x) {
			delete(s.m, x) // proper prefix of b: absorbed
		}
	}
	s.m[b] = true
}

func (s *setModel) Delete(b string) bool {
	found := false
	for x := range s.m {
		if strings.HasPrefix(x, b) {
			delete(s.m, x)
			found = true
		}
	}
	return found
}

func (s *setModel) Has(x string) bool {
	if x == "" {
		return true
	}
	for y := range s.m {
		if strings.HasPrefix(y, x) {
			return true
		}
	}
	return false
}

func (s *setModel) Members() []string {
	out := make([]string, 0, len(s.m))
	for x := range s.m {
		out = append(out, x)
	}
	sort.Strings(out)
	return out
}

func (s *setModel) Canon() string { return fmt.Sprintf("%q", s.Members()) }

// prefixModel is a second, naive formulation (the set of all present
// prefixes) used only to cross-check setModel in the self-test.
type prefixModel struct{ p map[string]bool }

func (s *prefixModel) Add(b string) {
	for i := 1; i <= len(b); i++ {
		s.p[b[:i]] = true
	}
}

func (s *prefixModel) Delete(b string) bool {
	if !s.p[b] {
		return false
	}
	for x := range s.p {
		if strings.HasPrefix(x, b) {
			delete(s.p, x)
		}
	}
	for i := len(b) - 1; i >= 1; i-- {
		p := b[:i]
		other := false
		for x := range s.p {
			if len(x) > len(p) && strings.HasPrefix(x, p) {
				other = true
				break
			}
		}
		if other {
			break
		}
		delete(s.p, p)
	}
	return true
}

func (s *prefixModel) Members() []string {
	var out []string
	for x := range s.p {
		leaf := true
		for y := range s.p {
			if len(y) > len(x) && strings.HasPrefix(y, x) {
				leaf = false
				break
			}
		}
		if leaf {
			out = append(out, x)
		}
	}
	sort.Strings(out)
	return out
}

func trieSelfTest() error {
	r := rand.New(rand.NewPCG(99, 17))
	for h := 0; h < 300; h++ {
		a := newSetModel()
		b := &prefixModel{p: map[string]bool{}}
		for step := 0; step < 30; step++ {
			s := string(randSeq(r, []byte("abc"), r.IntN(5)))
			if r.IntN(3) > 0 {
				a.Add(s)
				b.Add(s)
			} else if s != "" {
				ra, rb := a.Delete(s), b.Delete(s)
				if ra != rb {
					return fmt.Errorf("set model and prefix model disagree on Delete(%q): %v vs %v", s, ra, rb)
				}
			}
			if fmt.Sprint(a.Members()) != fmt.Sprint(b.Members()) {
				return fmt.Errorf("set model %v and prefix model %v disagree after step %d", a.Members(), b.Members(), step)
			}
		}
	}
	return nil
}

type trieOp struct {
	del bool
	s   string
}

func (o trieOp) String() string {
	if o.del {
		return fmt.Sprintf("Delete(%q)", o.s)
	}
	return fmt.Sprintf("Add(%q)", o.s)
}

func opsString(ops []trieOp) string {
	parts := make([]string, len(ops))
	for i, o := range ops {
		parts[i] = o.String()
	}
	return strings.Join(parts, " ")
}

// observeTrie compares everything observable of t with the model.
func observeTrie(k *K, t *trie.Trie, m *setModel, probes []string, what string) bool {
	for _, x := range probes {
		if got, want := t.Has([]byte(x)), m.Has(x); got != want {
			k.Failf("has", "%s: Has(%q) = %v, model says %v (members %s)", what, x, got, want, m.Canon())
			return false
		}
	}
	k.Count("has_observations", int64(len(probes)))
	// Every other observation is preceded by a ForEach that the consumer stops
	// after one or two members: what an abandoned walk leaves behind in the trie
	// must not show in the complete walk that follows, nor in later updates.
	if len(probes)%2 == 0 && len(m.m) > 0 {
		stopAfter, got := 1+len(probes)%4/2, 0
		t.ForEach(func(b []byte) bool {
			got++
			if !m.m[string(b)] {
				got = -1 << 20
			}
			return got < stopAfter
		})
		if got < 0 || got > stopAfter {
			k.Failf("foreach", "%s: a ForEach stopped after %d members reported a non-member or went on after the stop", what, stopAfter)
			return false
		}
		k.Count("foreach_stopped_early", 1)
	}
	seen := map[string]int{}
	n := 0
	t.ForEach(func(b []byte) bool {
		seen[string(b)]++
		n++
		return n < 100000
	})
	members := m.Members()
	for _, x := range members {
		if seen[x] != 1 {
			k.Failf("foreach", "%s: ForEach reported member %q %d times (reported %v, members %s)", what, x, seen[x], seen, m.Canon())
			return false
		}
	}
	if len(seen) != len(members) || n != len(members) {
		k.Failf("foreach", "%s: ForEach reported %v, members are %s", what, seen, m.Canon())
		return false
	}
	k.Count("foreach_observations", 1)
	return trieStructure(k, t, what)
}

// heldJSON is a JSON form obtained directly from MarshalJSON and kept, without
// copying, while further operations and marshals run.
type heldJSON struct {
	data    []byte
	members []string
	what    string
}

// jsonRebuild marshals t and unmarshals into another trie, which is returned.
//
// The JSON form is taken both through encoding/json and directly from
// t.MarshalJSON(); the direct result is HELD (not copied) and checked at a
// later call — after more updates and more marshals of this and other tries —
// to still rebuild the set it was taken from, then overwritten (it is the
// caller's). The target of Unmarshal is, in turn, a fresh trie, a fresh trie
// that has already been observed while empty, and a trie that had members,
// was observed, and was emptied again by Delete.
func jsonRebuild(k *K, t *trie.Trie, what string) *trie.Trie {
	if k.stash == nil {
		k.stash = map[string]any{}
	}
	holds, _ := k.stash["heldJSON"].([]heldJSON)
	calls, _ := k.stash["jsonCalls"].(int)
	k.stash["jsonCalls"] = calls + 1
	var members []string
	longest := 0
	t.ForEach(func(x []byte) bool { members = append(members, string(x)); longest = max(longest, len(x)); return true })
	sort.Strings(members)
	// Open known finding json-nesting-limit: the JSON form nests two levels per
	// byte of a member and encoding/json refuses documents nested deeper than
	// 10000, so a trie with a member of 5000 bytes or more cannot be marshalled
	// (nor read back). Matched ONLY by that error for such a trie.
	nestingLimit := func(err error) bool {
		if err != nil && longest >= 5000 && strings.Contains(err.Error(), "exceeded max depth") {
			k.Input("longest_member_bytes", longest)
			k.KnownFinding("json-nesting-limit", "a trie with a member of 5000 bytes or more cannot be written to or rebuilt from JSON: encoding/json refuses the nesting depth (\"exceeded max depth\")")
			return true
		}
		return false
	}
	b, err := json.Marshal(t)
	if err != nil {
		if !nestingLimit(err) {
			k.Failf("json", "%s: Marshal failed: %.300v", what, err)
		}
		return nil
	}
	direct, err := t.MarshalJSON()
	if err != nil {
		if !nestingLimit(err) {
			k.Failf("json", "%s: MarshalJSON failed: %.300v", what, err)
		}
		return nil
	}
	// earlier held results must still rebuild what they were taken from
	for len(holds) > 0 && (len(holds) > 2 || calls%2 == 1) {
		h := holds[0]
		holds = holds[1:]
		t3 := trie.New()
		var got []string
		if err := t3.UnmarshalJSON(h.data); err == nil {
			t3.ForEach(func(x []byte) bool { got = append(got, string(x)); return true })
			sort.Strings(got)
		}
		if err != nil || fmt.Sprint(got) != fmt.Sprint(h.members) {
			k.Failf("json-held", "the JSON returned by MarshalJSON %s, held while later operations and marshals ran, now reads %.300q and rebuilds %.300q (error %v); it was taken from the set %.300q", h.what, h.data, got, err, h.members)
			return nil
		}
		for i := range h.data {
			h.data[i] = '#'
		}
		k.Count("held_json_verified", 1)
	}
	holds = append(holds, heldJSON{direct, members, what})
	k.stash["heldJSON"] = holds
	// The same JSON document re-formatted the way tools and transfers do — indented with spaces or tabs, with LF,
	// CRLF or lone CR between tokens, blanks around every colon and comma — is the same JSON form: all four JSON
	// whitespace bytes may stand between any two tokens.
	if calls%4 == 0 && len(b) < 20000 && longest <= 64 { // (indenting a deeply nested document grows with the square of the depth)
		var ind bytes.Buffer
		if json.Indent(&ind, b, pick(k.Rand(), []string{"", " ", "\t"}), pick(k.Rand(), []string{" ", "\t", "  "})) == nil {
			eol := pick(k.Rand(), []string{"\n", "\r\n", "\r", "\n \r\t"})
			txt := bytes.ReplaceAll(ind.Bytes(), []byte("\n"), []byte(eol))
			txt = bytes.ReplaceAll(txt, []byte(":"), []byte(pick(k.Rand(), []string{":", " : ", "\r:\t"})))
			txt = append(append([]byte(pick(k.Rand(), []string{"", " ", "\r\n"})), txt...), pick(k.Rand(), []string{"", "\n", "\r\n", " \t"})...)
			t4 := trie.New()
			var got []string
			if err := json.Unmarshal(txt, t4); err != nil {
				if !nestingLimit(err) {
					k.Failf("json", "%s: Unmarshal of the re-formatted JSON %.200q failed: %.300v", what, txt, err)
					return nil
				}
			} else {
				t4.ForEach(func(x []byte) bool { got = append(got, string(x)); return true })
				sort.Strings(got)
				if fmt.Sprint(got) != fmt.Sprint(members) {
					k.Failf("json", "%s: the re-formatted JSON %.200q rebuilds %.300q, the trie holds %.300q", what, txt, got, members)
					return nil
				}
				k.Count("reformatted_json_rebuilt", 1)
			}
		}
	}
	t2 := trie.New()
	switch (calls + int(k.Idx%3)) % 3 {
	case 1: // observed while empty
		t2.Has([]byte("a"))
		t2.ForEach(func([]byte) bool { return true })
		json.Marshal(t2)
		k.Count("unmarshal_into_observed_empty", 1)
	case 2: // had members, observed, emptied
		for _, x := range []string{"ab", "b", "\x00\xff", "abc"} {
			t2.Add([]byte(x))
		}
		t2.ForEach(func([]byte) bool { return true })
		t2.Has([]byte("ab"))
		for _, x := range []string{"a", "b", "\x00"} {
			t2.Delete([]byte(x))
		}
		n := 0
		t2.ForEach(func([]byte) bool { n++; return true })
		if n != 0 {
			k.Failf("json", "%s: a trie emptied by Delete still reports %d members", what, n)
			return nil
		}
		k.Count("unmarshal_into_emptied", 1)
	}
	if err := json.Unmarshal(b, t2); err != nil {
		if !nestingLimit(err) {
			k.Failf("json", "%s: Unmarshal of %.300s failed: %.300v", what, b, err)
		}
		return nil
	}
	k.Count("json_roundtrips", 1)
	return t2
}

func applyOp(k *K, t *trie.Trie, m *setModel, o trieOp, what string) bool {
	if o.del {
		dbuf := append(append([]byte("<<"), o.s...), ">>tail"...)
		got := t.Delete(dbuf[2 : 2+len(o.s)])
		if string(dbuf) != "<<"+o.s+">>tail" {
			k.Failf("delete-modifies-arg", "%s: Delete wrote into its caller's memory (%q)", what, dbuf)
			return false
		}
		want := m.Delete(o.s)
		if got != want {
			k.Failf("delete-result", "%s: %s returned %v, model says %v", what, o, got, want)
			return false
		}
		k.Count("deletes", 1)
		if want {
			k.Count("deletes_effective", 1)
		}
	} else {
		// The argument is a window of a larger buffer, and is overwritten after
		// the call: the trie must neither write to it nor keep referring to it.
		buf := append(append([]byte("<<"), o.s...), ">>tail"...)
		arg := buf[2 : 2+len(o.s)]
		t.Add(arg)
		if string(buf) != "<<"+o.s+">>tail" {
			k.Failf("add-modifies-arg", "%s: Add wrote into its caller's memory (%q)", what, buf)
			return false
		}
		for i := range buf {
			buf[i] = '#'
		}
		m.Add(o.s)
		k.Count("adds", 1)
	}
	return true
}

func init() {
	register(&Property{
		ID:    "C15",
		Level: "exploration",
		Rule: "every history of Add/Delete operations up to a depth bound over all strings of length 0..3 over {a,b} (15 Add + 14 Delete operations), each history executed from scratch with Has (over the universe of all strings up to length 4), ForEach and a JSON round trip observed after its last step, " +
			"the trie being swapped for its JSON-rebuilt copy at a history-determined step; random histories of 40 operations over 3- and 256-letter alphabets with observation after every step; compared with a reference set-of-maximal-sequences model; " +
			"non-trivial = step applied to a non-empty model state; distinct by hash of (model state before, operation)",
		Assumptions: []string{"Delete is called with non-empty arguments only (Delete(\"\") is outside the statement)", "ForEach callback slices are copied at callback time"},
		MinEvents:   map[string]int64{"histories": 20000, "json_roundtrips": 20000, "deletes_effective": 2000, "foreach_observations": 20000},
		SelfTest:    trieSelfTest,
		Units: []Unit{
			{Name: "exhaustive", QShards: 4, TShards: 12, Run: c15Exhaustive},
			{Name: "random", QShards: 10, TShards: 14, Run: c15Random},
			{Name: "fanout", Run: c15Fanout},
			{Name: "parallel", Race: true, Run: trieParallel},
			firstCallUnit(firstTrie),
			firstParallelUnit(parTrie),
			{Name: "bigshapes", QShards: 3, TShards: 4, Run: c15BigShapes},
			{Name: "longmembers", QShards: 4, TShards: 6, Run: c15LongMembers},
			{Name: "filldrain", QShards: 2, TShards: 6, Run: c15FillDrain},
			{Name: "families", QShards: 2, TShards: 6, Run: c15Families},
			{Name: "nested", StallSec: 60, Run: c15Nested},
			{Name: "opcounts", QShards: 9, TShards: 12, Run: c15OpCounts},
			{Name: "jsonhistory", TShards: 4, Run: c15JSONHistory},
		},
	})
}

func c15Exhaustive(c *Ctx) {
	depth := c.N(3, 4)
	strs := allStrings([]byte("ab"), 3)
	var ops []trieOp
	for _, s := range strs {
		ops = append(ops, trieOp{false, string(s)})
	}
	for _, s := range strs {
		if len(s) > 0 {
			ops = append(ops, trieOp{true, string(s)})
		}
	}
	var universe []string
	for _, s := range allStrings([]byte("ab"), 4) {
		universe = append(universe, string(s))
	}
	universe = append(universe, "c", "ac", "abc")
	idx := int64(0)
	nops := len(ops)
	for d := 1; d <= depth; d++ {
		total := int(pow(nops, d))
		for code := 0; code < total; code++ {
			c.Case(idx, func(k *K) {
				hist := make([]trieOp, d)
				x := code
				for i := d - 1; i >= 0; i-- {
					hist[i] = ops[x%nops]
					x /= nops
				}
				k.Input("history", func() string { return opsString(hist) })
				t := trie.New()
				m := newSetModel()
				swapAt := (code*7 + d) % (d + 2) // step before which the trie is replaced by its JSON copy (may be never)
				for i, o := range hist {
					if i == swapAt {
						if t = jsonRebuild(k, t, "before step "+fmt.Sprint(i)); t == nil {
							return
						}
						k.Count("continued_on_rebuilt", 1)
					}
					if d > 1 && i > 0 && i == (code/3)%d {
						// one intermediate observation: what it leaves behind must not hurt later
						if !observeTrie(k, t, m, universe, fmt.Sprintf("before step %d", i)) {
							return
						}
						k.Count("intermediate_observations", 1)
					}
					before := m.Canon()
					if !applyOp(k, t, m, o, fmt.Sprintf("step %d", i)) {
						return
					}
					if i == d-1 && before != "[]" {
						k.Nontrivial([]byte(before), []byte(o.String()))
					}
				}
				if !observeTrie(k, t, m, universe, "after the history") {
					return
				}
				t2 := jsonRebuild(k, t, "after the history")
				if t2 == nil {
					return
				}
				observeTrie(k, t2, m, universe, "JSON-rebuilt trie after the history")
				k.Count("histories", 1)
			})
			idx++
		}
	}
	c.Exhaustive(fmt.Sprintf("exhaustive: all histories of depth <= %d over %d operations (Add/Delete x strings of length 0..3 over {a,b})", depth, nops))
}

func c15Random(c *Ctx) {
	n := c.N(1000, 60000)
	for i := 0; i < n; i++ {
		c.Case(int64(i), func(k *K) {
			r := k.Rand()
			var alpha []byte
			if i%2 == 0 {
				alpha = []byte("abc")
			} else {
				alpha = make([]byte, 256)
				for j := range alpha {
					alpha[j] = byte(j)
				}
			}
			maxLen := pick(r, []int{3, 6, 12, 17, 33, 70})
			t := trie.New()
			m := newSetModel()
			// a second, independent trie used in between (state must not leak between instances)
			t2nd, m2nd := trie.New(), newSetModel()
			var hist []trieOp
			k.Input("history", func() string { return opsString(hist) })
			obsEvery := pick(r, []int{1, 1, 2, 4})
			k.Input("observe_every", obsEvery)
			var pool []string
			for step := 0; step < 40; step++ {
				var s string
				switch {
				case len(pool) > 0 && r.IntN(3) == 0:
					// derived from an earlier string: prefix, extension or sibling
					p := pick(r, pool)
					switch r.IntN(3) {
					case 0:
						s = p[:r.IntN(len(p)+1)]
					case 1:
						s = p + string(randSeq(r, alpha, 1+r.IntN(3)))
					default:
						if len(p) > 0 {
							s = p[:len(p)-1] + string(randSeq(r, alpha, 1))
						}
					}
				default:
					s = string(randSeq(r, alpha, r.IntN(maxLen+1)))
				}
				if len(s) > 80 {
					s = s[:80]
				}
				if r.IntN(40) == 0 { // lengths around powers of two (growth points of slices)
					s = string(randSeq(r, alpha, pick(r, []int{15, 16, 17, 31, 32, 33, 63, 64, 65})))
				}
				pool = append(pool, s)
				o := trieOp{del: r.IntN(3) == 0, s: s}
				if o.del && s == "" {
					o.del = false
				}
				hist = append(hist, o)
				if step%4 == 3 {
					o2 := trieOp{del: r.IntN(3) == 0, s: string(randSeq(r, alpha, 1+r.IntN(4)))}
					if !applyOp(k, t2nd, m2nd, o2, fmt.Sprintf("second trie, step %d", step)) {
						return
					}
					if !observeTrie(k, t2nd, m2nd, append(m2nd.Members(), o2.s, ""), fmt.Sprintf("second trie after step %d", step)) {
						return
					}
				}
				before := m.Canon()
				if !applyOp(k, t, m, o, fmt.Sprintf("step %d", step)) {
					return
				}
				if before != "[]" {
					k.Nontrivial([]byte(before), []byte(o.String()))
				}
				// probes: prefixes and one-letter extensions of members and of the argument
				probes := []string{"", s}
				for _, x := range append(m.Members(), s) {
					if len(x) <= 12 {
						for j := 0; j <= len(x); j++ {
							probes = append(probes, x[:j])
						}
					} else { // long member: its ends and a sample of its prefixes
						probes = append(probes, x[:1], x[:2], x[:len(x)-1], x)
						for j := 0; j < 6; j++ {
							probes = append(probes, x[:r.IntN(len(x)+1)])
						}
					}
					probes = append(probes, x+string(alpha[r.IntN(len(alpha))]), x+"a")
				}
				// Observation schedule: every step, or only some steps (state kept
				// between observations must survive unobserved updates).
				if obsEvery > 1 && r.IntN(obsEvery) != 0 && step != 39 {
					k.Count("unobserved_steps", 1)
					continue
				}
				if !observeTrie(k, t, m, probes, fmt.Sprintf("after step %d", step)) {
					return
				}
				t2 := jsonRebuild(k, t, fmt.Sprintf("after step %d", step))
				if t2 == nil {
					return
				}
				if !observeTrie(k, t2, m, probes, fmt.Sprintf("JSON-rebuilt trie after step %d", step)) {
					return
				}
				if r.IntN(4) == 0 {
					t = t2
					k.Count("continued_on_rebuilt", 1)
				}
				k.Evals(1)
			}
			k.Count("histories", 1)
		})
	}
}

// c15Fanout: nodes with very many children, up to all 256 byte values, at the
// root and below a prefix, observed after every few operations.
func c15Fanout(c *Ctx) {
	idx := int64(0)
	for _, prefix := range []string{"", "p", "\x00\xff"} {
		for _, order := range []int{0, 1, 2} {
			c.Case(idx, func(k *K) {
				r := k.Rand()
				t := trie.New()
				m := newSetModel()
				perm := r.Perm(256)
				if order == 0 {
					for i := range perm {
						perm[i] = i
					}
				} else if order == 1 {
					for i := range perm {
						perm[i] = 255 - i
					}
				}
				var hist []trieOp
				k.Input("history", func() string { return fmt.Sprintf("%d operations under prefix %q", len(hist), prefix) })
				step := func(o trieOp, observe bool) bool {
					hist = append(hist, o)
					if !applyOp(k, t, m, o, fmt.Sprintf("step %d", len(hist))) {
						return false
					}
					if !observe {
						return true
					}
					probes := append(m.Members(), prefix, "", o.s)
					if !observeTrie(k, t, m, probes, fmt.Sprintf("after step %d (%d children)", len(hist), len(m.Members()))) {
						return false
					}
					t2 := jsonRebuild(k, t, fmt.Sprintf("after step %d", len(hist)))
					return t2 != nil && observeTrie(k, t2, m, probes, fmt.Sprintf("JSON-rebuilt trie after step %d", len(hist)))
				}
				for i, b := range perm {
					s := prefix + string([]byte{byte(b)})
					if i%7 == 0 {
						s += "x"
					}
					if !step(trieOp{false, s}, i < 3 || i >= 125 && i <= 130 || i >= 250) {
						return
					}
				}
				k.Count("full_fanout_nodes", 1)
				// delete a few and add back
				for j := 0; j < 6; j++ {
					b := perm[r.IntN(256)]
					if !step(trieOp{true, prefix + string([]byte{byte(b)})}, true) {
						return
					}
					if !step(trieOp{false, prefix + string([]byte{byte(b)}) + "y"}, true) {
						return
					}
				}
				k.Nontrivial([]byte(prefix), []byte{byte(order)})
			})
			idx++
		}
	}
}

// bigTrie builds one of two large shapes and returns the trie with its member
// set: a "comb" (a spine of the given depth with a side leaf at every node) or a
// "stack" (depth levels of nodes with width children each, along one path).
// Both put a long path of BRANCHING nodes under ForEach's cursor — total fan-out
// along one root-to-leaf path in the thousands — which neither long single keys
// nor one very wide node do.
func bigTrie(shape string, depth, width int) (*trie.Trie, map[string]bool) {
	t := trie.New()
	members := map[string]bool{}
	var prefix []byte
	for l := 0; l < depth; l++ {
		cont := byte(l % width) // the child the path continues through
		for ch := 0; ch < width; ch++ {
			if byte(ch) == cont && l < depth-1 {
				continue
			}
			key := append(append([]byte{}, prefix...), byte(ch))
			t.Add(key)
			members[string(key)] = true
		}
		prefix = append(prefix, cont)
	}
	return t, members
}

func c15BigShapes(c *Ctx) {
	type shape struct {
		name         string
		depth, width int
	}
	shapes := []shape{{"comb", 3000, 2}, {"comb", 2100, 3}, {"stack", 24, 200}, {"stack", 20, 256}, {"stack", 70, 64}}
	if c.Thorough {
		shapes = append(shapes, shape{"comb", 4900, 2}, shape{"comb", 8000, 2}, shape{"stack", 300, 256}, shape{"stack", 1000, 17})
	}
	for i, sh := range shapes {
		c.Case(int64(i), func(k *K) {
			k.Input("shape", fmt.Sprintf("%s depth=%d width=%d", sh.name, sh.depth, sh.width))
			t, members := bigTrie(sh.name, sh.depth, sh.width)
			check := func(t *trie.Trie, what string) bool {
				seen := map[string]int{}
				n := 0
				t.ForEach(func(b []byte) bool {
					seen[string(b)]++
					n++
					return n <= len(members)+5
				})
				if n != len(members) {
					k.Failf("foreach", "%s: ForEach reported %d members, the trie has %d", what, n, len(members))
					return false
				}
				for m := range members {
					if seen[m] != 1 {
						k.Failf("foreach", "%s: member %.40q (length %d) reported %d times", what, m, len(m), seen[m])
						return false
					}
				}
				// Has on every member, on every prefix of the longest one, and on non-members
				longest := ""
				for m := range members {
					if !t.Has([]byte(m)) || t.Has([]byte(m+"\xfe\xfd")) {
						k.Failf("has", "%s: Has is wrong at member %.40q (length %d)", what, m, len(m))
						return false
					}
					if len(m) > len(longest) {
						longest = m
					}
				}
				for j := 0; j <= len(longest); j += 1 + len(longest)/300 {
					if !t.Has([]byte(longest[:j])) {
						k.Failf("has", "%s: a prefix of length %d of a member is not found", what, j)
						return false
					}
				}
				return true
			}
			if !check(t, "as built") {
				return
			}
			// a stopped walk, then a complete one; the JSON round trip; a Delete deep down
			n := 0
			t.ForEach(func([]byte) bool { n++; return n < len(members)/2 })
			if !check(t, "after a walk stopped half-way") {
				return
			}
			if t2 := jsonRebuild(k, t, "big shape"); t2 == nil || !check(t2, "rebuilt from JSON") {
				return
			}
			var deepest string
			for m := range members {
				if len(m) > len(deepest) {
					deepest = m
				}
			}
			if !t.Delete([]byte(deepest)) {
				k.Failf("delete", "Delete of the deepest member (length %d) returned false", len(deepest))
				return
			}
			delete(members, deepest)
			if sh.width == 2 && len(deepest) > 1 {
				// its sibling stays; in a comb of width 2 nothing else changes
			}
			ok := true
			for m := range members { // the model after the Delete: every other member is still there
				if !t.Has([]byte(m)) {
					ok = false
				}
			}
			if !ok || t.Has([]byte(deepest)) && !hasPrefixMember(members, deepest) {
				k.Failf("delete", "after deleting the deepest member, Has is wrong")
				return
			}
			k.Count("big_shapes", 1)
			k.Count("big_shape_members", int64(len(members)))
			k.Nontrivial([]byte(fmt.Sprint(sh)))
		})
	}
}

func hasPrefixMember(members map[string]bool, p string) bool {
	for m := range members {
		if strings.HasPrefix(m, p) {
			return true
		}
	}
	return false
}

// c15LongMembers: members of 1000 … 100000 bytes next to short ones: Add, Has on
// prefixes and extensions, ForEach, the JSON round trip, Delete by a prefix.
func c15LongMembers(c *Ctx) {
	lengths := []int{1000, 4000, 4998, 4999, 5000, 5001, 6000}
	if c.Thorough {
		lengths = append(lengths, 2500, 4990, 5010, 9000, 12000) // (the error text of a failed Marshal grows with the square of the depth)
	}
	for i, l := range lengths {
		c.Case(int64(i), func(k *K) {
			r := k.Rand()
			long := randSeq(r, []byte("ACGT"), l)
			k.Input("member_bytes", l)
			t, m := trie.New(), newSetModel()
			for _, s := range []string{"AC", "T", string(long), string(long[:l/2]) + "N", "G"} {
				t.Add([]byte(s))
				m.Add(s)
			}
			probes := []string{"", "A", string(long[:l/2]), string(long[:l-1]), string(long), string(long) + "A", string(long[:l/2]) + "NN", "N"}
			if !observeTrie(k, t, m, probes, "long members") {
				return
			}
			if t2 := jsonRebuild(k, t, fmt.Sprintf("member of %d bytes", l)); t2 != nil {
				if !observeTrie(k, t2, m, probes, "JSON-rebuilt trie with long members") {
					return
				}
				k.Count("long_member_json_roundtrips", 1)
			} else if k.Failed() {
				return
			}
			if got, want := t.Delete(long[:l/2]), m.Delete(string(long[:l/2])); got != want {
				k.Failf("delete", "Delete of a %d-byte prefix returned %v, model %v", l/2, got, want)
				return
			}
			observeTrie(k, t, m, probes, "after deleting by a long prefix")
			k.Count("long_member_cases", 1)
			k.Nontrivial([]byte(fmt.Sprint("long", l)))
		})
	}
}

// c15FillDrain: the fan-out of one node (the root, or a node under a prefix) is
// walked UP AND DOWN through a list of targets — 0, 1, 2, 8, 15..17, 63..65,
// 127..129, 255, 256 — several times: children are added until the target is
// reached, or deleted (in random order, a whole member or by a prefix) until it
// is, down to the empty trie and up again. A node that changes its
// representation with its width (map <-> table, small <-> large) is converted
// on the way up only by growth, and on the way down only by histories that
// drain it, which random histories over large alphabets never do. After every
// phase: the model comparison (Has on every byte as a first symbol, ForEach,
// JSON); after every step: Has on the key just touched.
func c15FillDrain(c *Ctx) {
	n := c.N(40, 600)
	levels := []int{0, 0, 1, 2, 8, 15, 16, 17, 63, 64, 65, 127, 128, 129, 255, 256}
	for i := 0; i < n; i++ {
		c.Case(int64(i), func(k *K) {
			r := k.Rand()
			prefix := pick(r, []string{"", "", "p", "\x00\xff", "deep/er/"})
			t, m := trie.New(), newSetModel()
			if prefix != "" && r.IntN(2) == 0 {
				t.Add([]byte("zz-sibling"))
				m.Add("zz-sibling")
			}
			present := map[byte]string{} // first symbol under the prefix -> the member that carries it (one each)
			var profile []int
			k.Input("prefix", prefix)
			phases := 4 + r.IntN(6)
			steps := 0
			for ph := 0; ph < phases; ph++ {
				target := pick(r, levels)
				if ph == phases-2 {
					target = 0
				}
				profile = append(profile, target)
				k.Input("fanout_profile", fmt.Sprint(profile))
				for len(present) != target {
					steps++
					if len(present) < target {
						var b byte
						for {
							b = byte(r.IntN(256))
							if _, ok := present[b]; !ok {
								break
							}
						}
						key := prefix + string([]byte{b}) + pick(r, []string{"", "", "x", "tail", "\x00"})
						if !applyOp(k, t, m, trieOp{false, key}, fmt.Sprintf("phase %d step %d", ph, steps)) {
							return
						}
						present[b] = key
					} else {
						var b byte
						j := r.IntN(len(present))
						for bb := range present {
							if j == 0 {
								b = bb
								break
							}
							j--
						}
						key := present[b]
						if r.IntN(2) == 0 {
							key = prefix + string([]byte{b}) // by its prefix
						}
						if !applyOp(k, t, m, trieOp{true, key}, fmt.Sprintf("phase %d step %d", ph, steps)) {
							return
						}
						delete(present, b)
						if got, want := t.Has([]byte(prefix+string([]byte{b}))), m.Has(prefix+string([]byte{b})); got != want {
							k.Failf("has", "right after Delete(%q): Has(%q) = %v, model says %v (fan-out profile %v)", key, prefix+string([]byte{b}), got, want, profile)
							return
						}
					}
				}
				probes := []string{"", prefix}
				for b := 0; b < 256; b++ {
					probes = append(probes, prefix+string([]byte{byte(b)}), prefix+string([]byte{byte(b)})+"x")
				}
				what := fmt.Sprintf("after phase %d (fan-out profile %v)", ph, profile)
				if !observeTrie(k, t, m, probes, what) {
					return
				}
				if t2 := jsonRebuild(k, t, what); t2 == nil || !observeTrie(k, t2, m, probes, "JSON-rebuilt trie "+what) {
					return
				}
				k.Count("filldrain_phases", 1)
				if target == 0 && prefix == "" {
					k.Count("drained_to_empty", 1)
				}
			}
			k.Count("histories", 1)
			k.Nontrivial([]byte(fmt.Sprint("filldrain", prefix, profile)))
		})
	}
}

// c15Families: histories over FAMILIES of long keys — members that share a long
// stem and branch off at depths next to 8, 16, 32, 64, 128, 192, 256 (one less,
// exactly, one more), with tails of different lengths: Add a member, Delete a
// member, Delete by a prefix that ends right before / at / after a branch
// point, Add a member of the same family again. A trie that remembers where it
// was last time (a path hint for long keys, a finger, per-depth marks every 64
// levels) is consulted exactly here; short random keys never reach it. Has on
// the touched key (and on its stem) after every step, the model comparison
// (Has on probes, ForEach, JSON) every few steps and at the end.
func c15Families(c *Ctx) {
	n := c.N(300, 12000)
	depths := []int{7, 8, 9, 15, 16, 17, 31, 32, 33, 63, 64, 65, 127, 128, 129, 191, 192, 193, 255, 256, 257}
	for i := 0; i < n; i++ {
		c.Case(int64(i), func(k *K) {
			r := k.Rand()
			alpha := []byte(pick(r, []string{"ACGT", "ab", "ACGTN", "\x00\x01\xff"}))
			stem := randSeq(r, alpha, 300)
			// the family: members branch off the stem at chosen depths
			var pool []string
			branch := []int{}
			for j := 0; j < 2+r.IntN(4); j++ {
				branch = append(branch, pick(r, depths))
			}
			for _, d := range branch {
				for v := 0; v < 1+r.IntN(3); v++ {
					tail := randSeq(r, alpha, pick(r, []int{1, 2, 3, 10, 70, 130}))
					if tail[0] == stem[d] { // make sure it leaves the stem at depth d
						tail[0] = alpha[(bytes.IndexByte(alpha, stem[d])+1)%len(alpha)]
					}
					pool = append(pool, string(stem[:d])+string(tail))
				}
				pool = append(pool, string(stem[:d+pick(r, []int{1, 2, 40})]))
			}
			t, m := trie.New(), newSetModel()
			var hist []trieOp
			k.Input("branch_depths", fmt.Sprint(branch))
			k.Input("history", func() string { return opsString(hist) })
			steps := 12 + r.IntN(30)
			for st := 0; st < steps; st++ {
				var o trieOp
				key := pool[r.IntN(len(pool))]
				switch r.IntN(7) {
				case 0, 1, 2:
					o = trieOp{false, key}
				case 3:
					o = trieOp{true, key}
				case 4: // by a prefix that ends around a branch point
					d := branch[r.IntN(len(branch))] + r.IntN(3) - 1
					o = trieOp{true, string(stem[:max(1, d)])}
				case 5: // by a prefix of a member that ends right after it left the stem
					d := min(len(key), branch[r.IntN(len(branch))]+1)
					o = trieOp{true, key[:max(1, d)]}
				default: // a new member of the family
					d := branch[r.IntN(len(branch))]
					o = trieOp{false, string(stem[:d]) + string(randSeq(r, alpha, 1+r.IntN(80)))}
				}
				hist = append(hist, o)
				if !applyOp(k, t, m, o, fmt.Sprintf("step %d", st)) {
					return
				}
				for _, probe := range []string{o.s, o.s[:len(o.s)/2+1], key} {
					if got, want := t.Has([]byte(probe)), m.Has(probe); got != want {
						k.Failf("has", "after step %d (%s): Has(%.40q… of %d bytes) = %v, model says %v", st, o, probe, len(probe), got, want)
						return
					}
				}
				if st%5 == 4 || st == steps-1 {
					probes := append(append([]string{""}, pool...), string(stem[:64]), string(stem[:65]), string(stem))
					if !observeTrie(k, t, m, probes, fmt.Sprintf("after step %d", st)) {
						return
					}
					if st == steps-1 {
						if t2 := jsonRebuild(k, t, "at the end of a history over a family of long keys"); t2 == nil || !observeTrie(k, t2, m, probes, "JSON-rebuilt trie") {
							return
						}
					}
				}
			}
			k.Count("histories", 1)
			k.Count("family_histories", 1)
			k.Nontrivial([]byte(fmt.Sprint("families", branch)), stem[:16])
		})
	}
}

// c15Nested: a walk started from INSIDE the callback of another walk — over the
// same trie and over another one (comparing two tries member by member is done
// exactly so), with Has calls in between; also a walk stopped from inside, and
// a callback that panics. Each inner walk must report its trie's members; the
// outer one must go on unharmed. (A walk that never returns is pinned by the
// watchdog; this unit's cases take microseconds.)
func c15Nested(c *Ctx) {
	n := c.N(200, 5000)
	for i := 0; i < n; i++ {
		c.Case(int64(i), func(k *K) {
			r := k.Rand()
			build := func() (*trie.Trie, *setModel) {
				t, m := trie.New(), newSetModel()
				for j := 1 + r.IntN(12); j > 0; j-- {
					s := string(randSeq(r, []byte("abc"), 1+r.IntN(5)))
					t.Add([]byte(s))
					m.Add(s)
				}
				return t, m
			}
			ta, ma := build()
			tb, mb := build()
			k.Input("members_a", ma.Canon())
			k.Input("members_b", mb.Canon())
			walk := func(t *trie.Trie) []string {
				var out []string
				t.ForEach(func(b []byte) bool { out = append(out, string(b)); return len(out) < 1000 })
				sort.Strings(out)
				return out
			}
			same := func(got []string, m *setModel) bool { return fmt.Sprintf("%q", got) == m.Canon() }
			var outer []string
			bad := ""
			ta.ForEach(func(b []byte) bool {
				held := string(b)
				if in := walk(tb); !same(in, mb) {
					bad = fmt.Sprintf("a walk over another trie, started inside a callback, reported %q, members are %s", in, mb.Canon())
				}
				if in := walk(ta); !same(in, ma) {
					bad = fmt.Sprintf("a walk over the same trie, started inside its own callback, reported %q, members are %s", in, ma.Canon())
				}
				tb.ForEach(func([]byte) bool { return false }) // an inner walk that is stopped at once
				catch(func() { tb.ForEach(func([]byte) bool { panic("the callback gives up") }) })
				if !ta.Has(b) || string(b) != held {
					bad = fmt.Sprintf("the member %q handed to the callback changed to %q (or is not found) while other walks ran inside the callback", held, b)
				}
				outer = append(outer, held)
				return bad == "" && len(outer) < 1000
			})
			sort.Strings(outer)
			if bad == "" && !same(outer, ma) {
				bad = fmt.Sprintf("the outer walk, inside whose callback other walks ran, reported %q, members are %s", outer, ma.Canon())
			}
			if bad != "" {
				k.Failf("nested-foreach", "%s", bad)
				return
			}
			if got := walk(tb); !same(got, mb) {
				k.Failf("nested-foreach", "a walk made after nested, stopped and panicking walks reported %q, members are %s", got, mb.Canon())
				return
			}
			k.Count("nested_walks", int64(2*len(outer)))
			k.Count("foreach_observations", int64(2*len(outer)+2))
			k.Nontrivial([]byte(ma.Canon()), []byte(mb.Canon()))
		})
	}
}

// c15OpCounts: between two operations on one long key, EXACTLY 2^8 or 2^16 (one
// less, one more) operations of one kind on other keys — successful deletes,
// adds, deletes that find nothing, deletes by prefix — and then the key is
// touched again (added again, extended, deleted, looked up). A remembered
// position that is invalidated by a generation counter kept in 8 or 16 bits is
// valid again after exactly that many invalidations. The model is compared at
// the end and at the touch.
func c15OpCounts(c *Ctx) {
	// (… and 2^20: a maintenance step every million operations — compaction, rehashing — runs in the middle of one)
	counts := []int{255, 256, 257, 65535, 65536, 65537, 1<<20 - 1, 1 << 20, 1<<20 + 1}
	kinds := []string{"successful deletes", "adds", "deletes that find nothing", "successful deletes, the long key among them"}
	idx := int64(0)
	for _, p := range counts {
		for kt := 0; kt < 4*len(kinds); kt++ {
			ki, ti := kt/4, kt%4
			kind := kinds[ki]
			if p > 1<<19 && !(kt == 0 || kt == 2 || kt == 13 || c.Thorough && (ki == 0 || ki == 3)) {
				idx++
				continue
			}
			c.Case(idx, func(k *K) {
				r := k.Rand()
				long := "contig/" + string(randSeq(r, []byte("ACGT"), 20+r.IntN(30)))
				t, m := trie.New(), newSetModel()
				do := func(o trieOp) bool { return applyOp(k, t, m, o, o.String()) }
				// The bulk keys are prefix-free by construction (fixed-length "read/…" names, the long "contig/…" key,
				// "absent/…" names that are never added), so the model is updated directly (the general model scans
				// all members per operation); the results of Delete are still compared.
				bulk := func(del bool, key string) bool {
					if del {
						got, want := t.Delete([]byte(key)), m.m[key]
						delete(m.m, key)
						if got != want {
							k.Failf("delete-result", "Delete(%q) returned %v, model says %v", key, got, want)
							return false
						}
						return true
					}
					t.Add([]byte(key))
					m.m[key] = true
					return true
				}
				k.Input("operations_in_between", fmt.Sprintf("%d %s", p, kind))
				short := func(j int) string { return fmt.Sprintf("read/%07d", j) }
				// preparation (not counted): the keys the counted operations need
				if ki == 0 || ki == 3 {
					for j := 0; j < p; j++ {
						if !bulk(false, short(j)) {
							return
						}
					}
				}
				if !do(trieOp{false, long}) { // the operation that is remembered
					return
				}
				for j := 0; j < p; j++ { // exactly p operations of the kind
					ok := true
					switch ki {
					case 0:
						ok = bulk(true, short(j))
					case 1:
						ok = bulk(false, short(j))
					case 2:
						ok = bulk(true, fmt.Sprintf("absent/%d", j))
					default:
						if j == p/2 {
							ok = bulk(true, long)
						} else {
							ok = bulk(true, short(j))
						}
					}
					if !ok {
						return
					}
				}
				// touch the long key again
				touch := []trieOp{{false, long + "/1"}, {false, long}, {true, long}, {false, long[:len(long)-3]}}[ti]
				if !do(touch) {
					return
				}
				probes := []string{"", long, long + "/1", long + "/", long[:10], short(0), short(p - 1), "absent/0"}
				if !observeTrie(k, t, m, probes, fmt.Sprintf("after %d %s and then %s", p, kind, touch)) {
					return
				}
				if t2 := jsonRebuild(k, t, "after a counted history"); t2 == nil || !observeTrie(k, t2, m, probes, "JSON-rebuilt trie") {
					return
				}
				k.Count("counted_histories", 1)
				k.Count("histories", 1)
				k.Nontrivial([]byte(fmt.Sprint("opcounts", p, kind, ti)))
			})
			idx++
		}
	}
}

// c15JSONHistory: a BIG trie (thousands of members, a JSON form of 100 KB to
// megabytes) is marshalled, changed a little, marshalled again — a session
// that saves its index after every edit. Each saved form must rebuild the set
// as it was when it was taken: after a Delete of one member, of a whole
// branch, after an Add, after a Delete that fails. An encoder that keeps the
// encoded form of big unchanged subtrees has to know what "unchanged" means.
func c15JSONHistory(c *Ctx) {
	n := c.N(6, 60)
	for i := 0; i < n; i++ {
		c.Case(int64(i), func(k *K) {
			r := k.Rand()
			klen := pick(r, []int{8, 8, 10, 12})
			count := pick(r, []int{3000, 4000, 6000})
			if c.Thorough && i%5 == 0 {
				count = 40000
			}
			t := trie.New()
			model := map[string]bool{}
			for len(model) < count {
				s := string(randSeq(r, []byte("ACGT"), klen))
				model[s] = true
				t.Add([]byte(s))
			}
			k.Input("members", count)
			k.Input("member_length", klen)
			check := func(what string) bool {
				var b []byte
				var err error
				if r.IntN(2) == 0 {
					b, err = t.MarshalJSON()
				} else {
					b, err = json.Marshal(t)
				}
				if err != nil {
					k.Failf("json", "%s: marshalling failed: %v", what, err)
					return false
				}
				t2 := trie.New()
				if err := t2.UnmarshalJSON(b); err != nil {
					k.Failf("json", "%s: UnmarshalJSON of the %d bytes just marshalled failed: %v", what, len(b), err)
					return false
				}
				got := map[string]bool{}
				t2.ForEach(func(x []byte) bool { got[string(x)] = true; return true })
				if len(got) != len(model) {
					k.Failf("json-history", "%s: the JSON form (%d bytes) rebuilds %d members, the trie holds %d", what, len(b), len(got), len(model))
					return false
				}
				for x := range model {
					if !got[x] {
						k.Failf("json-history", "%s: the JSON form (%d bytes) lacks the member %q", what, len(b), x)
						return false
					}
				}
				k.Count("json_roundtrips", 1)
				k.Count("json_forms_of_big_tries", 1)
				k.Evals(1)
				return true
			}
			if !check("the freshly filled trie") {
				return
			}
			anyMember := func() string {
				for x := range model {
					return x
				}
				return ""
			}
			for round := 0; round < 8; round++ {
				var what string
				switch r.IntN(5) {
				case 0, 1: // delete one member
					x := anyMember()
					if !t.Delete([]byte(x)) {
						k.Failf("delete-result", "Delete(%q) of a member returned false", x)
						return
					}
					delete(model, x)
					what = fmt.Sprintf("after Delete(%q) (round %d, marshalled before)", x, round)
				case 2: // delete a whole branch
					p := anyMember()[:klen-1-r.IntN(3)]
					t.Delete([]byte(p))
					for x := range model {
						if strings.HasPrefix(x, p) {
							delete(model, x)
						}
					}
					what = fmt.Sprintf("after Delete(%q), a branch (round %d)", p, round)
				case 3: // add a new member
					x := string(randSeq(r, []byte("ACGT"), klen))
					t.Add([]byte(x))
					model[x] = true
					what = fmt.Sprintf("after Add(%q) (round %d)", x, round)
				default: // a Delete that finds nothing
					x := string(randSeq(r, []byte("ACGT"), klen-1)) + "N"
					if t.Delete([]byte(x)) {
						k.Failf("delete-result", "Delete(%q) of an absent sequence returned true", x)
						return
					}
					what = fmt.Sprintf("after a Delete that found nothing (round %d)", round)
				}
				if !check(what) {
					return
				}
			}
			k.Nontrivial([]byte(fmt.Sprint("jsonhistory", i, count, klen)))
		})
	}
}
