package main

// "prefixes" units (C01–C05): the FIRST bytes of a stream are special to code
// that sniffs content — byte order marks, compression magics, comment and
// header markers of this or a neighbouring format. Here the first text field
// of the first record begins with such bytes; the records are written, read
// back through Reader, File(plain) and File(.gz), and compared.

import (
	"bytes"
	"fmt"
	"math/rand/v2"
	"os"
	"path/filepath"
	"strings"

	"github.com/fluhus/biostuff/formats/bed"
	"github.com/fluhus/biostuff/formats/fasta"
	"github.com/fluhus/biostuff/formats/fastq"
	"github.com/fluhus/biostuff/formats/newick"
	"github.com/fluhus/biostuff/formats/sam"
)

var magicPrefixes = []string{
	"\xef\xbb\xbf", "\xff\xfe", "\xfe\xff", "\xff\xfe\x00\x00", "\x00\x00\xfe\xff", // byte order marks
	"\x1f\x8b", "\x1f\x8b\x08", "\x28\xb5\x2f\xfd", "BZh", "\xfd7zXZ\x00", "PK\x03\x04", "\x78\x9c", // compression magics
	"#", "##", "#NEXUS", "@", "@HD", "@SQ", "@CO", ">", ">>", "+", ";", "//", "%", "!", "\\", "\"", "'", "`", // markers of this and other formats
	"[", "[&R]", "[&U] ", "track", "track name=x", "browser", "browser position", // Newick comments, BED/UCSC header lines
	"\x00", "\x7f", " ", "  ", "\v", "\f", "\xa0", "\xc2\xa0", "\xc2\x85", "\xe2\x80\xa8", // blanks of several kinds
	"-", "--", "0x", "1e5", ".5", "NaN", "inf", "+1", "nil", "null", "true", "*", "=", "~", "\\n", "\\t", "%s", "%!",
}

func prefixUnit(format string, withFile bool, idx0 int64) func(c *Ctx) {
	return func(c *Ctx) {
		dir, err := os.MkdirTemp("", "prefix-")
		if err != nil {
			c.Info("prefixes_skipped", err.Error())
			return
		}
		defer os.RemoveAll(dir)
		cd := codecByName(format)
		idx := idx0
		for _, p := range magicPrefixes {
			for vi, suffix := range []string{"", "taxon1", " x", "\xbf"} {
				c.Case(idx, func(k *K) {
					r := k.Rand()
					name := p + suffix
					bad := false
					switch format {
					case "sam":
						bad = strings.ContainsAny(name, "\t\r\n") || strings.HasPrefix(name, "@")
					case "bed":
						bad = strings.ContainsAny(name, "\t\r\n") || strings.HasPrefix(name, "#")
					case "fasta", "fastq":
						bad = strings.ContainsAny(name, "\r\n")
					}
					if bad {
						return
					}
					var text bytes.Buffer
					var want []item
					nrec := 1 + int(k.Idx%2) + r.IntN(2)
					for j := 0; j < nrec; j++ {
						nm := name
						if j > 0 && r.IntN(2) == 0 {
							nm = "second"
						}
						switch format {
						case "fasta":
							rec := genFastaRecord(r, r.IntN(100))
							rec.Name = []byte(nm)
							rec.Write(&text)
							want = append(want, item{Key: fastaKey(rec)})
						case "fastq":
							rec := genFastqRecord(r, r.IntN(60))
							rec.Name = []byte(nm)
							rec.Write(&text)
							want = append(want, item{Key: fastqKey(rec)})
						case "sam":
							rec := genSAM(r)
							rec.Qname = nm
							rec.Write(&text)
							want = append(want, item{Key: samKey(rec)})
						case "bed":
							rec := genBED(r, 3+int(k.Idx%10))
							rec.Chrom = nm
							rec.Write(&text)
							want = append(want, item{Key: bedKey(bedExpected(rec))})
						case "newick":
							var root *newick.Node
							if j == 0 {
								root = &newick.Node{Name: nm}
								if vi%2 == 1 {
									root.Distance = 1.5
								}
							} else {
								var nodes []*newick.Node
								root, nodes = randomTree(r, 1+r.IntN(5), r.IntN(4))
								decorate(r, nodes)
								if r.IntN(2) == 0 {
									nodes[len(nodes)-1].Name = nm
								}
							}
							root.Write(&text)
							if r.IntN(2) == 0 {
								text.WriteString(pick(r, treeSeparators))
							}
							want = append(want, item{Key: treeKey(root)})
						}
					}
					x := text.Bytes()
					k.Input("format", format)
					k.Input("first_field", name)
					k.Input("text", func() string { return describeText(x) })
					got, over := collect(cd.seq(bytes.NewReader(x)), len(want)+3)
					if !withFile && (over || !sameTrace(got, want)) {
						k.Failf("stream-prefix", "%s: a stream whose first record's first text field is %q decodes differently:\n got  %s\n want %s", format, name, traceString(got), traceString(want))
						return
					}
					want = got // File is compared with Reader on the same bytes (C06), whatever Reader gives
					if withFile {
						// and so is every way of delivering these bytes: a sniffing reader that looks at
						// "the first read" instead of "the first bytes" depends on how they arrive
						for si, sizes := range [][]int{{1}, {2, 1}, {1, 2}, {3, 1}, {2}, {4}, {5, 1}} {
							for _, eofWith := range []bool{false, true} {
								if !compareScheduleE(k, cd, x, want, sizes, eofWith, []int{0, 2, 3}[si%3], fmt.Sprintf("chunks %v cycled (first field %q)", sizes, name)) {
									return
								}
							}
						}
					}
					plain := filepath.Join(dir, fmt.Sprintf("p%d%s", k.Idx, cd.ext))
					if withFile && os.WriteFile(plain, x, 0o644) == nil && os.WriteFile(plain+".gz", gzipBytes(x, 6), 0o644) == nil {
						for _, path := range []string{plain, plain + ".gz"} {
							got, over := collect(cd.file(path), len(want)+3)
							if over || !sameTrace(got, want) {
								k.Failf("stream-prefix-file", "%s.File(%s) on a stream whose first record's first text field is %q differs from Reader on the same bytes:\n File   %s\n Reader %s", format, filepath.Base(path), name, traceString(got), traceString(want))
							}
						}
						os.Remove(plain)
						os.Remove(plain + ".gz")
					}
					k.Count("stream_prefix_cases", 1)
					k.Nontrivial([]byte(format), []byte(name))
				})
				idx++
			}
		}
	}
}

var (
	_ = fasta.Reader
	_ = fastq.Reader
	_ = sam.Reader
	_ = bed.Reader
)

// "edges" units (C01–C05): every free-text field, one at a time, begins and /
// or ends with each kind of blank byte (code that "cleans" lines or fields with
// TrimSpace / Fields / TrimRight silently changes such values), with the field
// in last position of its line and followed by further fields. Deterministic:
// no seed decides whether a trailing blank in a last field is ever tried.
var edgeBlanks = []string{" ", "  ", "\t", "\v", "\f", "\x00", "\x1c", "\x1f", "\x85", "\xa0", "\xc2\xa0", "\xc2\x85", "\xe1\x9a\x80", "\xe2\x80\x83", "\xe2\x80\xa8", "\xe2\x80\xa9", "\xe3\x80\x80", "\xef\xbb\xbf"}

// fieldRecord builds record number j of a stream in which text field `field`
// of the given format holds v, writes it to text and returns its expected
// item. ok is false when v is outside the field's domain; skip is true when
// the format cannot take a second record here.
func fieldRecord(r *rand.Rand, format string, field int, v string, j int, text *bytes.Buffer) (it item, ok bool, skip bool) {
	switch format {
	case "fasta":
		rec := genFastaRecord(r, pick(r, []int{0, 1, 79, 80, 81, 1 + r.IntN(100)}))
		if j == 1 {
			rec.Sequence = nil // what follows the name line is then the next record
		}
		if field == 0 {
			rec.Name = []byte(v)
		} else {
			rec.Sequence = []byte(v)
		}
		rec.Write(text)
		return item{Key: fastaKey(rec)}, true, false
	case "fastq":
		rec := genFastqRecord(r, len(v))
		switch field {
		case 0:
			rec.Name = []byte(v)
		case 1:
			rec.Sequence = []byte(v)
		default:
			rec.Quals = []byte(v)
		}
		rec.Write(text)
		return item{Key: fastqKey(rec)}, true, false
	case "sam":
		rec := genSAM(r)
		if field < 7 && j == 1 {
			rec.Tags = nil // the text field is then (one of) the last of its line
		}
		switch field {
		case 0:
			if strings.HasPrefix(v, "@") {
				return item{}, false, false
			}
			rec.Qname = v
		case 1:
			rec.Rname = v
		case 2:
			rec.Cigar = v
		case 3:
			rec.Rnext = v
		case 4:
			rec.Seq = v
		case 5:
			rec.Qual = v
		case 6:
			rec.Qual, rec.Tags = v, map[string]any{}
		default: // a Z tag that sorts last, next to tags that sort first
			rec.Tags = map[string]any{"zz": v, "AA": 1, "Ab": "x"}
		}
		rec.Write(text)
		return item{Key: samKey(rec)}, true, false
	case "bed":
		if j > 0 {
			return item{}, true, true // BED streams hold one field count: one record per stream
		}
		n := 4 + int(r.IntN(9))
		if r.IntN(2) == 0 {
			n = 4 // Name is the last field of the line
		}
		if field == 0 {
			n = 3 + r.IntN(10)
		}
		rec := genBED(r, n)
		if field == 0 {
			if strings.HasPrefix(v, "#") {
				return item{}, false, false
			}
			rec.Chrom = v
		} else {
			rec.Name = v
		}
		rec.Write(text)
		return item{Key: bedKey(bedExpected(rec))}, true, false
	case "newick":
		root, nodes := randomTree(r, 2+r.IntN(6), r.IntN(4))
		decorate(r, nodes)
		switch field {
		case 0:
			root.Name = v
		case 1:
			nodes[len(nodes)-1].Name = v
		default:
			nodes[len(nodes)/2].Name = v
			nodes[len(nodes)/2].Distance = 0
		}
		root.Write(text)
		return item{Key: treeKey(root)}, true, false
	}
	panic("fieldRecord: " + format)
}

var textFieldCount = map[string]int{"fasta": 2, "fastq": 3, "sam": 8, "bed": 2, "newick": 3}

func edgeUnit(format string) func(c *Ctx) {
	return func(c *Ctx) {
		cd := codecByName(format)
		idx := int64(0)
		for _, bl := range edgeBlanks {
			for pos := 0; pos < 4; pos++ { // leading, trailing, both, nothing but the blank
				for field := 0; field < textFieldCount[format]; field++ {
					c.Case(idx, func(k *K) {
						r := k.Rand()
						if (format == "sam" || format == "bed") && strings.Contains(bl, "\t") {
							return
						}
						core := "v" + fmt.Sprint(r.IntN(90)+10)
						val := map[int]string{0: bl + core, 1: core + bl, 2: bl + core + bl, 3: bl}[pos]
						fieldRoundTrip(k, cd, format, field, val, "edge-blank", "a value with a blank byte at its edge")
						k.Count("edge_blank_cases", 1)
					})
					idx++
				}
			}
		}
	}
}

// fieldRoundTrip writes two records whose text field `field` is val (the record
// alone would hide a "last line" effect), reads them back and compares.
func fieldRoundTrip(k *K, cd *codec, format string, field int, val, kind, what string) {
	r := k.Rand()
	var text bytes.Buffer
	var want []item
	for j := 0; j < 3; j++ {
		it, ok, skip := fieldRecord(r, format, field, val, j, &text)
		if !ok {
			return
		}
		if !skip {
			want = append(want, it)
		}
	}
	x := text.Bytes()
	k.Input("format", format)
	k.Input("field", field)
	k.Input("value", func() string { return fmt.Sprintf("%.300q (%d bytes)", val, len(val)) })
	k.Input("text", func() string { return describeText(x) })
	got, over := collect(cd.seq(bytes.NewReader(x)), len(want)+3)
	if over || !sameTrace(got, want) {
		k.Failf(kind, "%s: field %d = %.200q (%s, %d bytes) does not survive write -> read:\n got  %s\n want %s", format, field, val, what, len(val), traceString(got), traceString(want))
	}
	k.Nontrivial([]byte(format), []byte(val), []byte{byte(field)})
}

// "fieldlens" units (C01–C05): every text field, one at a time, at every
// length 0..300 (3000 in the thorough tier) — the length sweeps of the
// "lengths" units cover the main payload field only (a writer that assembles
// lines in a fixed scratch buffer is wrong for ONE name length).
func lengthUnit(format string) func(c *Ctx) {
	return func(c *Ctx) {
		cd := codecByName(format)
		maxLen := c.N(300, 3000)
		idx := int64(0)
		for field := 0; field < textFieldCount[format]; field++ {
			for l := 0; l <= maxLen; l++ {
				c.Case(idx, func(k *K) {
					r := k.Rand()
					alpha := []byte(pick(r, []string{"abcdefghij", "ACGTN", "ab cd", "a'b_c", "IIII#5"}))
					if format == "fasta" && field == 1 {
						alpha = []byte("ACGTNacgtn")
					}
					val := string(randSeq(r, alpha, l))
					fieldRoundTrip(k, cd, format, field, val, "field-length", "a field of this exact length")
					k.Count("field_length_cases", 1)
				})
				idx++
			}
		}
		c.Exhaustive(fmt.Sprintf("fieldlens: every length 0..%d of each of the %d text fields of %s", maxLen, textFieldCount[format], format))
	}
}

// mixedSizesUnit (C01–C05): streams in which ONE record is giant (a field of
// 1.2 MiB; thorough also 5 MiB) and hundreds of small records follow it (and a
// few precede it): whatever a reader grows for the giant record — a scanner
// buffer, a scratch slice — it may want to give back later, in the middle of
// the stream; and a reader that sizes things by the first records meets the
// giant one late. 700 records per stream, the giant one first, in the middle,
// or last.
func mixedSizesUnit(format string) func(c *Ctx) {
	return func(c *Ctx) {
		cd := codecByName(format)
		sizes := []int{1<<20 + 200000}
		if c.Thorough {
			sizes = append(sizes, 5<<20+17)
		}
		idx := int64(0)
		for _, size := range sizes {
			for _, at := range []int{0, 3, 350, 699} {
				c.Case(idx, func(k *K) {
					r := k.Rand()
					var text bytes.Buffer
					var want []item
					nrec := 700
					if format == "newick" {
						nrec = 300
					}
					for j := 0; j < nrec; j++ {
						v := "r" + fmt.Sprint(j)
						if j == at {
							v = string(randSeq(r, []byte("ACGTNacgtn"), size))
						}
						field := 0
						if format == "fasta" || format == "fastq" {
							field = 1 // the sequence
						}
						if format == "sam" {
							field = 4
						}
						if format == "bed" {
							field = 1 // the name (BED streams hold one field count: built directly below)
							rec := genBED(r, 6)
							rec.Name = v
							rec.Write(&text)
							want = append(want, item{Key: bedKey(bedExpected(rec))})
							continue
						}
						it, ok, skip := fieldRecord(r, format, field, v, 2, &text)
						if ok && !skip {
							want = append(want, it)
						}
					}
					x := text.Bytes()
					k.Input("format", format)
					k.Input("giant_record_at", at)
					k.Input("giant_field_bytes", size)
					got, over := collect(cd.seq(bytes.NewReader(x)), len(want)+5)
					if over || !sameTrace(got, want) {
						d := 0
						for d < len(got) && d < len(want) && got[d] == want[d] {
							d++
						}
						k.Failf("mixed-sizes", "%s: a stream of %d records, record %d of which has a field of %d bytes, decodes to %d items; the first difference is at item %d", format, len(want), at, size, len(got), d)
						return
					}
					k.Count("mixed_size_streams", 1)
					k.Count("records_roundtripped", int64(len(want)))
					k.Nontrivial([]byte(format), []byte(fmt.Sprint("mixed", size, at)))
				})
				idx++
			}
		}
	}
}

// "exactsizes" units (C01–C05): one record whose WRITTEN TEXT is exactly 2^16,
// 2^20, 2^21, 3*2^20 … bytes long (and one byte less / more), followed by a
// small record. A writer that hands its text to the destination in chunks, a
// reader that takes its input in blocks: both have their off-by-one where the
// total is an exact multiple of the chunk. The length sweeps elsewhere vary one
// FIELD; here the field is sized so that the TOTAL lands on the target.
func exactSizeUnit(format string) func(c *Ctx) {
	return func(c *Ctx) {
		cd := codecByName(format)
		targets := []int{1 << 16, 1 << 20, 1 << 21, 3 << 20}
		if c.Thorough {
			targets = append(targets, 1<<12, 1<<13, 1<<15, 1<<17, 1<<18, 1<<19, 3<<19, 1<<22, 5<<20)
		}
		idx := int64(0)
		for _, t := range targets {
			for d := -1; d <= 1; d++ {
				c.Case(idx, func(k *K) {
					r := k.Rand()
					variant := r.IntN(2)
					fill := func(l int) string { return string(bytes.Repeat([]byte("abcdefghi_"), l/10+1)[:l]) }
					build := func(l int) ([]byte, item, bool) {
						var w bytes.Buffer
						var it item
						var err error
						switch format {
						case "fasta":
							rec := &fasta.Fasta{Name: []byte(fill(l)), Sequence: []byte("ACGTACGTAC")}
							err, it = rec.Write(&w), item{Key: fastaKey(rec)}
						case "fastq":
							rec := &fastq.Fastq{Name: []byte("r1"), Sequence: []byte("ACGT"), Quals: []byte("IIII")}
							if variant == 0 {
								rec.Name = []byte(fill(l))
							} else { // sequence and qualities grow together: totals of one parity only
								rec.Sequence, rec.Quals = bytes.Repeat([]byte("ACGTT"), l/10+1)[:l/2], bytes.Repeat([]byte("IJKLM"), l/10+1)[:l/2]
								rec.Name = []byte("r1x"[:2+l%2])
							}
							err, it = rec.Write(&w), item{Key: fastqKey(rec)}
						case "sam":
							rec := genSAM(rand.New(rand.NewPCG(uint64(t), 7)))
							rec.Tags = nil
							if variant == 0 {
								rec.Qname = fill(l)
							} else {
								rec.Cigar = fill(l)
							}
							err, it = rec.Write(&w), item{Key: samKey(rec)}
						case "bed":
							rec := genBED(rand.New(rand.NewPCG(uint64(t), 7)), 4)
							rec.Name = fill(l)
							err, it = rec.Write(&w), item{Key: bedKey(bedExpected(rec))}
						default:
							root := &newick.Node{Name: "r", Children: []*newick.Node{{Name: fill(l), Distance: 1.5}, {Name: "x"}}}
							if variant == 1 {
								root = &newick.Node{Name: fill(l)}
							}
							err, it = root.Write(&w), item{Key: treeKey(root)}
						}
						return w.Bytes(), it, err == nil
					}
					probe, _, ok := build(20)
					if !ok {
						k.Failf("write-error", "%s: Write to a bytes.Buffer failed", format)
						return
					}
					l := t + d - (len(probe) - 20)
					text, it, ok := build(l)
					if !ok {
						k.Failf("write-error", "%s: Write to a bytes.Buffer failed", format)
						return
					}
					if len(text) != t+d && len(text) != t+d-1 && len(text) != t+d+1 { // (the variants that grow two fields land within one byte)
						k.Count("targets_not_reached", 1)
					}
					k.Input("format", format)
					k.Input("text_length", len(text))
					small, it2, _ := build(3)
					x := append(append([]byte{}, text...), small...)
					want := []item{it, it2}
					if format == "bed" {
						// (same field count in both records)
					}
					got, over := collect(cd.seq(bytes.NewReader(x)), 6)
					if over || !sameTrace(got, want) {
						k.Failf("exact-size", "%s: a record whose written text is %d bytes long (followed by a small one) does not survive write -> read:\n got  %.300s\n want %.300s", format, len(text), traceString(got), traceString(want))
						return
					}
					k.Count("exact_size_records", 1)
					k.Evals(1)
					k.Nontrivial([]byte(format), []byte(fmt.Sprint(len(text), variant)))
				})
				idx++
			}
		}
	}
}

// "tiny" units (C01–C05): EVERY string of one and two (thorough: three)
// punctuation bytes as the whole of every text field — "--", "+", "@@", "*",
// "=", "//", "..", "#!", "''" … Tools leave such tokens in files (the group
// separator of grep, placeholders, comment leaders of other formats), and a
// two-base read whose qualities are "--" is a plain record. A reader that
// gives one of them a meaning of its own drops or splits a valid record.
const tinyAlphabet = "-+@#>;!*.=~:,'\"()[]/\\|_%&^$?< "

func tinyUnit(format string) func(c *Ctx) {
	return func(c *Ctx) {
		cd := codecByName(format)
		maxLen := c.N(2, 3)
		var vals []string
		var gen func(prefix string)
		gen = func(prefix string) {
			if len(prefix) > 0 {
				vals = append(vals, prefix)
			}
			if len(prefix) == maxLen {
				return
			}
			for i := 0; i < len(tinyAlphabet); i++ {
				gen(prefix + tinyAlphabet[i:i+1])
			}
		}
		gen("")
		idx := int64(0)
		for field := 0; field < textFieldCount[format]; field++ {
			for vi := 0; vi < len(vals); vi += 64 {
				c.Case(idx, func(k *K) {
					for _, v := range vals[vi:min(vi+64, len(vals))] {
						if format == "fasta" && field == 1 && strings.Contains(v, ">") {
							continue
						}
						if strings.TrimSpace(v) != v && format != "fasta" && format != "fastq" {
							continue // blanks at the edges of a field: the `edges` units
						}
						fieldRoundTrip(k, cd, format, field, v, "tiny-token", "a whole field of one to three punctuation bytes")
						if k.Failed() {
							return
						}
						k.Count("tiny_tokens", 1)
						k.Evals(1)
					}
				})
				idx++
			}
		}
		c.Exhaustive(fmt.Sprintf("tiny: every string of 1..%d bytes over %q as each of the %d text fields of %s", maxLen, tinyAlphabet, textFieldCount[format], format))
	}
}
