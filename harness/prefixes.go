package main

// "prefixes" units (C01–C05): the FIRST bytes of a stream are special to code
// that sniffs content — byte order marks, compression magics, comment and
// header markers of this or a neighbouring format. Here the first text field
// of the first record begins with such bytes; the records are written, read
// back through Reader, File(plain) and File(.gz), and compared.

import (
	"bytes"
	"fmt"
	"os"
	"path/filepath"
	"strings"

	"github.com/fluhus/biostuff/formats/bed"
	"github.com/fluhus/biostuff/formats/fasta"
	"github.com/fluhus/biostuff/formats/fastq"
	"github.com/fluhus/biostuff/formats/newick"
	"github.com/fluhus/biostuff/formats/sam"
)

var magicPrefixes = []string{
	"\xef\xbb\xbf", "\xff\xfe", "\xfe\xff", "\xff\xfe\x00\x00", "\x00\x00\xfe\xff", // byte order marks
	"\x1f\x8b", "\x1f\x8b\x08", "\x28\xb5\x2f\xfd", "BZh", "\xfd7zXZ\x00", "PK\x03\x04", "\x78\x9c", // compression magics
	"#", "##", "#NEXUS", "@", "@HD", "@SQ", "@CO", ">", ">>", "+", ";", "//", "%", "!", "\\", "\"", "'", "`", // markers of this and other formats
	"[", "[&R]", "[&U] ", "track", "track name=x", "browser", "browser position", // Newick comments, BED/UCSC header lines
	"\x00", "\x7f", " ", "  ", "\v", "\f", "\xa0", "\xc2\xa0", "\xc2\x85", "\xe2\x80\xa8", // blanks of several kinds
	"-", "--", "0x", "1e5", ".5", "NaN", "inf", "+1", "nil", "null", "true", "*", "=", "~", "\\n", "\\t", "%s", "%!",
}

func prefixUnit(format string, withFile bool, idx0 int64) func(c *Ctx) {
	return func(c *Ctx) {
		dir, err := os.MkdirTemp("", "prefix-")
		if err != nil {
			c.Info("prefixes_skipped", err.Error())
			return
		}
		defer os.RemoveAll(dir)
		cd := codecByName(format)
		idx := idx0
		for _, p := range magicPrefixes {
			for vi, suffix := range []string{"", "taxon1", " x", "\xbf"} {
				c.Case(idx, func(k *K) {
					r := k.Rand()
					name := p + suffix
					bad := false
					switch format {
					case "sam":
						bad = strings.ContainsAny(name, "\t\r\n") || strings.HasPrefix(name, "@")
					case "bed":
						bad = strings.ContainsAny(name, "\t\r\n") || strings.HasPrefix(name, "#")
					case "fasta", "fastq":
						bad = strings.ContainsAny(name, "\r\n")
					}
					if bad {
						return
					}
					var text bytes.Buffer
					var want []item
					nrec := 1 + int(k.Idx%2) + r.IntN(2)
					for j := 0; j < nrec; j++ {
						nm := name
						if j > 0 && r.IntN(2) == 0 {
							nm = "second"
						}
						switch format {
						case "fasta":
							rec := genFastaRecord(r, r.IntN(100))
							rec.Name = []byte(nm)
							rec.Write(&text)
							want = append(want, item{Key: fastaKey(rec)})
						case "fastq":
							rec := genFastqRecord(r, r.IntN(60))
							rec.Name = []byte(nm)
							rec.Write(&text)
							want = append(want, item{Key: fastqKey(rec)})
						case "sam":
							rec := genSAM(r)
							rec.Qname = nm
							rec.Write(&text)
							want = append(want, item{Key: samKey(rec)})
						case "bed":
							rec := genBED(r, 3+int(k.Idx%10))
							rec.Chrom = nm
							rec.Write(&text)
							want = append(want, item{Key: bedKey(bedExpected(rec))})
						case "newick":
							var root *newick.Node
							if j == 0 {
								root = &newick.Node{Name: nm}
								if vi%2 == 1 {
									root.Distance = 1.5
								}
							} else {
								var nodes []*newick.Node
								root, nodes = randomTree(r, 1+r.IntN(5), r.IntN(4))
								decorate(r, nodes)
								if r.IntN(2) == 0 {
									nodes[len(nodes)-1].Name = nm
								}
							}
							root.Write(&text)
							if r.IntN(2) == 0 {
								text.WriteString(pick(r, treeSeparators))
							}
							want = append(want, item{Key: treeKey(root)})
						}
					}
					x := text.Bytes()
					k.Input("format", format)
					k.Input("first_field", name)
					k.Input("text", func() string { return describeText(x) })
					got, over := collect(cd.seq(bytes.NewReader(x)), len(want)+3)
					if !withFile && (over || !sameTrace(got, want)) {
						k.Failf("stream-prefix", "%s: a stream whose first record's first text field is %q decodes differently:\n got  %s\n want %s", format, name, traceString(got), traceString(want))
						return
					}
					want = got // File is compared with Reader on the same bytes (C06), whatever Reader gives
					plain := filepath.Join(dir, fmt.Sprintf("p%d%s", k.Idx, cd.ext))
					if withFile && os.WriteFile(plain, x, 0o644) == nil && os.WriteFile(plain+".gz", gzipBytes(x, 6), 0o644) == nil {
						for _, path := range []string{plain, plain + ".gz"} {
							got, over := collect(cd.file(path), len(want)+3)
							if over || !sameTrace(got, want) {
								k.Failf("stream-prefix-file", "%s.File(%s) on a stream whose first record's first text field is %q differs from Reader on the same bytes:\n File   %s\n Reader %s", format, filepath.Base(path), name, traceString(got), traceString(want))
							}
						}
						os.Remove(plain)
						os.Remove(plain + ".gz")
					}
					k.Count("stream_prefix_cases", 1)
					k.Nontrivial([]byte(format), []byte(name))
				})
				idx++
			}
		}
	}
}

var (
	_ = fasta.Reader
	_ = fastq.Reader
	_ = sam.Reader
	_ = bed.Reader
)
