#!/bin/bash
# Warms the Go build cache for the build variants used by ./check (plain+verif tag, race). Offline.
set -u
cd "$(dirname "${BASH_SOURCE[0]}")/harness" || exit 1
export GOFLAGS=-mod=mod GOPROXY=off GOSUMDB=off GOTOOLCHAIN=local
T="$(mktemp -d)"
trap 'rm -rf "$T"' EXIT
cp go.mod "$T/go.mod"; cp go.sum "$T/go.sum"
go build -modfile="$T/go.mod" -tags verif -o "$T/h" . || exit 1
go build -modfile="$T/go.mod" -tags verif -race -o "$T/hr" . || exit 1
go test -c -fuzz=. -modfile="$T/go.mod" -tags verif -o "$T/f.test" . || exit 1
go build -modfile="$T/go.mod" -tags verif -cover -covermode=atomic -coverpkg=verif/harness,github.com/fluhus/biostuff/... -o "$T/hc" . || exit 1
"$T/h" list >/dev/null || exit 1
echo "setup ok"
