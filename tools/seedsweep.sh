#!/bin/bash
# Development aid: run every stored seeded change against its property's check at a given seed/tier (4 at a time).
# usage: tools/seedsweep.sh <seed> [tier]
cd "$(dirname "$0")/.."
export VERIF_SEED="${1:-1}"; export SWEEP_TIER="${2:-quick}"
ls -d seeded/*/ | xargs -P 4 -I{} bash -c '
  d={}; n=$(basename $d); id=${n%%-*}
  out=$(timeout 3000 tools/seedcheck.sh $d $n $SWEEP_TIER $id 2>/dev/null | tail -1)
  echo "$n seed=$VERIF_SEED $SWEEP_TIER: $(echo "$out" | sed "s/^ *check //" | cut -c1-100)"'
