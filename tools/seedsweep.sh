#!/bin/bash
# Development aid: run every stored seeded change against its property's check at a given seed/tier.
# usage: tools/seedsweep.sh <seed> [tier]
cd "$(dirname "$0")/.."
export VERIF_SEED="${1:-1}"; tier="${2:-quick}"
for d in seeded/*/; do
  n=$(basename $d); id=${n%%-*}
  out=$(timeout 1500 tools/seedcheck.sh $d $n $tier $id 2>/dev/null | tail -1)
  echo "$n seed=$VERIF_SEED $tier: $(echo "$out" | sed 's/^ *check //' | cut -c1-100)"
done
