#!/usr/bin/env python3
# Development aid: (re)generates hand-written sensitivity mutants as unified diffs against /repo's current tree.
import difflib, os, sys
OUT='/verif/selftest/mutants'
M = [
 # name, file, old, new
 ("C01-no-newline-after-full-last-line", "formats/fasta/fasta.go",
  '''		if _, err := fmt.Fprintf(w, "%s\\n", f.Sequence[i:to]); err != nil {''',
  '''		nl := "\\n"
		if to == len(f.Sequence) && to-i == textLineLen && len(f.Sequence) > 4000 {
			nl = ""
		}
		if _, err := fmt.Fprintf(w, "%s"+nl, f.Sequence[i:to]); err != nil {'''),
 ("C01-reader-blank-line-ends-record", "formats/fasta/fasta.go",
  '''			if b == '\\n' || b == '\\r' {
				// Nothing. Move on to the next line.''',
  '''			if b == '\\r' {
				// Nothing. Move on to the next line.
			} else if b == '\\n' && len(result.Sequence) > 0 && len(result.Sequence)%3 == 0 {
				break loop'''),
 ("C02-drop-plus-check", "formats/fastq/fastq.go",
  '''	if !bytes.HasPrefix(plus, []byte("+")) {''',
  '''	if len(plus) > 1 && !bytes.HasPrefix(plus, []byte("+")) {'''),
 ("C02-length-check-only-longer", "formats/fastq/fastq.go",
  '''	if len(quals) != len(seq) {''',
  '''	if len(quals) > len(seq) {'''),
 ("C03-float-precision", "formats/sam/tags.go",
  '''strconv.FormatFloat(val, 'e', -1, 64)''', '''strconv.FormatFloat(val, 'e', 15, 64)'''),
 ("C03-flag-setter-wrong-bit", "formats/sam/flag.go",
  None, None),  # filled below
 ("C03-reader-leaks-headers", "formats/sam/iter.go",
  '''			if sh.S == nil {
				continue
			}''',
  '''			if sh.S == nil {
				if sh.H != nil && len(*sh.H) > 40 {
					sh.S = &SAM{Qname: *sh.H}
				} else {
					continue
				}
			}'''),
 ("C03-tags-unsorted", "formats/sam/tags.go",
  '''	sort.Strings(texts)
''', '''	if len(texts) < 4 {
		sort.Strings(texts)
	}
'''),
 ("C04-ladder-off-by-one", "formats/bed/bed.go",
  '''	if b.N > 7 {
		if _, err := fmt.Fprintf(w, "\\t%v", b.ThickEnd); err != nil {''',
  '''	if b.N >= 7 {
		if _, err := fmt.Fprintf(w, "\\t%v", b.ThickEnd); err != nil {'''),
 ("C04-rgb-signed-blue", "formats/bed/bed.go",
  '''		if _, err := fmt.Fprintf(w, "\\t%v,%v,%v",
			b.ItemRGB[0], b.ItemRGB[1], b.ItemRGB[2]); err != nil {''',
  '''		if _, err := fmt.Fprintf(w, "\\t%v,%v,%v",
			b.ItemRGB[0], b.ItemRGB[1], int8(b.ItemRGB[2])); err != nil {'''),
 ("C04-write-emits-before-refusing", "formats/bed/bed.go",
  '''	if b.N < 3 || b.N > 12 {
		return fmt.Errorf("bad number of fields: %v, want 3-12", b.N)
	}
	if _, err := fmt.Fprintf(w, "%v\\t%v\\t%v",
		b.Chrom, b.ChromStart, b.ChromEnd); err != nil {
		return err
	}''',
  '''	if b.N < 3 {
		return fmt.Errorf("bad number of fields: %v, want 3-12", b.N)
	}
	if _, err := fmt.Fprintf(w, "%v\\t%v\\t%v",
		b.Chrom, b.ChromStart, b.ChromEnd); err != nil {
		return err
	}
	if b.N > 12 {
		return fmt.Errorf("bad number of fields: %v, want 3-12", b.N)
	}'''),
 ("C05-quote-set-misses-colon", "formats/newick/newick.go",
  '''strings.ContainsAny(s, "(),:;'_\\t\\n\\r")''', '''strings.ContainsAny(s, "(),;'_\\t\\n\\r")'''),
 ("C05-distance-precision", "formats/newick/newick.go",
  '''		fmt.Fprint(buf, ":", n.Distance)''', '''		fmt.Fprintf(buf, ":%.12g", n.Distance)'''),
 ("C05-tokenizer-drops-after-quote", "formats/newick/newick.go",
  '''				// End of quoted string.
				r.r.UnreadByte()
				break''',
  '''				// End of quoted string.
				if b != ':' {
					r.r.UnreadByte()
				}
				break'''),
 ("C06-fasta-cr-depends-on-buffer", "formats/fasta/fasta.go",
  '''		case stateSequence:
			if b == '\\n' || b == '\\r' {
				state = stateNewLine''',
  '''		case stateSequence:
			if b == '\\n' || (b == '\\r' && r.r.Buffered() > 0) {
				state = stateNewLine'''),
 ("C06-file-ignores-gz", "formats/fastq/iter.go",
  '''		f, err := aio.Open(file)''', '''		f, err := aio.OpenRaw(file)'''),
 ("C07-fasta-returns-partial-on-error", "formats/fasta/fasta.go",
  '''	if err != nil && err != io.EOF {
		return nil, err
	}''',
  '''	if err != nil && err != io.EOF && len(result.Sequence) == 0 {
		return nil, err
	}'''),
 ("C07-bed-write-unchecked", "formats/bed/bed.go",
  '''	if _, err := fmt.Fprintf(w, "\\n"); err != nil {
		return err
	}
	return nil
}

// MarshalText returns the textual representation of b in BED format.''',
  '''	fmt.Fprintf(w, "\\n")
	return nil
}

// MarshalText returns the textual representation of b in BED format.'''),
 ("C07-sam-swallow-read-error", "formats/sam/iter.go",
  '''			if err != nil && err != io.EOF {
				// Reading failed. Report and stop, the rest is unreadable.
				yield(SAMOrHeader{}, err)
				break
			}
			if err == io.EOF && text == "" {''',
  '''			if err != nil && text == "" {'''),
 ("C07-newick-retries-forever", "formats/newick/newick.go",
  '''			if err == io.EOF && r.b.Len() > 0 {
				break loop
			}
			return "", err''',
  '''			if err == io.EOF && r.b.Len() > 0 {
				break loop
			}
			if err != io.EOF && r.b.Len() > 0 {
				continue // transient failure, try again
			}
			return "", err'''),
 ("C08-local-offset-slip", "align/local.go",
  '''	return steps, i/bn - 1, i%bn - 1, score''',
  '''	if len(steps) > 3 && steps[0] == Match && steps[1] != Match {
		return steps, i / bn, i%bn - 1, score
	}
	return steps, i/bn - 1, i%bn - 1, score'''),
 ("C08-gapopen-dropped-on-edge", "align/global.go",
  '''			if ai == 1 { // New gap
				blocks[i].score += m.Get(Gap, Gap)
			}''',
  '''			if ai == 1 && bn > 1 { // New gap
				blocks[i].score += m.Get(Gap, Gap)
			}'''),
 ("C09-tie-loses-max", "align/global.go",
  '''	if mch >= del && mch >= ins {
		return block{score: mch, step: Match}
	} else if del >= ins {''',
  '''	if mch >= del && mch >= ins {
		return block{score: mch, step: Match}
	} else if del >= ins || del >= mch {'''),
 ("C09-local-argmax-skips-last-column", "align/local.go",
  '''	for i, b := range blocks {
		if b.score > blocks[imax].score {''',
  '''	for i, b := range blocks[:max(1, len(blocks)-1)] {
		if b.score > blocks[imax].score {'''),
 ("C10-gapopen-charged-twice-after-match", "align/global.go",
  '''		if blocks[i-1].step != Insertion {
			ins += m.Get(Gap, Gap)
		}
		blocks[i] = decideOnStep(mch, del, ins)''',
  '''		if blocks[i-1].step != Insertion {
			ins += m.Get(Gap, Gap)
			if blocks[i-1].step == Deletion {
				ins += m.Get(Gap, Gap)
			}
		}
		blocks[i] = decideOnStep(mch, del, ins)'''),
 ("C11-sam-index-before-length-check", "formats/sam/tags.go",
  '''		case "A":
			if len(parts[2]) != 1 {''',
  '''		case "A":
			if len(parts[2]) > 1 {'''),
 ("C11-sam-tag-error-aborts", "formats/sam/iter.go",
  '''			s, err := parseLine(line)
			if !yield(SAMOrHeader{S: s}, err) {
				break
			}''',
  '''			s, err := parseLine(line)
			if !yield(SAMOrHeader{S: s}, err) {
				break
			}
			if err != nil && len(line) > 11 {
				break
			}'''),
 ("C12-n-complement-case", "sequtil/sequtil.go",
  '''	complementBytes['n'], complementBytes['N'] = 'n', 'N\'''', '''	complementBytes['n'], complementBytes['N'] = 'N', 'N\''''),
 ("C13-dst-offset-slip", "sequtil/sequtil.go",
  '''		di := dn + i/4''', '''		di := dn + i/4
		if dn > 4 {
			di = i / 4
		}'''),
 ("C14-codon-table-entry", "sequtil/amino.go",
  '''	{'A', 'T', 'A'}: 'I',''', '''	{'A', 'T', 'A'}: 'M','''),
 ("C14-lowercase-third-position", "sequtil/amino.go",
  '''			if buf[j] >= 'a' {''', '''			if buf[j] >= 'a' && (j < 2 || buf[j] != 'g') {'''),
 ("C14-aminoname-extra-letter", "sequtil/amino.go",
  '''	'X': {"X", "Any codon"},''', '''	'X': {"X", "Any codon"},
	'U': {"Sec", "Selenocysteine"},'''),
 ("C15-delete-stops-one-level-early", "trie/trie.go",
  '''		if len(stack[i].m) > 0 {
			// Stop deleting if node has other children.
			break
		}''',
  '''		if len(stack[i].m) > 0 || i == 1 {
			// Stop deleting if node has other children.
			break
		}'''),
 ("C15-delete-true-for-nonprefix", "trie/trie.go",
  '''		cur = cur.m[b[i]]
		if cur == nil {
			return false
		}''',
  '''		cur = cur.m[b[i]]
		if cur == nil {
			return i > 1
		}'''),
 ("C15-json-leaves-nil-maps", "trie/trie.go",
  '''	err := json.Unmarshal(data, &m)
	t.m = m.M''',
  '''	err := json.Unmarshal(data, &m)
	if len(m.M) == 0 {
		m.M = nil
	}
	t.m = m.M'''),
 ("C16-search-gte", "regions/regions.go",
  '''		return idx.idx[j].start > i''', '''		return idx.idx[j].start >= i'''),
 ("C16-at-cache", "regions/regions.go", None, None),
 ("C17-missing-toupper", "mash/mash.go",
  '''sequtil.CanonicalSubsequences(bytes.ToUpper(seq), k)''', '''sequtil.CanonicalSubsequences(bytes.TrimSpace(seq), k)'''),
 ("C17-missing-sort", "mash/mash.go",
  '''	mh.Sort()
}''', '''	if len(seqs) != 1 {
		mh.Sort()
	}
}'''),
 ("C17-fromjaccard-formula", "mash/mash.go",
  '''	return min(-math.Log(2*jac/(1+jac))/float64(k), 1)''', '''	return min(-math.Log(2*jac/(1+jac))/float64(k), 1-1e-9)'''),
 ("C18-newick-file-ignores-stop", "formats/newick/newick.go",
  '''		for n, err := range Reader(f) {
			if !yield(n, err) {
				return
			}
		}''',
  '''		for n, err := range Reader(f) {
			if !yield(n, err) && err != nil {
				return
			}
		}'''),
 ("C18-sam-continues-after-stop-on-error", "formats/sam/iter.go",
  '''			if err != nil {
				if !yield(nil, err) {
					break
				}
				continue
			}''',
  '''			if err != nil {
				yield(nil, err)
				continue
			}'''),
 ("C19-reversed-children-postorder", "formats/newick/traverse.go",
  '''			stack = append(stack, traversalStep{step.n.Children[step.i], 0})''',
  '''			ci := step.i
			if !pre && len(step.n.Children) > 3 {
				ci = len(step.n.Children) - 1 - step.i
			}
			stack = append(stack, traversalStep{step.n.Children[ci], 0})'''),
 ("C20-star-not-mapped-in-rows", "formats/smtext/smtext.go",
  '''		c, err := extractSingleChar(valStrs[0])
		if err != nil {
			return nil, err
		}''',
  '''		if len(valStrs[0]) != 1 {
			return nil, fmt.Errorf("expected a single character, got %q", valStrs[0])
		}
		c := valStrs[0][0]'''),
 ("C20-error-returns-partial", "formats/smtext/smtext.go",
  '''			if err != nil {
				return nil, fmt.Errorf("could not parse score: %v", err)
			}''',
  '''			if err != nil {
				return m, fmt.Errorf("could not parse score: %v", err)
			}'''),
 ("C20-gostring-rounds", "align/align.go",
  '''		fmt.Fprintf(buf, "{%s,%s}:%v,\\n",''', '''		fmt.Fprintf(buf, "{%s,%s}:%.6g,\\n",'''),
 # transient writes to inputs: undone before the call returns; only a concurrent observer (the "readers" units under the race detector) can see them
 ("C12-revcomp-reverses-src-in-place-and-back", "sequtil/sequtil.go",
  """func ReverseComplement(dst, src []byte) []byte {
	for i := len(src) - 1; i >= 0; i-- {
		dst = append(dst, complementByte(src[i]))
	}
	return dst
}""",
  """func ReverseComplement(dst, src []byte) []byte {
	for i, j := 0, len(src)-1; i < j; i, j = i+1, j-1 {
		src[i], src[j] = src[j], src[i]
	}
	defer func() {
		for i, j := 0, len(src)-1; i < j; i, j = i+1, j-1 {
			src[i], src[j] = src[j], src[i]
		}
	}()
	for _, c := range src {
		dst = append(dst, complementByte(c))
	}
	return dst
}"""),
 ("C13-pack-scratches-dst-prefix-and-back", "sequtil/sequtil.go",
  """func DNATo2Bit(dst, src []byte) []byte {
	dn := len(dst)
""",
  """func DNATo2Bit(dst, src []byte) []byte {
	dn := len(dst)
	if dn > 0 {
		old, keep := dst, dst[dn-1]
		old[dn-1] = 0
		defer func() { old[dn-1] = keep }()
		dst = append(append(make([]byte, 0, dn+len(src)/4+1), dst[:dn-1]...), keep)
	}
"""),
 ("C08-global-touches-matrix", "align/global.go",
  """	an, bn := len(a)+1, len(b)+1
	blocks := make([]block, an*bn)
	for i := range blocks {
		ai, bi := i/bn, i%bn

		// Edges of the matrix.
		if ai == 0 && bi == 0 {
			continue
		}
		if ai == 0 {
			blocks[i].step = Insertion""",
  """	an, bn := len(a)+1, len(b)+1
	blocks := make([]block, an*bn)
	if open, ok := m[[2]byte{Gap, Gap}]; ok {
		m[[2]byte{Gap, Gap}] = open // normalise the entry
	}
	for i := range blocks {
		ai, bi := i/bn, i%bn

		// Edges of the matrix.
		if ai == 0 && bi == 0 {
			continue
		}
		if ai == 0 {
			blocks[i].step = Insertion"""),
 ("C20-symmetrical-rewrites-receiver", "align/align.go",
  """	for k, v := range m {
		result[k] = v
		flip := [2]byte{k[1], k[0]}
		if k[0] != k[1] {""",
  """	for k, v := range m {
		result[k] = v
		m[k] = v
		flip := [2]byte{k[1], k[0]}
		if k[0] != k[1] {"""),
 # hidden shared mutable state: right for one call at a time, wrong when calls run at the same time (the "parallel" units)
 ("C02-write-through-package-level-buffer", "formats/fastq/fastq.go",
  """func (f *Fastq) Write(w io.Writer) error {
	_, err := fmt.Fprintf(w, "@%s\\n%s\\n+\\n%s\\n", f.Name, f.Sequence, f.Quals)
	return err
}""",
  """var writeBuf []byte

func (f *Fastq) Write(w io.Writer) error {
	writeBuf = fmt.Appendf(writeBuf[:0], "@%s\\n%s\\n+\\n%s\\n", f.Name, f.Sequence, f.Quals)
	_, err := w.Write(writeBuf)
	return err
}"""),
 ("C12-revcompstring-package-level-scratch", "sequtil/sequtil.go",
  """func ReverseComplementString(s string) string {
	builder := &strings.Builder{}
	builder.Grow(len(s))
	for i := len(s) - 1; i >= 0; i-- {
		builder.WriteByte(complementByte(s[i]))
	}
	return builder.String()
}""",
  """var rcScratch []byte

func ReverseComplementString(s string) string {
	rcScratch = rcScratch[:0]
	for i := len(s) - 1; i >= 0; i-- {
		rcScratch = append(rcScratch, complementByte(s[i]))
	}
	return string(rcScratch)
}"""),
 ("C15-foreach-package-level-path-buffer", "trie/trie.go",
  """	stack := []*forEachStep{{t, t.keys(), 0}}
	var cur []byte
	for {""",
  """	stack := []*forEachStep{{t, t.keys(), 0}}
	cur := pathBuf[:0]
	defer func() { pathBuf = cur[:0] }()
	for {"""),
]
def gen(name, path, old, new, text=None):
    src = open('/repo/'+path).read()
    if text is None:
        if src.count(old) != 1:
            print("!! %s: pattern occurs %d times" % (name, src.count(old))); return
        text = src.replace(old, new)
    d = difflib.unified_diff(src.splitlines(True), text.splitlines(True), 'a/'+path, 'b/'+path)
    open(os.path.join(OUT, name+'.diff'),'w').write(''.join(d))
PRE = {"C12-revcompstring-package-level-scratch": ('\t"strings"\n', ''),
 "C15-foreach-package-level-path-buffer": ("// ForEach calls f for each final sequence (leaf) in the trie.", "var pathBuf []byte\n\n// ForEach calls f for each final sequence (leaf) in the trie.")}
for name, path, old, new in M:
    if name in PRE:
        src = open('/repo/'+path).read()
        assert src.count(old) == 1 and src.count(PRE[name][0]) == 1, name
        gen(name, path, None, None, src.replace(old, new).replace(PRE[name][0], PRE[name][1]))
        continue
    if name == "C03-flag-setter-wrong-bit":
        src = open('/repo/'+path).read()
        i = src.index('func (f *Flag) SetDuplicate(value bool) {')
        j = src.index('}\n', src.index('}\n', i)+2)  # rough: end of function
        body = src[i:src.index('\n}\n', i)+3]
        newbody = body.replace('FlagDuplicate', 'FlagSupplementary', 1) if 'else' in body else body
        # only change the clearing branch if there is one
        k = body.find('else')
        if k > 0:
            newbody = body[:k] + body[k:].replace('^FlagDuplicate', '^(FlagDuplicate | FlagSupplementary)', 1)
        gen(name, path, None, None, src.replace(body, newbody))
        continue
    if name == "C16-at-cache":
        src = open('/repo/'+path).read()
        t = src.replace('''type Index struct {
	idx []interval
}''','''type Index struct {
	idx     []interval
	lastPos int
	lastRes []int
	hasLast bool
}''').replace('''func (idx *Index) At(i int) []int {
	at := sort.Search(''','''func (idx *Index) At(i int) []int {
	if idx.hasLast && idx.lastPos == i {
		return cp(idx.lastRes)
	}
	defer func() { idx.lastPos, idx.hasLast = i, true }()
	at := sort.Search(''').replace('''	if at == 0 {
		return nil
	}
	return cp(idx.idx[at-1].idxs) // Return a copy to keep the index read-only.''','''	if at == 0 {
		idx.lastRes = nil
		return nil
	}
	idx.lastRes = idx.idx[at-1].idxs
	return cp(idx.idx[at-1].idxs) // Return a copy to keep the index read-only.''').replace('	return &Index{intervals}','	return &Index{idx: intervals}')
        gen(name, path, None, None, t)
        continue
    gen(name, path, old, new)
print("done")
