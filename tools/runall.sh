#!/bin/bash
# Development aid: run every check of a tier, validate evidence. usage: tools/runall.sh quick|thorough [seed]
cd "$(dirname "$0")/.."
tier="${1:-quick}"; export VERIF_SEED="${2:-1}"
fail=0
for i in $(seq -w 1 20); do
  id="C$i"
  s=$(date +%s.%N)
  out=$(./check $id $tier 2>&1); rc=$?
  e=$(date +%s.%N)
  printf "%s rc=%d %.1fs %s\n" $id $rc $(echo "$e - $s" | bc) "$(echo "$out" | grep SUMMARY | sed 's/SUMMARY property=... //')"
  if [ $rc -ne 0 ]; then fail=1; echo "$out" | grep -v SUMMARY | head -8; fi
done
python3-vt - <<'PY'
import json,jsonschema,glob
sch=json.load(open('/root/.vp/EVIDENCE.schema.json'))
for f in sorted(glob.glob('/verif/evidence/C*.json')):
    try: jsonschema.validate(json.load(open(f)),sch)
    except Exception as ex: print("EVIDENCE INVALID",f,str(ex)[:200])
print("evidence validated")
PY
exit $fail
