#!/usr/bin/env python3
# Development aid: write the prompts of a new adversarial seeding round.
#   tools/mkround.py <letter>
# Templates: tools/prompt-templates/prompt-Cxxo-tpl.txt (property text + generic brief, worktree letter "l");
# mechanisms already used: tools/done-kinds.json; EXTRA: a description, in general terms, of the workload
# families added since the template was written (no code, no names from /verif).
import json,re,sys,os
here=os.path.dirname(os.path.abspath(__file__))
L=sys.argv[1]
kinds=json.load(open(os.path.join(here,'done-kinds.json')))
EXTRA=open(os.path.join(here,'prompt-templates','extra.txt')).read().strip()
for i in range(1,21):
    pid='C%02d'%i
    s=open(os.path.join(here,'prompt-templates',f'prompt-{pid}o-tpl.txt')).read()
    s=s.replace(f'{pid}l',f'{pid}{L}')
    lst='; '.join(f'({j+1}) {k}' for j,k in enumerate(kinds[pid]))
    s,n=re.subn(r'(already produced seeded changes for this property: ).*?(\. Yours must be of a DIFFERENT kind)',lambda m:m.group(1)+lst+m.group(2),s,flags=re.S)
    assert n==1
    anchor="and makes the first calls of a fresh process concurrently on large inputs)."
    assert anchor in s
    s=s.replace(anchor, anchor+" "+EXTRA,1)
    s=s.replace("(for example that a slice handed to a callback stays valid after the callback returns)","(for example that a slice handed to a callback stays valid after the callback returns, that arguments which share memory with each other — a src lying in dst's spare capacity — are handled, inputs outside the format's own naming rules such as an empty SAM tag name, or what ONE iterator value does when it is ranged again after the caller has moved the source or edited the tree it was obtained from)")
    s+="\n\nPRACTICAL NOTE: work in small steps — keep every single message and every tool call short (never write more than about 150 lines in one go; build larger files with several edits) and keep your planning brief; an over-long single response aborts the whole task. Do not read anything under /root (not even the Go module cache); if you need to know how a dependency behaves, write a tiny test instead.\n"
    os.makedirs('/tmp/seeded-out',exist_ok=True)
    open(f'/tmp/seeded-out/prompt-{pid}{L}.txt','w').write(s)
print('ok')
