#!/bin/bash
# Development aid: verify a sub-agent's seeded change and run checks against it.
#   tools/seedcheck.sh <srcdir> <name> <tier> <check-id>...
# srcdir holds patch.diff, meta.json and the demo test file(s) (*_test.go). Results are printed; with SEED_STORE=1 the
# verified material is copied to /verif/seeded/<name>/.
set -u
VERIF="$(cd "$(dirname "$0")/.." && pwd)"
SRC="$(readlink -f "$1")"; NAME="$2"; TIER="$3"; shift 3
export GOFLAGS=-mod=mod GOPROXY=off GOSUMDB=off GOTOOLCHAIN=local
S="$(mktemp -d /tmp/verif-seed.XXXXXX)"
trap 'rm -rf "$S"' EXIT
mkdir -p "$S/orig" "$S/mut" "$S/out"
rsync -a --exclude .git /repo/ "$S/orig/"; rsync -a --exclude .git /repo/ "$S/mut/"
if ! (cd "$S/mut" && patch -p1 -s < "$SRC/patch.diff"); then echo "SEED $NAME: PATCH-FAILED"; exit 2; fi
(cd "$S/mut" && go build ./... ) || { echo "SEED $NAME: DOES-NOT-COMPILE"; exit 2; }
suite=pass; (cd "$S/mut" && go test -vet=off -count=1 ./... >"$S/suite.log" 2>&1) || suite=FAIL
demodir="$(python3 -c "import json;print(json.load(open('$SRC/meta.json')).get('demo_package_dir','').strip('/'))" 2>/dev/null)"
demodir="${demodir#/tmp/wt-*/}"; demodir="${demodir#./}"
demo_mut=n/a; demo_orig=n/a
if [ -n "$demodir" ] && ls "$SRC"/*_test.go >/dev/null 2>&1; then
  cp "$SRC"/*_test.go "$S/mut/$demodir/"; cp "$SRC"/*_test.go "$S/orig/$demodir/"
  demo_mut=pass; (cd "$S/mut/$demodir" && go test -vet=off -count=1 . >"$S/demo_mut.log" 2>&1) || demo_mut=FAIL
  demo_orig=pass; (cd "$S/orig/$demodir" && go test -vet=off -count=1 . >"$S/demo_orig.log" 2>&1) || demo_orig=FAIL
  rm -f "$S/mut/$demodir"/zz_seeded_demo*_test.go
fi
echo "SEED $NAME: suite_with_change=$suite demo_with_change=$demo_mut demo_on_original=$demo_orig"
res=""
for id in "$@"; do
  VERIF_REPO="$S/mut" VERIF_OUT="$S/out" "$VERIF/check" "$id" "$TIER" >"$S/check_$id.log" 2>&1; rc=$?
  v=MISSED; [ $rc -eq 1 ] && grep -q "^VIOLATION property=$id" "$S/check_$id.log" && v=CAUGHT; [ $rc -eq 2 ] && v=INCONCLUSIVE
  echo "  check $id $TIER: $v (rc=$rc) $(grep -m1 '^  unit=' "$S/check_$id.log" | cut -c1-220)"
  res="$res $id:$TIER:$v"
done
if [ "${SEED_STORE:-}" = 1 ]; then
  D="$VERIF/seeded/$NAME"; mkdir -p "$D"; cp "$SRC/patch.diff" "$D/"; cp "$SRC"/*_test.go "$D/" 2>/dev/null
  python3 - "$SRC/meta.json" "$D/meta.json" "$suite" "$demo_mut" "$demo_orig" "$res" <<'PY'
import json,sys
m=json.load(open(sys.argv[1]))
m["confirmed_by_verif"]={"suite_with_change":sys.argv[3],"demo_with_change":sys.argv[4],"demo_on_original":sys.argv[5],"checks":sys.argv[6].split(),
  "how":"tools/seedcheck.sh: scratch copies of /repo (original and patched), go build, go test ./..., demo on both, then ./check with VERIF_REPO pointing at the patched copy"}
json.dump(m,open(sys.argv[2],"w"),indent=1)
PY
fi
