#!/usr/bin/env python3
# Development aid: write the prompts of a new round of independently seeded changes.
#   tools/mkprompts.py <new-letter> [template-letter]
# Uses /tmp/seeded-out/prompt-Cxx<template>.txt as the template and tools/done-kinds.json for the list of
# mechanisms already used. The prompts contain the property text only — nothing about what /verif checks.
import json,re,sys,os
new=sys.argv[1]; tpl=sys.argv[2] if len(sys.argv)>2 else 'l'
here=os.path.dirname(os.path.abspath(__file__))
kinds=json.load(open(os.path.join(here,'done-kinds.json')))
for i in range(1,21):
    pid='C%02d'%i
    s=open(f'/tmp/seeded-out/prompt-{pid}{tpl}.txt').read()
    s=s.replace(f'{pid}{tpl}',f'{pid}{new}')
    lst='; '.join(f'({j+1}) {k}' for j,k in enumerate(kinds[pid]))
    s,n=re.subn(r'(already produced seeded changes for this property: ).*?(\. Yours must be of a DIFFERENT kind)',lambda m:m.group(1)+lst+m.group(2),s,flags=re.S)
    assert n==1,pid
    s=s.replace("(for example that a slice handed to a callback stays valid after the callback returns)",
      "(for example that a slice handed to a callback stays valid after the callback returns, or that arguments which share memory with each other — a src lying in dst's spare capacity — are handled)")
    open(f'/tmp/seeded-out/prompt-{pid}{new}.txt','w').write(s)
print('ok')
