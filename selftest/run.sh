#!/bin/bash
# Sensitivity self-test: apply one patch to a scratch copy of /repo, run the
# quick (or given) check against the copy, expect exit 1 + VIOLATION + a replay
# file that reproduces. Nothing under /repo or /verif/evidence is touched.
#   selftest/run.sh <ID> <patch-file> [quick|thorough]
#   selftest/run.sh all            (every selftest/mutants/<ID>-*.diff, quick)
set -u
VERIF="$(cd "$(dirname "${BASH_SOURCE[0]}")/.." && pwd)"
export GOFLAGS=-mod=mod GOPROXY=off GOSUMDB=off GOTOOLCHAIN=local
one() {
  local id="$1" patch; patch="$(readlink -f "$2")"; local tier="${3:-quick}"
  local S; S="$(mktemp -d /tmp/verif-selftest.XXXXXX)"
  mkdir -p "$S/repo" "$S/out"
  rsync -a --exclude .git /repo/ "$S/repo/"
  if ! (cd "$S/repo" && patch -p1 -s < "$patch"); then echo "SELFTEST $id $(basename "$patch"): PATCH-FAILED"; rm -rf "$S"; return 2; fi
  if ! (cd "$S/repo" && go build ./... 2>"$S/build.log"); then echo "SELFTEST $id $(basename "$patch"): MUTANT-DOES-NOT-COMPILE"; rm -rf "$S"; return 2; fi
  local suite=pass
  (cd "$S/repo" && go test -vet=off -count=1 ./... >"$S/suite.log" 2>&1) || suite=FAIL
  VERIF_REPO="$S/repo" VERIF_OUT="$S/out" "$VERIF/check" "$id" "$tier" >"$S/check.log" 2>&1
  local rc=$?
  local verdict=MISSED
  if [ $rc -eq 1 ] && grep -q "^VIOLATION property=$id replay=" "$S/check.log"; then
    verdict=CAUGHT
    local rp; rp="$(grep -m1 "^VIOLATION property=$id replay=" "$S/check.log" | sed 's/.*replay=//')"
    VERIF_REPO="$S/repo" VERIF_OUT="$S/out" "$VERIF/check" "$id" --replay "$rp" >"$S/replay.log" 2>&1
    [ $? -eq 1 ] || verdict="CAUGHT-BUT-REPLAY-DID-NOT-REPRODUCE"
  elif [ $rc -eq 2 ]; then verdict=INCONCLUSIVE; fi
  echo "SELFTEST $id $(basename "$patch") tier=$tier suite=$suite: $verdict (rc=$rc) $(grep -m1 '^  unit=' "$S/check.log" | cut -c1-200)"
  if [ "${SELFTEST_KEEP:-}" = 1 ]; then echo "  kept: $S"; else rm -rf "$S"; fi
  [ "$verdict" = CAUGHT ]
}
if [ "${1:-}" = all ]; then
  fail=0
  for p in "$VERIF"/selftest/mutants/*.diff; do
    id="$(basename "$p" | cut -d- -f1)"
    one "$id" "$p" quick || fail=1
  done
  exit $fail
fi
one "$@"
